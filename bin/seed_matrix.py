#!/usr/bin/env python3
"""Re-run the registered checks against every kept seeded change on the CURRENT tree and record the outcome:
     bin/seed_matrix.py [--jobs N] [<id> ...]
   For each seeded/<id>/ the change (patch_rebased.diff when present, else patch.diff) is applied to a scratch copy of
   /repo's library (bin/mutant_run.py) and the quick check of the property it was written for is run; when that misses,
   the other properties named in meta.json["also_try"] (default: C12, C02, C03, C10) are tried. Writes
   seeded/<id>/matrix.json and prints one line per change. /repo and the evidence files are never touched."""
import sys, os, json, subprocess, re, concurrent.futures as cf
V = os.path.dirname(os.path.dirname(os.path.abspath(__file__)))


def run_one(sid):
    d = os.path.join(V, "seeded", sid)
    meta = json.load(open(os.path.join(d, "meta.json")))
    patch = os.path.join(d, "patch_rebased.diff") if os.path.exists(os.path.join(d, "patch_rebased.diff")) else os.path.join(d, "patch.diff")
    prop = meta["breaks_property"]
    others = [p for p in meta.get("also_try", ["C12", "C02", "C03", "C10"]) if p != prop]
    res = {}
    for p in [prop] + others:
        r = subprocess.run([sys.executable, os.path.join(V, "bin", "mutant_run.py"), patch, p], stdout=subprocess.PIPE, stderr=subprocess.STDOUT, text=True)
        line = [l for l in r.stdout.splitlines() if l.startswith(p + " ")]
        if "PATCH FAILED" in r.stdout:
            res[p] = "PATCH DOES NOT APPLY"; break
        res[p] = (line[0] if line else r.stdout[-200:]).split("|")[0].strip()
        if "DETECTED" in res[p]:
            break
    json.dump({"id": sid, "patch": os.path.basename(patch), "results": res}, open(os.path.join(d, "matrix.json"), "w"), indent=1)
    verdict = "DETECTED by " + [p for p in res if "DETECTED" in res[p]][0] if any("DETECTED" in v for v in res.values()) else "not detected (" + "; ".join("%s" % v for v in res.values()) + ")"
    return sid, verdict


def main():
    a = sys.argv[1:]; jobs = 2
    if "--jobs" in a:
        i = a.index("--jobs"); jobs = int(a[i + 1]); del a[i:i + 2]
    ids = a or sorted(x for x in os.listdir(os.path.join(V, "seeded")) if os.path.isdir(os.path.join(V, "seeded", x)))
    with cf.ThreadPoolExecutor(max_workers=jobs) as ex:
        for sid, verdict in ex.map(run_one, ids):
            print(sid, verdict, flush=True)


if __name__ == "__main__":
    main()
