#!/usr/bin/env python3
"""bin/seed_store.py <worktree> <mN> <id> <property> <needs> <caught_by> : copy a confirmed seeded change into /verif/seeded/<id>/"""
import sys, os, json, shutil
wt, m, sid, prop, needs, caught = sys.argv[1:7]
src = os.path.join(wt, "_mutants"); dst = os.path.join(os.path.dirname(os.path.dirname(os.path.abspath(__file__))), "seeded", sid)
os.makedirs(dst, exist_ok=True)
shutil.copy(os.path.join(src, m + ".diff"), os.path.join(dst, "patch.diff"))
shutil.copy(os.path.join(src, m + "_demo.cpp"), os.path.join(dst, "demo.cpp"))
for extra in ("demo_check.inc",):
    if os.path.exists(os.path.join(src, extra)): shutil.copy(os.path.join(src, extra), dst)
conf = json.load(open(os.path.join(src, m + "_confirm.json")))
meta = {"id": sid, "breaks_property": prop, "origin": "written by a fresh sub-agent given only the property text and a scratch worktree of /repo",
        "needs_to_manifest": needs,
        "confirmed_in_scratch_worktree": {"patch_applies": conf["applies"], "repository_suite_passes_with_change": conf["suite_with_change"],
                                          "demo_exit_code_with_change": conf["demo_rc_with_change"], "demo_exit_code_without_change": conf["demo_rc_without_change"],
                                          "demo_command": conf["demo_cmd"].replace(wt, "<worktree>")},
        "checks_run": caught}
json.dump(meta, open(os.path.join(dst, "meta.json"), "w"), indent=1)
print("stored", sid)
