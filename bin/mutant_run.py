#!/usr/bin/env python3
"""Run registered checks against a seeded change without touching /repo:
     bin/mutant_run.py <patch.diff> <PROP> [<PROP> ...] [--tier quick|thorough]
   A scratch copy of /repo's library sources is made under /tmp, the patch is applied there and the
   checks run with VERIF_REPO pointing at the copy; the copy is removed afterwards. Prints one line
   per property: DETECTED (exit 1 with VIOLATION lines) / missed (exit 0) / ERROR."""
import sys, os, subprocess, shutil, tempfile

VERIF = os.path.dirname(os.path.dirname(os.path.abspath(__file__)))


def main():
    args = sys.argv[1:]
    tier = "quick"
    if "--tier" in args:
        i = args.index("--tier"); tier = args[i + 1]; del args[i:i + 2]
    patch, props = os.path.abspath(args[0]), args[1:]
    root = tempfile.mkdtemp(prefix="mutrun_")
    try:
        os.makedirs(os.path.join(root, "CPP"))
        shutil.copytree("/repo/CPP/Clipper2Lib", os.path.join(root, "CPP", "Clipper2Lib"))
        r = subprocess.run(["patch", "-p1", "-s", "-d", root, "-i", patch], stdout=subprocess.PIPE, stderr=subprocess.STDOUT, text=True)
        if r.returncode != 0:
            print("PATCH FAILED:", r.stdout); return 2
        env = dict(os.environ, VERIF_REPO=root, VERIF_NO_EVIDENCE="1")
        for p in props:
            r = subprocess.run([sys.executable, os.path.join(VERIF, "bin", "check"), p, "--tier", tier], stdout=subprocess.PIPE, stderr=subprocess.STDOUT, text=True, env=env, cwd=VERIF)
            lines = r.stdout.splitlines()
            viol = [l for l in lines if l.startswith("VIOLATION")]
            summary = [l for l in lines if (" %s:" % tier) in l][-1:] or lines[-1:]
            status = "DETECTED" if (r.returncode == 1 and viol) else ("missed" if r.returncode == 0 else "ERROR rc=%d" % r.returncode)
            print("%s %s %s | %s" % (p, tier, status, summary[0][:200] if summary else ""))
            for v in viol[:1]:
                rp = v.split("replay=")[-1]
                try:
                    import json
                    j = json.load(open(rp)); print("     e.g. tag=%s case=%s" % (j.get("tag"), j.get("case", "")[:160]))
                except Exception:
                    pass
            if status.startswith("ERROR"):
                print("\n".join(lines[-8:]))
    finally:
        shutil.rmtree(root, ignore_errors=True)
    return 0


if __name__ == "__main__":
    sys.exit(main())
