#!/usr/bin/env python3
"""Confirm a seeded change delivered in a scratch worktree:
     bin/seed_confirm.py /tmp/wt/C09 m1
   (1) the patch applies to a clean worktree, (2) both libraries build and the complete repository suite passes with it,
   (3) the demonstration fails with the change, (4) passes without it. Prints a one-line verdict and writes
   /tmp/wt/<id>/_mutants/<m>_confirm.json. The worktree is left clean."""
import sys, os, re, subprocess, json


def sh(cmd, cwd=None, timeout=1800):
    r = subprocess.run(cmd, shell=True, cwd=cwd, stdout=subprocess.PIPE, stderr=subprocess.STDOUT, text=True, timeout=timeout)
    return r.returncode, r.stdout


def demo_cmd(path):
    """extract the compile+run command from the comment header of the demo"""
    lines = open(path).read().splitlines()[:40]
    txt = []
    grab = False
    for l in lines:
        s = re.sub(r"^\s*(//|\*|/\*)\s?", "", l).rstrip()
        mm = re.search(r"(cd \S+ && )?g\+\+ -", s)
        if not grab and mm:
            s = s[mm.start():]
            grab = True
        if grab:
            if s.endswith("\\"):
                txt.append(s[:-1]); continue
            txt.append(s); break
    return " ".join(txt)


def main():
    wt, m = sys.argv[1], sys.argv[2]
    md = os.path.join(wt, "_mutants")
    patch = os.path.join(md, m + ".diff"); demo = os.path.join(md, m + "_demo.cpp")
    out = {"worktree": wt, "mutant": m}
    sh("git checkout -- .", wt)
    rc, o = sh("git apply --check %s" % patch, wt)
    out["applies"] = rc == 0
    if rc:
        print(wt, m, "PATCH DOES NOT APPLY", o[-300:]); return 1
    cmd = demo_cmd(demo); out["demo_cmd"] = cmd
    if "_mutants/" in cmd and not cmd.startswith("cd ") and wt not in cmd.split("_mutants/")[0][-len(wt) - 2:]:
        md = wt   # the command is meant to be run from the worktree root
    build = "(test -f _build/CMakeCache.txt || cmake -G Ninja -S CPP -B _build -DUSE_EXTERNAL_GTEST=ON -DCLIPPER2_EXAMPLES=OFF -DCMAKE_BUILD_TYPE=Release >/dev/null) && cmake --build _build 2>&1 | tail -3 && ctest --test-dir _build -j8 --timeout 900 2>&1 | tail -3"
    sh("git apply %s" % patch, wt)
    rc, o = sh(build, wt); out["suite_with_change"] = ("100% tests passed" in o); out["suite_tail"] = o[-200:]
    rc1, o1 = sh(cmd, md); out["demo_rc_with_change"] = rc1; out["demo_tail_with_change"] = o1[-400:]
    sh("git checkout -- .", wt)
    rc0, o0 = sh(cmd, md); out["demo_rc_without_change"] = rc0; out["demo_tail_without_change"] = o0[-300:]
    sh("cmake --build _build >/dev/null 2>&1", wt)
    ok = out["suite_with_change"] and rc1 != 0 and rc0 == 0
    out["confirmed"] = ok
    json.dump(out, open(os.path.join(md, m + "_confirm.json"), "w"), indent=1)
    print("%s %s: %s (suite %s, demo with change rc=%s, without rc=%s)" % (os.path.basename(wt), m, "CONFIRMED" if ok else "NOT CONFIRMED", "pass" if out["suite_with_change"] else "FAIL", rc1, rc0))
    return 0 if ok else 1


if __name__ == "__main__":
    sys.exit(main())
