# C18: geometric predicates are exact and measurements accurate (header-only functions of clipper.core.h)
# The harness TU includes no Clipper2 header; the predicates are instantiated by sides/side_pred.cpp, compiled once per
# configuration (std = __int128 branch, hp = CLIPPER2_HI_PRECISION, port = portable 64x64 Multiply branch).
HARNESSES = {
    "predicates": {
        "src": "predicates.cpp", "cxxflags": O2, "nolib": True,
        "extra_srcs": [
            {"src": "sides/side_pred.cpp", "config": "std", "defs": ["-DSIDE=std"]},
            {"src": "sides/side_pred.cpp", "config": "hp", "defs": ["-DSIDE=hp"]},
            {"src": "sides/side_pred.cpp", "config": "port", "defs": ["-DSIDE=port"]},
        ],
    },
}

PROPS = {
    "C18": {
        "runs": {
            # quick (about 5 s of run time on 16 cores): everything except repeated-vertex polygons, 6-vertex polygons,
            # the S=25/26/38 lattices and the centred lattices
            "quick": [{"harness": "predicates", "args": ["--nmax", 5, "--repeats", 0, "--S", "0,10,20,27", "--centred", 0]}],
            "thorough": [{"harness": "predicates", "args": ["--nmax", 5, "--repeats", 1, "--nmax_distinct", 6, "--S", "0,10,20,25,26,27,38", "--centred", 1]}],
        },
        "rule": "Multiply: all pairs over the union of the 49 operands whose 32-bit halves are in {0,1,2,0x7FFFFFFF,0x80000000,0xFFFFFFFE,0xFFFFFFFF} and a 64-bit boundary alphabet, vs unsigned __int128 "
                "(non-trivial: high word of the product non-zero). "
                "ProductsAreEqual: all 4-tuples over {0,+-1..+-4,+-(2^31-1),+-2^31,+-(2^31+1),+-(2^32-1),+-2^32,+-(2^32+1),+-2^61,+-(2^62-1),+-2^62,+-(2^63-2),+-(2^63-1),+-floor/ceil sqrt(2^63)} "
                "(non-trivial: products equal, or equal modulo 2^64, or a product exceeds 64 bits). "
                "CrossProductSign and IsCollinear: all point triples (6 coordinates) over [-4,4] and over the boundary alphabet {0,+-1,+-2,+-3,+-(2^31-1),+-2^31,+-(2^31+1),+-(2^32-1),+-(2^32+1),+-2^61,+-(2^62-1)} "
                "(all coordinate differences fit in int64; non-trivial: exactly collinear, or a product of differences exceeds 64 bits). "
                "Each of these in the std (__int128), hp and port (portable 64x64 Multiply branch) configurations. "
                "PointInPolygon: every ordered sequence of 3..5 distinct points of the 4x4 lattice (thorough: also all sequences with repeated points, and 6 distinct points), polygons inside one horizontal line excluded and counted, "
                "x every point of the half-step grid incl. one ring outside (81 points), and the same mapped to [-2^25,2^25] x the 49 grid points each jittered by -1/0/+1 per axis (441 points), "
                "vs exact winding parity / on-boundary (non-trivial: exact answer IsOn or IsInside). "
                "GetSegmentIntersectPt, std and hp variants: every ordered 4-tuple of points of the 3x3 lattice scaled by 2^S with every coordinate jittered by -1/0/+1 "
                "(81 points, 25 at S=0; quick S in {0,10,20,27}, thorough S in {0,10,20,25,26,27,38} and the same lattices centred on the origin); returns false iff the 128-bit determinant is 0 "
                "(zero-length segments included); when the exact crossing lies on both closed segments the result is within 1 unit per axis of it (exact rational comparison) "
                "(non-trivial: non-parallel with the crossing on both segments). Violations whose input satisfies the D11 ill-conditioning predicate "
                "(max(|dy1*dx2|,|dy2*dx1|) * Chebyshev length of the longer segment > 2^50*|det|) are tagged segisect_illconditioned; non-HP results that miss the 1-unit bound by at most 2^-10 unit "
                "while an integer of the formula exceeds 2^53 are tagged segisect_trunc_excess; all others segisect_wrong. "
                "Area: every polygon of 0..5 (thorough: 6) vertices of the 4x4 lattice at five magnitudes (x1, [0,2^25], [-2^25,2^25], [0,2^40], [-2^40,2^40], lattice steps not powers of two) vs exact __int128 shoelace, "
                "tolerance n*2^-52*sum|terms| on the area, and exact equality required when sum|terms| <= 2^53 (non-trivial: exact area non-zero).",
        "level_text": "Every argument tuple of the stated finite alphabets is passed to the real inline functions of clipper.core.h, compiled in the 128-bit, the portable-multiply and the HI_PRECISION configurations and linked "
                      "into one process; every result is compared with exact (unsigned) __int128 integer/rational arithmetic.",
        "assumptions": ["64-bit argument values outside the boundary alphabets are not exercised (the space is 2^256; the carry, sign and overflow structure of the 32-bit halves is exhausted)",
                        "INT64_MIN is not fed to ProductsAreEqual (std::abs in the portable branch; outside the stated domain)",
                        "GetSegmentIntersectPt: the returned point is judged only when the exact crossing lies on both closed segments; 'on the first segment' is then implied by the 1-unit bound",
                        "PointInPolygon / Area: polygons of at most 5 vertices on a 4x4 lattice and its affine images; Area(Paths) (a plain sum) and the PointD/PathD instantiations are not exercised",
                        "the portable branch is selected by a force-included prelude that redefines UINTPTR_MAX for that copy (no source edit); the harness aborts if the three copies do not self-report the expected branches"],
    },
}
