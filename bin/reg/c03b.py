# dense small-lattice boolean scope (structural part of C03, success part of C11)
HARNESSES = {
    "boollat": {"src": "boollat.cpp", "cxxflags": O2},
}
_Q = [{"harness": "boollat", "args": ["--g", 5, "--n", 3, "--cstep", 2, "--cn", 3]},
      {"harness": "boollat", "args": ["--g", 6, "--n", 3, "--cstep", 5, "--cn", 3]}]
_T = [{"harness": "boollat", "args": ["--g", 7, "--n", 3, "--cstep", 3, "--cn", 3]},
      {"harness": "boollat", "args": ["--g", 7, "--n", 3, "--cstep", 3, "--cn", 4]},
      {"harness": "boollat", "args": ["--g", 5, "--n", 4, "--cstep", 2, "--cn", 3]},
      {"harness": "boollat", "args": ["--g", 7, "--n", 3, "--cstep", 2, "--cn", 3]}]
EXTRA_RUNS = {"C03": {"quick": _Q, "thorough": _T}, "C11": {"quick": _Q[:1], "thorough": _T[:1]}}
