# C04: PolyTree vs Paths, nesting
HARNESSES = {
    "polytree": {"src": "polytree.cpp", "cxxflags": O2},
}
PROPS = {
    "C04": {
        "deadline": {"quick": 900, "thorough": 2700},
        "runs": {
            "quick": [{"harness": "polytree", "args": ["--scope", "S1", "--nmax", 4, "--treeD", 1]},
                      {"harness": "polytree", "args": ["--scope", "S0", "--board", "twins", "--both", 1, "--k", 16, "--nmin", 4, "--nmax", 5, "--treeD", 1]},
                      {"harness": "polytree", "args": ["--scope", "S1", "--board", "twins", "--k", 8, "--nmin", 3, "--nmax", 4, "--treeD", 1]},
                      {"harness": "polytree", "args": ["--scope", "rings", "--rings", 6, "--open", 1]},
                      {"harness": "polytree", "args": ["--scope", "rect", "--g", 4, "--nsub", 2]},
                      {"harness": "polytree", "args": ["--scope", "cells", "--w", 6, "--h", 6]},
                      {"harness": "polytree", "args": ["--scope", "cells", "--w", 7, "--h", 5, "--frames", 1]},
                      {"harness": "polytree", "args": ["--scope", "subsets", "--rects", "0,8 16,8 16,12 0,12;4,24 8,24 8,12 4,12;8,12 16,12 16,16 8,16;12,16 16,16 16,20 12,20;4,12 12,12 12,20 4,20;0,12 8,12 8,20 0,20;0,12 4,12 4,24 0,24"], "shards": 4}],
            "thorough": [{"harness": "polytree", "args": ["--scope", "S1", "--nmax", 5, "--treeD", 1]},
                         {"harness": "polytree", "args": ["--scope", "S0", "--board", "twins", "--both", 1, "--k", 16, "--nmin", 4, "--nmax", 6, "--treeD", 1]},
                         {"harness": "polytree", "args": ["--scope", "S1", "--board", "twins", "--k", 8, "--nmin", 3, "--nmax", 5, "--treeD", 1]},
                         {"harness": "polytree", "args": ["--scope", "S2", "--nmax", 4]},
                         {"harness": "polytree", "args": ["--scope", "rings", "--rings", 8, "--treeD", 1, "--open", 1]},
                         {"harness": "polytree", "args": ["--scope", "rect", "--g", 4, "--nsub", 3]},
                         {"harness": "polytree", "args": ["--scope", "cells", "--w", 7, "--h", 6]},
                         {"harness": "polytree", "args": ["--scope", "cells", "--w", 6, "--h", 7]},
                         {"harness": "polytree", "args": ["--scope", "cells", "--w", 7, "--h", 5, "--frames", 1]},
                         {"harness": "polytree", "args": ["--scope", "cells", "--w", 5, "--h", 7, "--frames", 1]},
                         {"harness": "polytree", "args": ["--scope", "cells", "--w", 6, "--h", 6, "--frames", 1]},
                         {"harness": "polytree", "args": ["--scope", "subsets", "--rects", "0,8 16,8 16,12 0,12;4,24 8,24 8,12 4,12;8,12 16,12 16,16 8,16;12,16 16,16 16,20 12,20;4,12 12,12 12,20 4,20;0,12 8,12 8,20 0,20;0,12 4,12 4,24 0,24"], "shards": 4}],
        },
        "rule": "general-position scopes of C01 (also through ClipperD/PolyTreeD at precisions 0 and 2; also over the 'twins' boards: coordinates of order 10^5 with near-coincident point pairs, i.e. needle-thin spikes and crossings a few units apart), every presence/orientation/subject-clip assignment of up to 8 concentric rings (each also with two open subject paths running through the ring gaps), and every set of 2-3 subject rectangles + 1 clip rectangle "
                "on a 4-line lattice of spacing 4; a ring of cells round a 6x6 (thorough 7x6, 6x7) grid plus every subset of the interior cells in ten rectangle decompositions (Union/NonZero, Xor with the interior, Difference/EvenOdd from the full square), and the same for 7x5 (thorough also 5x7, 6x6) grids with the ring given as four bars in each of the 81 corner-ownership variants (corner covered by both bars / the horizontal / the vertical one) and the interior as unit cells and as column runs; x 4 clip types x 4 fill rules; non-trivial = the tree has depth >= 2 (at least one hole)",
        "level_text": "Every input of the scopes is executed into Paths and into a PolyTree on the real library; flattened tree == paths (exact canonical equality), every child inside its parent and outside its siblings (exact point-in-polygon), orientation alternates with level, tree area == paths area.",
        "assumptions": ["scopes bounded as stated", "containment is judged at an edge midpoint of the child that is not on the other polygon's boundary"],
    },
}
