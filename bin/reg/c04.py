# C04: PolyTree vs Paths, nesting
HARNESSES = {
    "polytree": {"src": "polytree.cpp", "cxxflags": O2},
}
PROPS = {
    "C04": {
        "runs": {
            "quick": [{"harness": "polytree", "args": ["--scope", "S1", "--nmax", 4, "--treeD", 1]},
                      {"harness": "polytree", "args": ["--scope", "rings", "--rings", 6]},
                      {"harness": "polytree", "args": ["--scope", "rect", "--g", 4, "--nsub", 2]},
                      {"harness": "polytree", "args": ["--scope", "cells", "--w", 6, "--h", 6]}],
            "thorough": [{"harness": "polytree", "args": ["--scope", "S1", "--nmax", 5, "--treeD", 1]},
                         {"harness": "polytree", "args": ["--scope", "S2", "--nmax", 4]},
                         {"harness": "polytree", "args": ["--scope", "rings", "--rings", 8, "--treeD", 1]},
                         {"harness": "polytree", "args": ["--scope", "rect", "--g", 4, "--nsub", 3]},
                         {"harness": "polytree", "args": ["--scope", "cells", "--w", 7, "--h", 6]},
                         {"harness": "polytree", "args": ["--scope", "cells", "--w", 6, "--h", 7]}],
        },
        "rule": "general-position scopes of C01 (also through ClipperD/PolyTreeD at precisions 0 and 2), every presence/orientation/subject-clip assignment of up to 8 concentric rings, and every set of 2-3 subject rectangles + 1 clip rectangle "
                "on a 4-line lattice of spacing 4; a ring of cells round a 6x6 (thorough 7x6, 6x7) grid plus every subset of the interior cells in four rectangle decompositions (Union/NonZero, Xor with the interior, Difference/EvenOdd from the full square); x 4 clip types x 4 fill rules; non-trivial = the tree has depth >= 2 (at least one hole)",
        "level_text": "Every input of the scopes is executed into Paths and into a PolyTree on the real library; flattened tree == paths (exact canonical equality), every child inside its parent and outside its siblings (exact point-in-polygon), orientation alternates with level, tree area == paths area.",
        "assumptions": ["scopes bounded as stated", "containment is judged at an edge midpoint of the child that is not on the other polygon's boundary"],
    },
}
