# C01 / C03: general-position boolean scopes
HARNESSES = {
    "boolgp": {"src": "boolgp.cpp", "cxxflags": O2, "sides": ["hp"]},
}


PROPS = {
    "C01": {
        "runs": {
            "quick": [{"harness": "boolgp", "args": ["--scope", "S1", "--nmax", 4]},
                      {"harness": "boolgp", "args": ["--scope", "S1", "--nmax", 4, "--k", 8, "--board", "aligned"]},
                      {"harness": "boolgp", "args": ["--scope", "S0", "--nmin", 4, "--nmax", 6, "--k", 8, "--board", "aligned", "--cliponly", 1]},
                      {"harness": "boolgp", "args": ["--scope", "S0", "--nmin", 4, "--nmax", 5, "--k", 16, "--both", 1, "--board", "aligned"]},
                      {"harness": "boolgp", "args": ["--scope", "S1", "--nmax", 3, "--k", 8, "--board", "flat"]},
                      {"harness": "boolgp", "args": ["--scope", "S3", "--nmax", 3]},
                      {"harness": "boolgp", "args": ["--scope", "S5"], "shards": 6}],
            "thorough": [{"harness": "boolgp", "args": ["--scope", "S1", "--nmax", 5]},
                         {"harness": "boolgp", "args": ["--scope", "S5"], "shards": 6},
                         {"harness": "boolgp", "args": ["--scope", "S1", "--nmax", 3, "--k", 8, "--board", "flat"]},
                         {"harness": "boolgp", "args": ["--scope", "S1", "--nmax", 4, "--k", 8, "--board", "aligned"]},
                         {"harness": "boolgp", "args": ["--scope", "S0", "--nmin", 4, "--nmax", 6, "--k", 8, "--board", "aligned", "--cliponly", 1]},
                         {"harness": "boolgp", "args": ["--scope", "S0", "--nmin", 4, "--nmax", 5, "--k", 16, "--both", 1, "--board", "aligned"]},
                         {"harness": "boolgp", "args": ["--scope", "S3", "--nmax", 4]},
                         {"harness": "boolgp", "args": ["--scope", "S2", "--nmax", 4]},
                         {"harness": "boolgp", "args": ["--scope", "S4"]}],
        },
        "rule": "(generic board, an 'aligned' board whose points share x / y coordinates so that vertical and horizontal edges occur, and 'flat' boards - coordinates 10^5..10^6, clip edges flatter than 1:200 crossing a steep subject edge 0.002 units from the scanline of a far-away vertex, every triangle pair) every rotation-normalised ordered tuple of distinct board-G points as subject polygon x the same over the clip board, both orientations, self-intersecting included; "
                "plus single (mostly self-intersecting) subject paths of 4..6 vertices without clip path, over the 8 subject points and over all 16 points of the aligned boards; x 4 clip types x 4 fill rules x PreserveCollinear x ReverseSolution x HI_PRECISION; inputs failing the exact general-position filter are skipped and counted; "
                "plus 127..257 nested squares of one orientation beside a clip triangle (winding numbers up to 257); a case is non-trivial when the closed solution is non-empty and differs from both input path sets",
        "level_text": "Every input of the scope is executed on the real library and the result is compared, at every point of the plane outside the stated tolerance band (quadtree region engine, exact winding numbers), with the region defined by fill rule and clip type.",
        "assumptions": ["inputs limited to the stated vertex/path bounds and board coordinates, plus the magnitude alphabet (9 affine maps up to 2^61; triangles in the quick tier, quads in the thorough tier)",
                        "points closer than 2*r_leaf to the tolerance band are not decided (reported as rim)"],
    },
    "C03": {
        "deadline": {"quick": 900, "thorough": 2700},
        "runs": {
            "quick": [{"harness": "boolgp", "args": ["--scope", "S1", "--nmax", 4]},
                      {"harness": "boolgp", "args": ["--scope", "S1", "--nmax", 4, "--k", 8, "--board", "aligned"]},
                      {"harness": "boolgp", "args": ["--scope", "S0", "--nmin", 4, "--nmax", 6, "--k", 8, "--board", "aligned", "--cliponly", 1]},
                      {"harness": "rectil", "args": ["--scope", "pairs", "--g", 5]},
                      {"harness": "rectil", "args": ["--scope", "triples", "--g", 4, "--sp_lo", 1, "--sp_hi", 1]},
                      {"harness": "rectil", "args": ["--scope", "walks", "--g", 4, "--nmax", 5, "--sp_lo", 1, "--sp_hi", 1]},
                      {"harness": "rectil", "args": ["--scope", "cells", "--w", 6, "--h", 5]},
                      {"harness": "rectil", "args": ["--scope", "cells", "--w", 6, "--h", 5, "--frames", 1]}],
            "thorough": [{"harness": "boolgp", "args": ["--scope", "S1", "--nmax", 5]},
                         {"harness": "boolgp", "args": ["--scope", "S1", "--nmax", 4, "--k", 8, "--board", "aligned"]},
                         {"harness": "boolgp", "args": ["--scope", "S0", "--nmin", 4, "--nmax", 6, "--k", 8, "--board", "aligned", "--cliponly", 1]},
                         {"harness": "boolgp", "args": ["--scope", "S2", "--nmax", 4]},
                         {"harness": "boolgp", "args": ["--scope", "S4"]},
                         {"harness": "rectil", "args": ["--scope", "pairs", "--g", 6]},
                         {"harness": "rectil", "args": ["--scope", "triples", "--g", 4]},
                         {"harness": "rectil", "args": ["--scope", "walks", "--g", 4, "--nmax", 6]},
                         {"harness": "rectil", "args": ["--scope", "cells", "--w", 6, "--h", 6]},
                         {"harness": "rectil", "args": ["--scope", "cells", "--w", 6, "--h", 6, "--frames", 1]}],
        },
        "rule": "solutions of every case of the C01 scopes (general position); a case is non-trivial when the solution is non-empty and differs from the inputs",
        "level_text": "Every closed solution path produced in the enumerated scopes is checked against every well-formedness clause with exact integer predicates.",
        "assumptions": ["same scopes as C01/C02/C10"],
    },
}
