# C14: independent objects can be used from different threads (E-SCHED + ThreadSanitizer pass)
_INSTR = ["-O1", "-fno-pie", "-finstrument-functions", "-finstrument-functions-exclude-file-list=/usr/include,/usr/lib"] + WARN
_PLAIN = ["-O1", "-fno-pie"] + WARN
_TSAN = ["-O1", "-g", "-fsanitize=thread", "-DSCHED_TSAN"] + WARN
HARNESSES = {
    "sched": {"src": "sched.cpp", "cxxflags": _PLAIN, "libflags": _INSTR, "extra_srcs": [{"src": "checks/sched_bodies.cpp", "cxxflags": _INSTR}], "ldflags": ["-no-pie"], "statics": True,
              "kind": "preemption-bounded schedule explorer over real threads; scheduling points = entries of all functions compiled from Clipper2 sources"},
    "sched_tsan": {"src": "sched.cpp", "cxxflags": _TSAN, "libflags": _TSAN, "extra_srcs": [{"src": "checks/sched_bodies.cpp", "cxxflags": _TSAN}], "ldflags": ["-fsanitize=thread"],
                   "env": {"TSAN_OPTIONS": "halt_on_error=1:exitcode=66:report_signal_unsafe=0:second_deadlock_stack=0"},
                   "kind": "free-running ThreadSanitizer pass over the same thread bodies (sees unsynchronised accesses between scheduling points)"},
}
PROPS = {
    "C14": {
        "runs": {
            "quick": [{"harness": "sched", "args": ["--p", 1, "--triples", 1]},
                      {"harness": "sched_tsan", "args": ["--reps", 30]}],
            "thorough": [{"harness": "sched", "args": ["--p", 2, "--triples", 0, "--stride2", 1]},
                         {"harness": "sched", "args": ["--p", 1, "--triples", 1]},
                         {"harness": "sched_tsan", "args": ["--reps", 200]}],
        },
        "deadline": {"quick": 600, "thorough": 1500},
        "rule": "14 thread bodies (two Clipper64 sharing one read-only ReuseableDataContainer64, ClipperD, ClipperOffset with constant and callback deltas, RectClip+RectClipLines, MinkowskiSum, path utilities, PolyTree64 with an island inscribed in its hole, the PathsD convenience functions on valid and on invalid arguments, ClipperD into PolyTreeD at two precisions, ClipperOffset on one-point paths, MinkowskiDiff on Path64 and PathD with a different pattern per variant), all 105 unordered pairs (a body paired with itself uses different data) and 6 triples containing the two sharing clippers; "
                "every schedule with at most p preemptions (scheduling point at every entry of a function compiled from Clipper2 sources), every schedule run to completion; non-trivial = at least one preemption took place",
        "level_text": "Stateless schedule exploration on the real library with real threads under a serialising scheduler (iterative context bounding); per schedule each thread's result must equal its sequential result and the hash of all writable static storage of the library objects plus the shared container's heap blocks must stay at its warmed-up value at every scheduling point; a separate free-running ThreadSanitizer pass covers unsynchronised accesses between scheduling points.",
        "assumptions": ["2-3 threads, at most 2 preemptions (quick: 1)", "sequentially consistent interleavings at function-entry granularity; finer-grained races are left to the ThreadSanitizer pass", "thread bodies use fixed inputs"],
    },
}
