# C08: RectClip (closed paths) / C09: RectClipLines (open polylines) -- one harness, checks/rectclip.cpp
HARNESSES = {
    "rectclip": {"src": "rectclip.cpp", "cxxflags": O2},
}


PROPS = {
    "C08": {
        "deadline": {"quick": 900, "thorough": 2700},
        "runs": {
            # one process per shard runs the whole list of scopes of the tier (plan() in checks/rectclip.cpp), cheap scopes first,
            # so that the driver's deadline bounds the tier as a whole
            "quick": [{"harness": "rectclip", "args": ["--plan", "c08quick"]}],
            "thorough": [{"harness": "rectclip", "args": ["--plan", "c08thorough"]}],
        },
        "rule": "lattice board {0,20,40,60,80}^2; rectangles with sides ON lattice lines (20,20,60,60) (0,20,80,60) (20,0,40,80) and between them (10,10,70,50) (30,30,50,50) "
                "(-10,-10,90,90: everything inside) (100,100,120,120: everything outside), thorough adds (20,20,40,40) (40,20,80,60) (0,0,80,80) (13,17,67,43) (35,5,45,75) (10,30,70,50); "
                "(1) every ordered tuple of 3..4 (quick) / 3..5 (thorough) distinct lattice points as polygon, one representative per rotation class, both orientations, simple and self-intersecting; "
                "thorough also every 6-tuple over the 4x4 sub-lattice {0..60}^2 x 4 rectangles; "
                "(2) the same with EVERY start vertex for n = 3 (quick) / 3..4 (thorough); "
                "(3) every closed walk WITH revisits of 3..5 (quick) / 3..7 and 3..6 (thorough) points over the 3x3 lattices {20,40,60}^2 and {0,40,80}^2 around / on / across central rectangles; "
                "(3b) every rectilinear polygon (edges alternately horizontal / vertical, every start vertex, simple and self-intersecting: notches, U- and C-shapes hugging the rectangle) of 4..8 points over the 4x4 sub-lattice x 6 rectangles "
                "(20,20,40,40) (20,10,40,30) (10,20,30,40) (10,10,50,30) (0,20,60,40) (20,0,40,60) (quick); thorough: 4..10 points there and 4..8 points over the 5x5 lattice x 13 rectangles; "
                "(4) wrap-around walks: 4 rings of 8 or 16 lattice points around a central rectangle, 1..3 laps, both directions, every start vertex, without and with one vertex inside inserted at every position; "
                "(5) concatenation: every polygon of (1) in one call with each of 4 fixed partner paths in both orders, and every ordered pair of polygons of 3..4 vertices over the two 3x3 lattices "
                "(rotation classes in quick, every start vertex in thorough); "
                "(6) magnitude maps x2^20, x2^20 +-2^40 (three sign patterns), x1 +-2^40, x2^33 applied to board and rectangle (|coordinates| <= 2^40) for n = 3 (quick) / 3..4 (thorough) and, thorough, for the wrap-around walks; "
                "one case = (rectangle, one input path) or (rectangle, two input paths in one call), executed through RectClip(Rect64,Paths64), RectClip(Rect64,Path64) and a RectClip64 object (Execute twice); "
                "non-trivial = the path is genuinely cut: the result is non-empty and differs from the input",
        "level_text": "Every case is executed on the real library. Per input path: the region engine (quadtree, exact winding numbers at dyadic points, 1-Lipschitz margin "
                      "min(dist to the input path - 2, dist to the rectangle boundary - 1)) decides that the result's winding number equals the input polygon's at every constrained point strictly inside "
                      "the rectangle (simple polygons; same parity for self-intersecting polygons with no edge along a side) and is 0 at every constrained point outside; exact clauses: "
                      "entirely inside (all vertices in the closed rectangle) => returned unchanged, entirely outside (no point of the polygon region strictly inside) => nothing returned, "
                      "no result path of opposite orientation for simple inputs, every result vertex within the rectangle grown by 1, every new vertex within 1 unit of the rectangle boundary; "
                      "all API routes return identical paths, a second Execute on the same object repeats the first, and a call with two paths returns exactly the concatenation of the single-path results.",
        "assumptions": ["polygons of at most 5 vertices over the 5x5 lattice (6 over the 4x4 sub-lattice; rectilinear ones 8 resp. 10), walks with revisits of at most 7 points over 3x3 lattices, ring walks of at most 3 laps (49 vertices)",
                        "region clause decided at leaf resolution 0.5 unit (r_leaf 0.71) on the unit boards; at the magnitude maps the leaf size is extent/512, so there the region clause is decided at the cell centres "
                        "outside the tolerance bands only (an alarm is always one concrete point with exactly evaluated winding numbers)",
                        "'entirely inside' is read as: every vertex in the closed rectangle (this is the library's own shortcut); a zero-area polygon lying in the rectangle boundary counts as inside, not outside",
                        "'an edge lies along a side' is read as: on the side's supporting line and sharing a positive length with the side; for such self-intersecting inputs only the outside clause and the exact clauses are judged (counted as skipped_parity_clause_selfx_edge_along_side)",
                        "an entirely-outside input all four rectangle corners of which lie on its edges and for which the rectangle itself is returned is reported ONCE, under tag "
                        "outside_all_corners_on_path_returns_rect; its winding / orientation symptoms are not reported separately (known_findings/C08_C09.md, F-C08-A)",
                        "zero-area result paths of simple inputs are counted (result_zero_area_paths), not alarmed: the statement only forbids changed orientation",
                        "the PathsD overloads are not exercised here (C16); empty / inverted rectangles and paths of fewer than 3 points belong to C10",
                        "a library call that burns more than 60 s of CPU time is reported as violation crash_signal_26 for the running case"],
    },
    "C09": {
        "runs": {
            # one process per shard runs the whole list of scopes of the tier (plan() in checks/rectclip.cpp), cheap scopes first,
            # so that the driver's deadline bounds the tier as a whole
            "quick": [{"harness": "rectclip", "args": ["--plan", "c09quick"]}],
            "thorough": [{"harness": "rectclip", "args": ["--plan", "c09thorough"]}],
        },
        "rule": "lattice board {0,20,40,60,80}^2 and the 13 rectangles of C08 (sides on lattice lines and between them, everything-inside and everything-outside rectangles); "
                "(1) every ordered tuple of 2..4 (quick) / 2..5 (thorough) distinct lattice points as open polyline (grazing corners, ending on the boundary, crossing completely, running along a side, self-crossing); "
                "(2) every open walk WITH revisits of 2..5 (quick) / 2..7 (thorough) points over the 3x3 lattices {20,40,60}^2 and {0,40,80}^2; "
                "(3) concatenation: every polyline of (1) in one call with each of 3 fixed partner polylines in both orders, and every ordered pair of polylines of 2..3 (quick) / 2..4 (thorough) points over the two 3x3 lattices; "
                "(4) the magnitude maps of C08 (|coordinates| <= 2^40) for 2..3 (quick) / 2..4 (thorough) points; "
                "one case = (rectangle, one polyline) or (rectangle, two polylines in one call), executed through RectClipLines(Rect64,Paths64), RectClipLines(Rect64,Path64) and a RectClipLines64 object (Execute twice); "
                "non-trivial = the polyline is genuinely cut: the result is non-empty and differs from the input",
        "level_text": "Every case is executed on the real library and compared with an exact reference cutter (Liang-Barsky against the closed rectangle with rational parameters in 128-bit integers): "
                      "every returned vertex and every point of every returned segment lies within 1.5 units of the input polyline (exact by convexity when both ends are near one input segment, else samples 0.5 apart), "
                      "every returned vertex lies in the rectangle grown by 1, the returned vertices (pieces concatenated) admit non-decreasing arc-length positions along the input polyline (existential matching), "
                      "and the total returned length lies between the exact inside length without segments along a side - 2 units per crossing and the exact inside length with them + 2 units per crossing; "
                      "all API routes return identical paths, re-execution repeats, and a call with two polylines returns the concatenation of the single results.",
        "assumptions": ["polylines of at most 5 vertices over the 5x5 lattice, walks with revisits of at most 7 points over 3x3 lattices",
                        "a crossing is an end of a segment's parameter interval inside the closed rectangle that is not an end of the segment (a graze counts twice: the tolerance is only ever widened)",
                        "a segment on the supporting line of a rectangle side may be kept, dropped or kept in part",
                        "the order clause is evaluated at the returned vertices (a reversed piece shorter than 3 units is inside the tolerance)",
                        "the PathsD overloads are not exercised here (C16); empty rectangles and polylines of fewer than 2 points belong to C10"],
    },
}
