# C11: execution always succeeds on valid input; invalid arguments are reported.
# This fragment registers the *reporting part* (checks/errors.cpp, built twice: with C++
# exceptions and with -fno-exceptions).  Runs of the success part are appended to
# PROPS["C11"]["runs"][tier] by whoever owns those harnesses.
HARNESSES = {
    "errors": {"src": "errors.cpp", "cxxflags": O2, "main_config": "std"},
    # main_config "nx": harness TU and the library copy are both compiled with -fno-exceptions
    # (namespace Clipper2Lib_nx); the harness source guards try/catch with __cpp_exceptions.
    "errors_nx": {"src": "errors.cpp", "cxxflags": O2, "main_config": "nx"},
}

_ERR_RUNS = [{"harness": "errors", "args": []}, {"harness": "errors_nx", "args": []}]

PROPS = {
    "C11": {
        "runs": {
            # the scope is finite and small enough to be complete in the quick tier already
            "quick": list(_ERR_RUNS),
            "thorough": list(_ERR_RUNS),
        },
        "rule": "reporting part, each case in the exception build and in the -fno-exceptions build: "
                "(A) every C++ entry point taking a decimal precision (ClipperD ctor+AddSubject/AddOpenSubject/AddClip+Execute paths/tree, BooleanOp(PathsD) paths/tree, "
                "Intersect/Union/Difference/Xor(PathsD), Union(PathsD), InflatePaths(PathsD) delta 1 and 0, RectClip/RectClipLines(RectD, PathsD|PathD), TrimCollinear(PathD) closed/open, "
                "MinkowskiSum/Diff(PathD) closed/open) x precision -12..12 x coordinate magnitude {1, 1e10, 1e15, lo, hi, 1e19 and every double between lo and hi} "
                "(lo/hi = the adjacent doubles whose scaled value is just below/above 2^61 = MAX_COORD+1 for the scale that API uses) "
                "x the coordinate carrying it (+x,-x,+y,-y of a triangle, or an edge of the rectangle) x the argument carrying it x 5 clip types x 4 fill rules where the API takes them; "
                "(B) ScalePath/ScalePaths for the 4 int64/double type pairs x (scale_x, scale_y) in {0, 1, 1e-300}^2 and the single-scale overload x the same magnitudes and directions; "
                "(C) MakePath(vector<int>|vector<int64_t>) and MakePathD(vector<double>|vector<int>) of every length 0..7; "
                "(D) C export BooleanOp64 / BooleanOp_PolyTree64 on cliptype 0..255 x fillrule 0..255 and BooleanOpD / BooleanOp_PolyTreeD on the same grid x precision -12..12; "
                "(E) the six exported functions taking a precision x precision -12..12 x magnitudes x directions x argument. "
                "A case is non-trivial when its argument combination is invalid in at least one respect "
                "(precision outside +-8, scaled coordinate beyond MAX_COORD, zero scale, odd vector length, clip type > 4, fill rule > 3), i.e. something must be reported; "
                "valid_cases counts the complement (must not throw / set an error / be rejected), boundary_cases the inputs whose scaled value is exactly 2^61 (not judged)",
        "level_text": "Every argument combination of the scope is executed on the real library, once compiled with exceptions and once with -fno-exceptions, "
                      "and the observed exception / error code / return value / result emptiness is compared with what the statement requires for that combination.",
        "assumptions": [
            "inputs are one small triangle plus a 5x5 square (or a small rectangle); only one coordinate carries the magnitude under test",
            "'reported' under -fno-exceptions = error code set where the API exposes one, otherwise an empty result; an error code set together with a non-empty result "
            "(ClipperD with a clamped precision, ScalePath with scale 0 replaced by 1) is counted as obs_* and not raised",
            "a scaled coordinate of exactly 2^61 (one more than MAX_COORD, equal to (double)MAX_COORD) is not judged either way",
            "at the C boundary an out-of-range coordinate counts as reported if an exception, a negative code, nullptr or an empty solution comes back; "
            "the code returned when several arguments are invalid may name any of them",
            "degenerate arguments that make an API return before it looks at the precision (empty rectangle, empty path list) are not enumerated, except InflatePaths delta = 0",
            "cases whose scaled magnitude is 2^62 or more (an unchecked double->int64 conversion would overflow) are executed in a forked child with a 256 MB address-space limit "
            "and a 30 s alarm (isolated_cases); a child that dies or runs out of memory is a violation tagged *_crash, not a harness error",
            "InflatePaths(PathsD) with delta = 0 never scales its input, so no coordinate magnitude is out of range there; only its precision is judged",
        ],
    },
}

# success part (Execute returns true on every input of the boolean scopes): runs of the boolean harnesses in C11 mode
for _tier, _extra in (("quick", [{"harness": "boolgp", "args": ["--scope", "S1", "--nmax", 4]},
                                 {"harness": "rectil", "args": ["--scope", "pairs", "--g", 5]},
                                 {"harness": "rectil", "args": ["--scope", "walks", "--g", 4, "--nmax", 5, "--sp_lo", 1, "--sp_hi", 1]}]),
                      ("thorough", [{"harness": "boolgp", "args": ["--scope", "S1", "--nmax", 5]},
                                    {"harness": "rectil", "args": ["--scope", "triples", "--g", 4]},
                                    {"harness": "rectil", "args": ["--scope", "walks", "--g", 4, "--nmax", 6]}])):
    PROPS["C11"]["runs"][_tier] = list(PROPS["C11"]["runs"][_tier]) + _extra
PROPS["C11"]["rule"] += "; success part: every case of the general-position and rectilinear boolean scopes (C01/C02) must return true from Execute"
