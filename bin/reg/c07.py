# C07: open-path offsetting
HARNESSES = {
    "offsetopen": {"src": "offsetopen.cpp", "cxxflags": O2},
}
PROPS = {
    "C07": {
        "runs": {
            "quick": [{"harness": "offsetopen", "args": ["--ko", 6, "--omax", 3, "--mix", 1]},
                      {"harness": "offsetopen", "args": ["--ko", 4, "--omax", 4, "--mix", 2]}],
            "thorough": [{"harness": "offsetopen", "args": ["--ko", 6, "--omax", 4, "--mix", 1]},
                         {"harness": "offsetopen", "args": ["--ko", 5, "--omax", 3, "--mix", 2]},
                         {"harness": "offsetopen", "args": ["--ko", 4, "--omax", 4, "--mix", 2]},
                         {"harness": "offsetopen", "args": ["--ko", 4, "--omax", 2, "--mix", 3]}],
        },
        "rule": "every ordered tuple of 1..n distinct open-board points passing the turning-angle filter as open polyline (self-crossing included), alone x {Joined, Butt, Square, Round} x delta {3.5, 10} x {Round x arc {0, 0.5}, Miter x limit {1.5, 3}, Square, Bevel, Round+ReverseSolution}; "
                "and every ordered mixture of 2 (3) such polylines (pairs: up to 4 points each, so that longer-before-shorter orders occur) placed far apart, in one group and in one group per path, x 4 joins x 4 end types; each case also run with -delta; non-trivial = solution non-empty",
        "level_text": "Every case is executed on the real ClipperOffset; the result's winding number is compared at every point of the plane outside the tolerance band with the stroke described by inner and outer unions of rectangles and discs (segments, joins, caps; single points; 2-point joined paths capped as documented); result(+delta) must equal result(-delta) exactly.",
        "assumptions": ["polylines of at most 4 vertices, mixtures of at most 3", "outer bound factor per join: round 1, square/bevel sqrt2, miter max(limit, sqrt2)", "the tolerance band plus a rim of 2*r_leaf is not decided"],
    },
}
