# C16: the floating-point API is the integer API on scaled coordinates
HARNESSES = {
    "dapi": {"src": "dapi.cpp", "cxxflags": O2},
}


PROPS = {
    "C16": {
        "runs": {
            "quick": [{"harness": "dapi", "args": ["--kmax", 4]}],
            "thorough": [{"harness": "dapi", "args": ["--kmax", 7]}],
        },
        "rule": "PathsD inputs = integer board shapes pushed through 15 value maps (v/1, v/4, v/200, v/1000, the same centred on 0 so that half the coordinates are negative, "
                "(v+0.5)/scale rounding ties: all positive, all negative, mixed sign, x only; v*50; two large-magnitude translations) -- "
                "boolean family (ClipperD paths and PolyTreeD with PreserveCollinear/ReverseSolution (1,0) and (0,1), BooleanOp paths and PolyTreeD, Intersect/Union/Difference/Xor, Union(subjects)): "
                "every triangle/quad over k points of board PS x (every triangle/quad over k points of board PC, or no clip), open subjects of 2..3 points of board PO x clip triangles with and without a closed subject, "
                "3x3 lattice polygons x 9 lattice rectangles, lattice open paths, nested squares (trees of depth 4); precisions {-2,0,2,5,8} x 4 clip types x 4 fill rules; "
                "scaling-only entry points at precisions -8..8: TrimCollinear (ordered tuples of 1..5 points, open and closed), RectClip/RectClipLines (PathsD and PathD overloads; rect = any two PC points / lattice corners), "
                "MinkowskiSum/Diff (open and closed), InflatePaths (one or two shapes, 4 join types x 5 end types x delta {0,0.3,-2,5} x arc tolerance {0,0.25,1} where a round join/end is involved, miter limit 2 and 5); "
                "combinations whose scaled coordinates exceed 2^52 are skipped and counted; quick k=4, thorough k=4,5,6,7 (the lattice, trim, rect and inflate scopes grow with k as well: see bounds_completed and the cpu_ms.* counters). "
                "A case (one entry point, one input, one parameter tuple) is non-trivial when the integer result is non-empty and is not identical to the scaled input paths "
                "(closed results compared up to rotation/path order with subject and with clip; open results with the open subject)",
        "level_text": "Every input of the scope is run through every PathsD entry point of the real library; the harness scales the same input itself (documented factor, IEEE product, "
                      "round half away from zero), runs the Paths64 operation with the same options (delta and arc tolerance multiplied by the scale) and requires identical structure, "
                      "round(result*scale) == integer result and result within 1 ulp of integer*(1/scale) for every coordinate; PolyTreeD is compared node for node with PolyTree64.",
        "assumptions": ["inputs limited to the stated boards, value maps, vertex and path counts",
                        "the scale of the 10^p entry points is taken from the same expression the library uses (std::pow(10, p)), the ClipperD scale is recomputed with integer arithmetic",
                        "precision outside -8..8 and scaled coordinates beyond 2^52 are out of this property's domain (C11)",
                        "InflatePaths(PathsD) with delta == 0 is mirrored as 'returns its argument unchanged' (both overloads document this), not as round-trip through the integer grid",
                        "the C export layer (InflatePathsD etc.) is checked by C17, not here"],
    },
}
