# C06: polygon offsetting
HARNESSES = {
    "offsetpoly": {"src": "offsetpoly.cpp", "cxxflags": O2},
}
PROPS = {
    "C06": {
        "runs": {
            "quick": [{"harness": "offsetpoly", "args": ["--k", 6, "--nmax", 4]},
                      {"harness": "offsetpoly", "args": ["--family", "curves"]},
                      {"harness": "offsetpoly", "args": ["--family", "ortho", "--nmax", 10]},
                      {"harness": "offsetpoly", "args": ["--family", "ortho", "--nmax", 8, "--ra", 4, "--rb", 3]}],
            "thorough": [{"harness": "offsetpoly", "args": ["--k", 6, "--nmax", 5]},
                         {"harness": "offsetpoly", "args": ["--k", 7, "--nmax", 4, "--holes", 0]},
                         {"harness": "offsetpoly", "args": ["--family", "curves"]},
                         {"harness": "offsetpoly", "args": ["--family", "ortho", "--nmax", 12]},
                         {"harness": "offsetpoly", "args": ["--family", "ortho", "--nmax", 12, "--lat", 1]},
                         {"harness": "offsetpoly", "args": ["--family", "ortho", "--nmax", 10, "--ra", 4, "--rb", 3]},
                         {"harness": "offsetpoly", "args": ["--family", "ortho", "--nmax", 8, "--ra", 12, "--rb", 5, "--lat", 1]}],
        },
        "rule": "every rotation-normalised ordered tuple of 3..n distinct board points that forms a simple polygon passing the turning-angle filter, both orientations, alone and with each of 3 hole shapes that fits strictly inside (hole listed before and after the outer path); plus finely sampled discs and ellipses (240..360 vertices, radius 1600..3200, turning angles 0.5..1.5 degrees), solid and as a hole in a square, offset by 0.3/0.9/1.1/1.5 x their radius; plus every rectilinear simple polygon of 4..10 (thorough: 12) vertices over a 4x4 lattice with line distances 7/9/13/24 (thorough: a second lattice), both orientations, and every pair of strictly disjoint rectangles over the 5x5 extension of that lattice given in one call, x delta in {+-2.5, +-6, +-10, +-14} (slots close, bars vanish, neighbours merge) x {Round, Miter 2, Square, Bevel}; "
                "x delta in {+-0.4, +-1, +-3.5, +-10, +-25, -60} x {Round x arc tolerance {0, 0.25, 1}, Miter x limit {1, 2, 4}, Square, Bevel} x ReverseSolution; non-trivial = solution non-empty and different from the input",
        "level_text": "Every case is executed on the real ClipperOffset and the result's winding number is compared with the signed-distance model at every point of the plane outside the stated tolerance band (quadtree region engine, exact winding numbers; inner/outer bounds for miter, square and bevel joins).",
        "assumptions": ["general polygons of at most 5 vertices plus one hole; rectilinear polygons of at most 12 vertices; two disjoint rectangles", "the band |sd(p) - delta| <= tol plus a rim of 2*r_leaf is not decided", "miter outer factor max(miter limit, sqrt 2) (the code falls back to square joins)"],
    },
}
