# C05: open subject paths
HARNESSES = {
    "openpaths": {"src": "openpaths.cpp", "cxxflags": O2},
}
PROPS = {
    "C05": {
        "runs": {
            "quick": [{"harness": "openpaths", "args": ["--k", 6, "--nmax", 3, "--ko", 6, "--omax", 3, "--nopen", 1]},
                      {"harness": "openpaths", "args": ["--k", 4, "--nmax", 3, "--ko", 5, "--omax", 2, "--nopen", 2]},
                      {"harness": "openpaths", "args": ["--k", 5, "--nmax", 3, "--ko", 8, "--omax", 3, "--nopen", 1, "--oboard", "aligned"]},
                      {"harness": "openpaths", "args": ["--k", 5, "--nmax", 3, "--ko", 6, "--omax", 3, "--nopen", 1, "--loops", 1]},
                      {"harness": "openpaths", "args": ["--k", 5, "--nmax", 3, "--ko", 8, "--omax", 2, "--nopen", 1, "--oboard", "flat"]}],
            "thorough": [{"harness": "openpaths", "args": ["--k", 6, "--nmax", 4, "--ko", 6, "--omax", 3, "--nopen", 1]},
                         {"harness": "openpaths", "args": ["--k", 5, "--nmax", 3, "--ko", 6, "--omax", 4, "--nopen", 1]},
                         {"harness": "openpaths", "args": ["--k", 5, "--nmax", 3, "--ko", 6, "--omax", 2, "--nopen", 2]},
                         {"harness": "openpaths", "args": ["--k", 6, "--nmax", 4, "--ko", 8, "--omax", 3, "--nopen", 1, "--oboard", "aligned"]},
                         {"harness": "openpaths", "args": ["--k", 5, "--nmax", 3, "--ko", 8, "--omax", 2, "--nopen", 2, "--oboard", "aligned"]},
                         {"harness": "openpaths", "args": ["--k", 6, "--nmax", 3, "--ko", 7, "--omax", 4, "--nopen", 1, "--loops", 1]},
                         {"harness": "openpaths", "args": ["--k", 6, "--nmax", 4, "--ko", 8, "--omax", 3, "--nopen", 1, "--oboard", "flat"]}],
        },
        "rule": "(four open boards: generic points; points sharing x or y so that open paths start, end and run horizontally/vertically; loops returning to their first point; points far left and right of the closed paths at nearly equal heights, i.e. segments flatter than 1:100 that are not horizontal) every ordered tuple of 2..omax distinct points of the open board as open polyline (self-crossing included; one polyline, or every ordered pair of two polylines) x every subject polygon x every clip polygon of the closed boards, "
                "all sets passing the exact general-position filter (closed and open paths together); x 4 clip types x 4 fill rules x paths/polytree execution; non-trivial = the reference cutter yields both kept and discarded pieces",
        "level_text": "Every input is executed on the real library and the open solution is compared with an exact reference cutter (rational cut parameters, exact winding at piece midpoints): pieces lie on the open subjects, cover exactly the expected parts, total length within 3 units per cut, closed solution region unchanged by the open subjects.",
        "assumptions": ["polylines of at most 4 vertices, at most two per input; closed paths of at most 4 vertices", "point-set clauses are evaluated at samples 0.5 units apart along segments (an alarm is always a concrete point)"],
    },
}
