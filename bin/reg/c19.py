# C19: Minkowski sum and difference are the swept pattern
HARNESSES = {
    "minkowski": {"src": "minkowski.cpp", "cxxflags": O2},
}
PROPS = {
    "C19": {
        "runs": {
            # run 0: pattern board as is (|coordinates| <= 15): base scope + empty operands + PathD sub-scope
            # run 1: pattern board x4 (pattern as large as the path: heavy overlap between parallelograms), base scope only
            # last run: magnitude alphabet (quick: paths of 1..2 vertices at extent/2048; thorough: 1..3 at extent/8192)
            "quick": [{"harness": "minkowski", "args": ["--pmax", 3, "--qmax", 3, "--dpmax", 3, "--dqmax", 2]},
                      {"harness": "minkowski", "args": ["--pk", 4, "--part", "base", "--pmax", 3, "--qmax", 3]},
                      {"harness": "minkowski", "args": ["--part", "mag", "--mpmax", 3, "--mqmax", 2, "--div", 2048]},
                      {"harness": "minkowski", "args": ["--part", "long"]},
                      {"harness": "minkowski", "args": ["--part", "base", "--qboard", "collinear", "--pmax", 3, "--qmax", 4]}],
            "thorough": [{"harness": "minkowski", "args": ["--part", "base", "--pmax", 4, "--qmax", 4]},
                         {"harness": "minkowski", "args": ["--part", "empty", "--pmax", 4, "--qmax", 4]},
                         {"harness": "minkowski", "args": ["--part", "D", "--dpmax", 3, "--dqmax", 3]},
                         {"harness": "minkowski", "args": ["--pk", 4, "--part", "base", "--pmax", 4, "--qmax", 4]},
                         {"harness": "minkowski", "args": ["--part", "mag", "--mpmax", 3, "--mqmax", 3, "--div", 8192]},
                         {"harness": "minkowski", "args": ["--part", "long"]},
                         {"harness": "minkowski", "args": ["--part", "base", "--qboard", "collinear", "--pmax", 4, "--qmax", 4]}],
        },
        "rule": "pattern = every ordered tuple of 2..3 (thorough 2..4) distinct points of the pattern board {(-10,-6),(9,-8),(12,7),(-3,11),(2,-1),(-12,4)} (also multiplied by 4), "
                "path = every ordered tuple of 1..3 (thorough 1..4) distinct points of the first 6 points of board PS, every rotation, direction, non-convex and self-intersecting order included; "
                "x isClosed {false,true} x {MinkowskiSum, MinkowskiDiff} (Path64); plus: empty pattern x every path tuple of 0..3 points and every pattern tuple of 1..3 points x empty path (Path64 and PathD overloads, result must be empty); "
                "the PathD overloads on pattern/4, path/4 with decimalPlaces 2 for patterns of 2..3 x paths of 1..2 (thorough 1..3) vertices, judged on the library's integer grid (result x 100 must be integral); "
                "magnitude alphabet = path board x 2^20, at the origin and translated to the corner (2^40, -2^40), pattern board x 2^10 / 2^15 / 2^20, patterns of 2..3 x paths of 1..2 (thorough 1..3) vertices. "
                "General-position filter (inputs failing it are skipped and counted as skipped_not_general_position, the sub-counters not_gp_* say why): the pattern as a closed polygon and the path (with its closing edge "
                "only when isClosed) must each pass vf::general_position with R = 3 (every vertex and every proper self-crossing at least 3 units from every edge it does not lie on, exact on base board coordinates), "
                "and no path edge may be parallel to a pattern edge (no zero-area parallelogram; the zero-length closing edge of a 1-point closed path is exempt: those cases are judged). "
                "No condition is put on the arrangement of the parallelograms themselves (they share edges and overlap by construction). "
                "Also: pattern x2^28 / x2^31 with path x2^32 (edge products beyond 2^63, coordinates below 2^40); and a many-quad family (patterns of 11..64 x paths of 22..95 vertices, 1024..2112 quads) judged by exact point probes at every parallelogram centroid and on a 97x97 lattice. "
                "A case is non-trivial when the result is non-empty",
        "level_text": "Every case is executed on the real MinkowskiSum/MinkowskiDiff; the oracle builds from the statement the set of parallelograms {a+b} resp. {a-b} (path edge x pattern edge, the pattern always closed as in the code, "
                      "the path's closing edge only when isClosed) and the quadtree region engine requires the result's exact net winding number to be 1 at every point strictly inside at least one parallelogram and 0 at every point "
                      "inside none, for every point further than 2 units from every parallelogram edge (exact orientation tests, 128-bit); in addition the 16 neighbours at 1/S and 1 unit of every result vertex and edge midpoint "
                      "are judged the same way at full resolution whatever the magnitude. Verdicts are memoised per (parallelogram set, canonical result). MinkowskiDiff(pattern, path) must equal MinkowskiSum(-pattern, path) "
                      "exactly (it builds the same point lists); a path without any edge (1 point, open) must give an empty result; empty operands must give an empty result.",
        "assumptions": ["inputs limited to the stated boards, vertex counts and magnitude maps; pattern and path are single paths of distinct points",
                        "points closer than 2*r_leaf to the tolerance band are decided only at cell centres and at the probe points (r_leaf = 0.71 units quick / 0.35 units thorough on the base boards, "
                        "2.8 units of 1/100 for the PathD sub-scope, extent/2048 (thorough extent/8192) under the magnitude alphabet: see maxima.r_leaf_milli_units)",
                        "tolerance for the PathD overloads taken as 2 units of the library's integer grid (1/100), the strictest reading; that the PathD result is the Path64 result of the scaled inputs is C16's subject",
                        "a 1-point closed path sweeps only zero-area parallelograms (translated pattern edges): nothing outside the tolerance band is covered, so the result must have winding 0 outside the band (the library returns an empty result)",
                        "general position is read as a condition on the two operands (see rule); exploring the skipped inputs with the same oracle (--gp 0) showed no deviation either"],
    },
}
