# C15: USINGZ builds: same geometry, every Z accounted for
HARNESSES = {
    "zbuild": {"src": "zbuild.cpp", "cxxflags": O2, "sides": ["z"], "extra_srcs": [{"src": "sides/side_z.cpp", "config": "z"}],
               "kind": "plain and USINGZ library copies linked into one binary and compared case by case"},
}
PROPS = {
    "C15": {
        "runs": {
            "quick": [{"harness": "zbuild", "args": ["--what", "bool", "--scope", "S1", "--nmax", 4]},
                      {"harness": "zbuild", "args": ["--what", "bool", "--scope", "S1", "--board", "aligned", "--k", 8, "--nmax", 4]},
                      {"harness": "zbuild", "args": ["--what", "bool", "--scope", "S0", "--board", "twins", "--both", 1, "--k", 16, "--nmin", 4, "--nmax", 5]},
                      {"harness": "zbuild", "args": ["--what", "bool", "--scope", "S1", "--board", "twins", "--k", 8, "--nmin", 3, "--nmax", 4]},
                      {"harness": "zbuild", "args": ["--what", "open"]},
                      {"harness": "zbuild", "args": ["--what", "offset"]},
                      {"harness": "zbuild", "args": ["--what", "rect", "--nmax", 3]}],
            "thorough": [{"harness": "zbuild", "args": ["--what", "bool", "--scope", "S1", "--nmax", 5]},
                         {"harness": "zbuild", "args": ["--what", "bool", "--scope", "S1", "--board", "aligned", "--k", 8, "--nmax", 4]},
                         {"harness": "zbuild", "args": ["--what", "bool", "--scope", "S0", "--board", "twins", "--both", 1, "--k", 16, "--nmin", 4, "--nmax", 5]},
                         {"harness": "zbuild", "args": ["--what", "bool", "--scope", "S1", "--board", "twins", "--k", 8, "--nmin", 3, "--nmax", 4]},
                         {"harness": "zbuild", "args": ["--what", "bool", "--scope", "S2", "--nmax", 4]},
                         {"harness": "zbuild", "args": ["--what", "open", "--k", 6, "--ko", 6]},
                         {"harness": "zbuild", "args": ["--what", "offset", "--nmax", 5, "--ko", 6]},
                         {"harness": "zbuild", "args": ["--what", "rect", "--nmax", 4]}],
        },
        "rule": "general-position boolean scopes of C01 (paths, polytree, ClipperD) and the open-subject scope x 4 clip types x 4 fill rules x three Z regimes (all zero; unique positive labels; labels + callback assigning fresh negative labels); "
                "simple polygons and open polylines x offset parameters; lattice polygons/polylines x rectangles for RectClip/RectClipLines; non-trivial = result non-empty (and cut, for rectangle clipping)",
        "level_text": "Every case is executed on both library builds linked into one process: x,y must be bit-identical; with a callback every solution vertex must carry the label of an input vertex at exactly that position or a label the callback assigned at exactly that position, without a callback new vertices must carry the default Z.",
        "assumptions": ["scopes bounded as in C01/C05/C06/C08 quick scopes", "DefaultZ left at its default (0)", "the Z clauses are applied to boolean clipping (the statement's general-position clause); offsetting and rectangle clipping are compared for geometry only"],
    },
}
