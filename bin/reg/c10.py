# C10: no input can crash, hang or corrupt memory (inputs clause; the fault clause is in the alloc-fault harness)
ASAN_BIG = [f for f in ASAN] + ["-fno-sanitize=signed-integer-overflow,float-cast-overflow"]
_ENV = {"ASAN_OPTIONS": "detect_leaks=0:allocator_may_return_null=1:hard_rss_limit_mb=6000:max_allocation_size_mb=2048:handle_abort=0:print_summary=1",
        "UBSAN_OPTIONS": "print_stacktrace=0:halt_on_error=1"}
_LD = ["-fsanitize=address,undefined"]
HARNESSES = {
    "degen": {"src": "degen.cpp", "cxxflags": ASAN, "ldflags": _LD, "env": _ENV, "kind": "forked batches under ASan+UBSan, failing case attributed through shared memory"},
    "degen_big": {"src": "degen.cpp", "cxxflags": ASAN_BIG, "ldflags": _LD, "env": _ENV, "kind": "same, without signed-overflow/float-cast checks (magnitudes above 2^29, where the property does not claim them)"},
    "allocfault": {"src": "allocfault.cpp", "cxxflags": ASAN, "ldflags": _LD, "env": _ENV, "kind": "E-FAULT: every single allocation point of every driver operation fails once (replaced operator new), forked batches under ASan"},
    "allocfault_z": {"src": "allocfault.cpp", "cxxflags": ASAN, "ldflags": _LD, "env": _ENV, "main_config": "z", "kind": "same, USINGZ build"},
    "degen_z": {"src": "degen.cpp", "cxxflags": ASAN, "ldflags": _LD, "env": _ENV, "main_config": "z", "kind": "same, USINGZ build"},
}
PROPS = {
    "C10": {
        "runs": {
            "quick": [{"harness": "degen", "args": ["--n", 3, "--nc", 2, "--n2", 2, "--mag", 0]},
                      {"harness": "degen", "args": ["--n", 2, "--nc", 2, "--n2", 2, "--mag", 1]},
                      {"harness": "degen_big", "args": ["--n", 2, "--nc", 2, "--n2", 2, "--mag", 2]},
                      {"harness": "degen_big", "args": ["--n", 2, "--nc", 2, "--n2", 2, "--mag", 3]},
                      {"harness": "degen_z", "args": ["--n", 2, "--nc", 2, "--n2", 2, "--mag", 0]},
                      {"harness": "allocfault", "args": []}, {"harness": "allocfault_z", "args": []}],
            "thorough": [{"harness": "degen", "args": ["--n", 3, "--nc", 3, "--n2", 2, "--mag", 0]},
                         {"harness": "degen", "args": ["--n", 4, "--nc", 2, "--n2", 2, "--mag", 0, "--families", "bool_paths,bool_tree,offset_single,rectclip,utils,minkowski"]},
                         {"harness": "degen", "args": ["--n", 3, "--nc", 2, "--n2", 2, "--mag", 1]},
                         {"harness": "degen_big", "args": ["--n", 3, "--nc", 2, "--n2", 2, "--mag", 2]},
                         {"harness": "degen_big", "args": ["--n", 3, "--nc", 2, "--n2", 2, "--mag", 3]},
                         {"harness": "degen_z", "args": ["--n", 3, "--nc", 2, "--n2", 2, "--mag", 0]},
                         {"harness": "allocfault", "args": []}, {"harness": "allocfault_z", "args": []}],
        },
        "rule": "star polygons {n/k} (5<=n<=41, all coprime k, radius 1000 x M) against three central rectangles through RectClip / RectClipLines (objects executed twice), Union and offsetting; scope D: every path of 0..n points WITH repeats over the 3x3 lattice {-M,0,M}^2 (M = 1, 2^29, 2^40, 2^62 for boolean only) crossed as subject x clip (all 5 clip types x 4 fill rules, paths and polytree), open subject x clip, "
                "offset group(s) x 4 joins x 5 end types x 7 deltas, RectClip/RectClipLines x 7 rectangles (empty and inverted included), Minkowski operands, every path utility, C exports with null/empty arrays; builds with and without USINGZ; "
                "non-trivial = the operation returned a non-empty result",
        "level_text": "Every case of the degenerate scope is executed on the real library built with AddressSanitizer, UBSan and _GLIBCXX_SANITIZE_VECTOR in forked batches; any sanitizer report, fatal signal, stalled case (watchdog) or growing live-heap ledger is attributed to the single case that caused it.",
        "assumptions": ["paths of at most 4 points (3 in the quick tier), at most two paths per operand", "UBSan signed-overflow and float-cast checks are off for magnitudes above 2^29 (not claimed by the property)", "one forked child per batch of 8192 cases; hang watchdog 30 s without progress"],
    },
}


# the same degenerate boolean scope also serves the structural part of C03 ("for every input whatsoever") and the
# success part of C11 (Execute returns true, NoClip yields empty solutions); appended to those properties by the loader order
DEGEN_BOOL_QUICK = {"harness": "degen", "args": ["--n", 3, "--nc", 2, "--n2", 2, "--mag", 0, "--families", "bool_paths,bool_tree,bool_open"]}
DEGEN_BOOL_BIG = {"harness": "degen_big", "args": ["--n", 2, "--nc", 2, "--n2", 2, "--mag", 3, "--families", "bool_paths,bool_tree,bool_open"]}
DEGEN_BOOL_THOROUGH = {"harness": "degen", "args": ["--n", 3, "--nc", 3, "--n2", 2, "--mag", 0, "--families", "bool_paths,bool_tree,bool_open"]}
EXTRA_RUNS = {"C03": {"quick": [DEGEN_BOOL_QUICK, DEGEN_BOOL_BIG], "thorough": [DEGEN_BOOL_THOROUGH, DEGEN_BOOL_BIG]},
              "C11": {"quick": [DEGEN_BOOL_QUICK, DEGEN_BOOL_BIG], "thorough": [DEGEN_BOOL_THOROUGH, DEGEN_BOOL_BIG]}}
