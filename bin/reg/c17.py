# C17: the C export layer (clipper.export.h) marshals faithfully and forwards every parameter.
# One source, two binaries (the export header defines extern "C" functions, so the USINGZ variant
# cannot share a binary with the plain one). Both are built with ASan + UBSan + _GLIBCXX_SANITIZE_VECTOR;
# a sanitizer report aborts (SIGABRT) and is attributed to the running case by the crash handler.
_C17_FLAGS = ["-g1" if f == "-g" else f for f in ASAN]   # -g1: line tables only (halves the compile time of the harness TU)
_C17_ENV = {
    # malloc_context_size / small quarantine: the run is dominated by the ASan allocator (the library allocates ~60 blocks per case);
    # out-of-bounds detection is unaffected, use-after-free detection keeps a 1 MB quarantine
    "ASAN_OPTIONS": "abort_on_error=1:detect_leaks=0:allocator_may_return_null=1:malloc_context_size=2:quarantine_size_mb=1:thread_local_quarantine_size_kb=16",
    "UBSAN_OPTIONS": "abort_on_error=1:print_stacktrace=1",
}
_C17_LD = ["-fsanitize=address,undefined"]

HARNESSES = {
    "exportc": {"src": "exportc.cpp", "cxxflags": _C17_FLAGS, "libflags": ASAN, "main_config": "std", "ldflags": _C17_LD, "env": _C17_ENV},
    "exportc_z": {"src": "exportc.cpp", "cxxflags": _C17_FLAGS, "libflags": ASAN, "main_config": "z", "ldflags": _C17_LD, "env": _C17_ENV},
}

PROPS = {
    "C17": {
        "runs": {
            # the two binaries share the 16 cores (8 shards each) so that both run in one wave
            "quick": [{"harness": "exportc", "shards": 8, "args": []},
                      {"harness": "exportc_z", "shards": 8, "args": []}],
            "thorough": [{"harness": "exportc", "shards": 8, "args": []},
                         {"harness": "exportc_z", "shards": 8, "args": []}],
        },
        "deadline": {"quick": 600, "thorough": 1260},
        "rule": "point alphabet a(-10,-6) b(10,-6) d(10,14) c(0,-6, collinear on a-b) e(-10,14, diagonals cross); D inputs = integer point + (0.125,-0.375); "
                "with USINGZ every point carries a fixed z (negative, INT64_MIN, NaN bit patterns). Scopes, each enumerated completely: "
                "(RT) every set of 0-3 paths of 0-4 points over K extreme-valued points through Create*/Convert* and hand-built arrays; "
                "(BOOL) BooleanOp64/D and BooleanOp_PolyTree64/D on role-tagged (subject/open/clip) sets: all 3616 length/role vectors of 0-3 prefix paths, "
                "every single path of 0-4 points over the first three points, the polytree nesting family (768 inputs), thorough: + every single path over all five points, pairs of paths of 0-3 points over four points and sets of 2-3 paths of a curated 10-path family, "
                "x cliptype 0-4 x fillrule 0-3 x preserve_collinear x reverse_solution x precision {0,2,3} (x z-callback on/off with USINGZ); "
                "(INF) InflatePaths64/D on sets and InflatePath64/D on single paths x jointype 0-3 x endtype 0-4 x delta {-3,0,2.5} x miter {1.5,3} x arc tolerance {0,0.5} x reverse_solution x precision {0,2,3}; "
                "(RECT) RectClip64/D, RectClipLines64/D x 4 rectangles x precision; (MINK) MinkowskiSum64/Diff64 on pattern x path x is_closed; "
                "(RC) out-of-range cliptype/fillrule/precision in all combinations and null input pointers. "
                "A case is one export call compared with the corresponding C++ call; it is non-trivial when the native result is non-empty and differs from every input path set "
                "(round-trip cases are never counted as non-trivial). sens.<function>.<parameter> counts the cases whose native result changes when only that parameter moves to its next value.",
        "level_text": "Every exported function is executed on every input of the stated scopes with every parameter combination; the returned array is parsed by the documented layout "
                      "(element count A, allocation size A*8 via the sanitizer allocator interface), compared bit for bit (coordinates and z) with the native C++ call configured with the same arguments, "
                      "input arrays are exact-size heap blocks under AddressSanitizer, and per-parameter sensitivity counters show that each argument is observable in the scope.",
        "assumptions": ["inputs limited to 0-3 paths of 0-4 points over the five-point alphabet (plus the concentric-squares nesting family for polytrees)",
                        "parameter values limited to the stated grids (delta {-3,0,2.5}, precision {0,2,3}, miter limit {1.5,3}, arc tolerance {0,0.5})",
                        "Inflate cases that contain an empty path with an open end type are skipped and counted while defect D1 (library crash independent of the export layer) is present",
                        "a null result pointer is accepted as the representation of an empty result (the D creators return null for an empty path set)",
                        "over-reads are detected at the granularity AddressSanitizer provides (any access outside the exact-size heap block)"],
    },
}
