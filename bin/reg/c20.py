# C20: path utilities keep their contracts
HARNESSES = {
    # the utilities are header-only templates, but clipper.h pulls in the engine/offset/rectclip
    # declarations; the three library .cpp files are linked as usual
    "utils": {"src": "utils.cpp", "cxxflags": O2},
}


PROPS = {
    "C20": {
        "runs": {
            "quick": [{"harness": "utils", "args": ["--nmax", 5]}],
            "thorough": [{"harness": "utils", "args": ["--nmax", 7, "--nmax43", 6, "--nmaxmag", 6]}],
        },
        "rule": "every path of 0..5 (quick) / 0..7 (thorough) points WITH repeats over the 3x3 lattice {0,1,2}^2 "
                "(all functions), every path of 0..5 / 0..6 points over the 4x3 lattice scaled by 10 (TrimCollinear, SimplifyPath, RamerDouglasPeucker, StripNearEqual), "
                "thorough only: paths of 0..6 points over the 3x3 lattice mapped to {-K,0,K}^2 for K=2^25 and 2^40 (TrimCollinear, StripDuplicates, TranslatePath, GetBounds); "
                "x open/closed x epsilon in {0,0.5,1,2,7,100} (StripNearEqual: max_dist_sqrd = epsilon^2 plus 2,5 / 150,450,1050); "
                "plus a fixed grid of 5040 Ellipse argument tuples (3 centres x 8 radiusX x 6 radiusY x 10 step counts x Path64/PathD x point/rectangle form, minus rectangles of height <= 0); "
                "one case = (function, path, open/closed, parameter); a case is non-trivial when the function returned something different from its input "
                "(Length: a non-zero length; GetBounds: a rectangle that is not a single point; Ellipse: a non-empty path)",
        "level_text": "Every case of the scope is executed on the real library and judged against the contract clauses of the statement with exact integer arithmetic "
                      "(squared-distance comparisons as exact rationals, areas in 128 bits). Clauses that depend on which occurrences of repeated points survived "
                      "are decided existentially by a DP over all index embeddings of the result into the input, so ambiguity can never raise an alarm.",
        "assumptions": ["paths limited to the stated length bound and lattices; epsilon limited to the stated dyadic values",
                        "closed paths: 'subsequence in order' is read cyclically (rotations accepted and counted; the library never rotates)",
                        "a vertex at distance exactly epsilon may be kept or removed (ties never alarm)",
                        "when the two neighbours of a vertex coincide the line through them is undefined: SimplifyPath skips (and counts) such vertices, "
                        "RamerDouglasPeucker accepts (and counts) results that pass only under that reading",
                        "SimplifyPath's 'no removable vertex left' clause is evaluated for inputs of >= 4 points (explicit early return below that; observed and counted)",
                        "Ellipse: the automatic step count (steps <= 2) is compared with the formula in the code as an observation only; "
                        "points are required to lie at the angles 2*pi*i/n on the ellipse within rounding (0.5 unit for Path64) plus 1e-9 relative evaluation error",
                        "PathD overloads of TrimCollinear/SimplifyPath/RamerDouglasPeucker are not exercised (same templates / a scaling wrapper)"],
    },
}
