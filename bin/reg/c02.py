# C02: axis-parallel inputs, exact per-cell oracle
HARNESSES = {
    "rectil": {"src": "rectil.cpp", "cxxflags": O2},
}
PROPS = {
    "C02": {
        "runs": {
            "quick": [{"harness": "rectil", "args": ["--scope", "pairs", "--g", 5]},
                      {"harness": "rectil", "args": ["--scope", "triples", "--g", 4, "--sp_lo", 1, "--sp_hi", 1]},
                      {"harness": "rectil", "args": ["--scope", "walks", "--g", 4, "--nmax", 5, "--sp_lo", 1, "--sp_hi", 1]}],
            "thorough": [{"harness": "rectil", "args": ["--scope", "pairs", "--g", 6]},
                         {"harness": "rectil", "args": ["--scope", "triples", "--g", 4]},
                         {"harness": "rectil", "args": ["--scope", "walks", "--g", 4, "--nmax", 6]},
                         {"harness": "rectil", "args": ["--scope", "walks", "--g", 5, "--nmax", 8, "--alt", 1, "--sp_lo", 1, "--sp_hi", 1]},
                         {"harness": "rectil", "args": ["--scope", "triples", "--g", 5, "--sp_lo", 1, "--sp_hi", 1]}],
        },
        "rule": "all rectangle pairs (1 subject, 1 clip) and triples (2 subjects, 1 clip), both orientations, on a g-line lattice; all closed axis-parallel walks (self-overlapping, with collinear and "
                "zero-width sections) up to n vertices as subject x every rectangle as clip; lattice lines mapped through unit, non-uniform and 2^30-scaled spacings; x 4 clip types x 4 fill rules x PreserveCollinear; "
                "non-trivial = solution non-empty and different from both inputs",
        "level_text": "Every member of the rectilinear scopes is executed on the real library; the winding number of the solution at every lattice-cell centre, the exact area, the vertex coordinates and the edge directions are compared with the exact cell-coverage model.",
        "assumptions": ["scopes bounded to lattices of at most 6 lines, at most 3 paths and walks of at most 8 vertices"],
    },
}
