# C02: axis-parallel inputs, exact per-cell oracle
HARNESSES = {
    "rectil": {"src": "rectil.cpp", "cxxflags": O2},
}
PROPS = {
    "C02": {
        "deadline": {"quick": 900, "thorough": 2700},
        "runs": {
            "quick": [{"harness": "rectil", "args": ["--scope", "pairs", "--g", 5]},
                      {"harness": "rectil", "args": ["--scope", "triples", "--g", 4, "--sp_lo", 1, "--sp_hi", 1]},
                      {"harness": "rectil", "args": ["--scope", "walks", "--g", 4, "--nmax", 5, "--sp_lo", 1, "--sp_hi", 1]},
                      {"harness": "rectil", "args": ["--scope", "cells", "--w", 6, "--h", 5]},
                      {"harness": "rectil", "args": ["--scope", "cells", "--w", 6, "--h", 5, "--frames", 1]}],
            "thorough": [{"harness": "rectil", "args": ["--scope", "pairs", "--g", 6]},
                         {"harness": "rectil", "args": ["--scope", "triples", "--g", 4]},
                         {"harness": "rectil", "args": ["--scope", "walks", "--g", 4, "--nmax", 6]},
                         {"harness": "rectil", "args": ["--scope", "walks", "--g", 5, "--nmax", 8, "--alt", 1, "--sp_lo", 1, "--sp_hi", 1]},
                         {"harness": "rectil", "args": ["--scope", "triples", "--g", 5, "--sp_lo", 1, "--sp_hi", 1]},
                         {"harness": "rectil", "args": ["--scope", "cells", "--w", 6, "--h", 6]},
                         {"harness": "rectil", "args": ["--scope", "cells", "--w", 5, "--h", 7]},
                         {"harness": "rectil", "args": ["--scope", "cells", "--w", 6, "--h", 6, "--frames", 1]},
                         {"harness": "rectil", "args": ["--scope", "cells", "--w", 7, "--h", 5, "--frames", 1]}],
        },
        "rule": "all rectangle pairs (1 subject, 1 clip) and triples (2 subjects, 1 clip), both orientations, on a g-line lattice; all closed axis-parallel walks (self-overlapping, with collinear and "
                "zero-width sections) up to n vertices as subject x every rectangle as clip; lattice lines mapped through unit, non-uniform and 2^30-scaled spacings; the 'cells' family (a ring of cells round a 6x5 grid, thorough 6x6/5x7/7x5, plus every subset of the interior cells, given as up to 30 rectangles in ten decompositions and in 81 four-bar frames, alone and against the interior square); x 4 clip types x 4 fill rules x PreserveCollinear; "
                "non-trivial = solution non-empty and different from both inputs",
        "level_text": "Every member of the rectilinear scopes is executed on the real library; the winding number of the solution at every lattice-cell centre, the exact area, the vertex coordinates and the edge directions are compared with the exact cell-coverage model.",
        "assumptions": ["scopes bounded to lattices of at most 6 lines, at most 3 paths and walks of at most 8 vertices; cells family bounded to 7x5 / 6x6 / 5x7 grids at spacing 4"],
    },
}
