# C12: history independence (E-HIST)
HARNESSES = {
    "history": {"src": "history.cpp", "cxxflags": O2},
}
PROPS = {
    "C12": {
        "runs": {
            "quick": [{"harness": "history", "args": ["--what", "all", "--depth", 6]}],
            "thorough": [{"harness": "history", "args": ["--what", "Clipper64", "--depth", 7]},
                         {"harness": "history", "args": ["--what", "ClipperD", "--depth", 7]},
                         {"harness": "history", "args": ["--what", "ClipperOffset", "--depth", 7]},
                         {"harness": "history", "args": ["--what", "RectClip", "--depth", 5]},
                         {"harness": "history", "args": ["--what", "independence"]}],
        },
        "rule": "every sequence of API calls of length <= d over the operation alphabet of each object kind (Clipper64: 15 ops, ClipperD: 11, ClipperOffset: 12, RectClip64/RectClipLines64: 8) whose last call is an Execute; "
                "stateless: each history is replayed on a fresh real object; the result of the last call is compared bit for bit with a freshly constructed object given the abstract state (adds since the last Clear, current options); "
                "plus every ordered selection of 2-3 of 8 far-apart offset groups x delta +-10 compared with each group/path offset alone; non-trivial = the history is longer than / different from its minimal call list",
        "level_text": "All API-call histories up to the depth bound are executed on the real objects and compared with a fresh object driven by the abstract model (list of added paths + options); no state hashing, so hidden fields cannot be merged away.",
        "assumptions": ["operation arguments are fixed path sets chosen so that different abstract states give different results", "the output containers handed to Execute are reused across the whole history (fresh ones for the reference object)", "history depth bounded (quick 4, thorough 6)",
                        "documented precondition kept out of the alphabet: the same ReuseableDataContainer64 added twice between Clears (probed separately, known finding D12)"],
    },
}
