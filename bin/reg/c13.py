# C13: representation independence and set algebra
HARNESSES = {
    "reprgp": {"src": "reprgp.cpp", "cxxflags": O2},
}
PROPS = {
    "C13": {
        "runs": {
            "quick": [{"harness": "reprgp", "args": ["--scope", "S1", "--nmax", 4]}],
            "thorough": [{"harness": "reprgp", "args": ["--scope", "S1", "--nmax", 5]},
                         {"harness": "reprgp", "args": ["--scope", "S2", "--nmax", 4]},
                         {"harness": "reprgp", "args": ["--scope", "S4"]}],
        },
        "rule": "every general-position input of the C01 scopes x 4 clip types x 4 fill rules x every listed representation change (all start-vertex rotations, every single duplicated vertex, explicit closing vertex, "
                "path-order permutation, subject/clip swap, reversal of all paths) compared by exact canonical path-set equality; plus Xor=Union-Intersection, Difference+Intersection=subject and equivariance under 10 affine maps "
                "(translations up to 2^40, transpose, mirrors, scales 2/3/7, half-turn) compared by exact winding numbers at every quadtree cell centre outside the tolerance band; non-trivial = base solution non-empty",
        "level_text": "Every representation variant and every transformed copy of every enumerated input is executed on the real library and compared with the base run (exact canonical equality, or exact winding numbers at all quadtree cell centres outside the tolerance band).",
        "assumptions": ["scopes as in C01 (at most 5 vertices per path, 3 paths)", "algebraic identities are compared at cell centres of the input-only quadtree (leaf 1 unit); their completeness relies on C01 (solution edges stay inside the band)"],
    },
}
