#!/usr/bin/env python3
"""Regenerates /verif/MANIFEST.json from bin/registry.py (keeps the two in sync)."""
import json, os, sys
VERIF = os.path.dirname(os.path.dirname(os.path.abspath(__file__)))
sys.path.insert(0, os.path.join(VERIF, "bin"))
from registry import PROPS, HARNESSES, NOT_APPLICABLE, HOOK_COMMITS

ALL = ["C%02d" % i for i in range(1, 21)]
# properties whose harness exists but has not yet been validated end-to-end on the unchanged tree
pend = os.path.join(VERIF, "bin", "reg", "PENDING")
PENDING = set(open(pend).read().split()) if os.path.exists(pend) else set()
PROPS = {k: v for k, v in PROPS.items() if k not in PENDING}
for k in PENDING:
    NOT_APPLICABLE.setdefault(k, "check being built in this session; not yet validated on the unchanged tree")
checks = []
for pid in sorted(PROPS):
    s = PROPS[pid]
    checks.append({
        "property_id": pid,
        "quick_cmd": "python3 bin/check %s --tier quick" % pid,
        "thorough_cmd": "python3 bin/check %s --tier thorough" % pid,
        "evidence_file": "/verif/evidence/%s.json" % pid,
        "replay_cmd_template": "python3 bin/check %s --replay {path}" % pid,
        "engine": ",".join(sorted({r["harness"] for t in s["runs"].values() for r in t})),
        "level_claimed": {"category": "model_checking", "text": s["level_text"], "design_ref": s.get("design_ref", "DESIGN.md section 2/3, " + pid)},
        "level_note": "; ".join(s.get("assumptions", [])) or "bounded scope as stated in the evidence file",
        "technique": s.get("technique", "bounded-exhaustive enumeration of the stated finite scope on the real code, exact reference oracle"),
    })
na = [{"property_id": p, "reason": NOT_APPLICABLE.get(p, "no check registered")} for p in ALL if p not in PROPS]
m = {
    "version": 1,
    "setup_cmd": "python3 bin/check --setup",
    "hooks": {"guard": "CLIPPER2_VERIF", "enable": "no source hooks are used: harnesses compile /repo/CPP/Clipper2Lib sources directly with compiler-level instrumentation only",
              "baseline_off_cmd": "(test -f /repo/_build/CMakeCache.txt || cmake -G Ninja -S /repo/CPP -B /repo/_build) && cmake --build /repo/_build && ctest --test-dir /repo/_build -j8 --timeout 900",
              "source_commits": HOOK_COMMITS, "add_only": True},
    "engines": [{"name": n, "path": "checks/" + h["src"], "serves_properties": sorted(p for p in PROPS if any(r["harness"] == n for t in PROPS[p]["runs"].values() for r in t)),
                 "kind_free_text": h.get("kind", "bounded-exhaustive explorer over the real library code")} for n, h in sorted(HARNESSES.items())],
    "checks": checks,
    "not_applicable": na,
    "notes": "Technique family: model checking = exhaustive enumeration of bounded input / history / schedule / fault spaces on the real library built from /repo's working tree. See DESIGN.md.",
}
json.dump(m, open(os.path.join(VERIF, "MANIFEST.json"), "w"), indent=1)
print("wrote MANIFEST.json with %d checks, %d not_applicable" % (len(checks), len(na)))
