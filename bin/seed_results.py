#!/usr/bin/env python3
"""Regenerates seeded/RESULTS.md from the meta.json files."""
import json, glob, os
V = os.path.dirname(os.path.dirname(os.path.abspath(__file__)))
rows = []
for f in sorted(glob.glob(os.path.join(V, "seeded", "*", "meta.json"))):
    rows.append(json.load(open(f)))
out = ["# Seeded changes and which checks catch them", "",
       "Every change below was written by a fresh sub-agent that saw only the text of one property and a scratch worktree of /repo;",
       "each was confirmed (in that worktree) to apply, to build both libraries warning-free, to pass the complete repository suite,",
       "to make its demonstration fail, and the demonstration to pass without it (`meta.json`). Checks were run with",
       "`bin/mutant_run.py seeded/<id>/patch.diff <property>...` (scratch copy of the library; /repo is never modified).", "",
       "The last column is the outcome of `bin/seed_matrix.py` (every kept change re-run against the FINAL tree and checks: the quick check of",
       "its own property first, then C12, C02, C03, C10 until one reports it); changes whose lines were altered by a later `fix:` commit are",
       "re-applied from `patch_rebased.diff`.", "",
       "| id | breaks | needs, in order to manifest | checks run and outcome (when the change was received) | final matrix |", "|---|---|---|---|---|"]
det = miss = 0
for m in rows:
    c = m["checks_run"]
    if ("MISSED by" in c or "reported by no check" in c) and "DETECTED" not in c: miss += 1
    else: det += 1
    mx = os.path.join(V, "seeded", m["id"], "matrix.json"); fin = ""
    if os.path.exists(mx):
        r = json.load(open(mx))["results"]; hit = [p for p in r if "DETECTED" in r[p]]
        fin = ("reported by " + hit[0]) if hit else ("not reported (" + ", ".join(sorted(r)) + " quick)" if "PATCH DOES NOT APPLY" not in " ".join(r.values()) else "patch no longer applies")
    out.append("| %s | %s | %s | %s | %s |" % (m["id"], m["breaks_property"], m["needs_to_manifest"].replace("|", "/"), c.replace("|", "/"), fin))
out += ["", "%d seeded changes kept; %d are reported by at least one registered check, %d by none." % (len(rows), det, miss)]
open(os.path.join(V, "seeded", "RESULTS.md"), "w").write("\n".join(out) + "\n")
print(out[-1])
