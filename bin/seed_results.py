#!/usr/bin/env python3
"""Regenerates seeded/RESULTS.md from the meta.json files."""
import json, glob, os
V = os.path.dirname(os.path.dirname(os.path.abspath(__file__)))
rows = []
for f in sorted(glob.glob(os.path.join(V, "seeded", "*", "meta.json"))):
    rows.append(json.load(open(f)))
out = ["# Seeded changes and which checks catch them", "",
       "Every change below was written by a fresh sub-agent that saw only the text of one property and a scratch worktree of /repo;",
       "each was confirmed (in that worktree) to apply, to build both libraries warning-free, to pass the complete repository suite,",
       "to make its demonstration fail, and the demonstration to pass without it (`meta.json`). Checks were run with",
       "`bin/mutant_run.py seeded/<id>/patch.diff <property>...` (scratch copy of the library; /repo is never modified).", "",
       "| id | breaks | needs, in order to manifest | checks run and outcome |", "|---|---|---|---|"]
det = miss = 0
for m in rows:
    c = m["checks_run"]
    if ("MISSED by" in c or "reported by no check" in c) and "DETECTED" not in c: miss += 1
    else: det += 1
    out.append("| %s | %s | %s | %s |" % (m["id"], m["breaks_property"], m["needs_to_manifest"].replace("|", "/"), c.replace("|", "/")))
out += ["", "%d seeded changes kept; %d are reported by at least one registered check, %d by none." % (len(rows), det, miss)]
open(os.path.join(V, "seeded", "RESULTS.md"), "w").write("\n".join(out) + "\n")
print(out[-1])
