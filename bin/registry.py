# Registry of library configurations, harnesses and per-property runs used by bin/check.

WARN = ["-Wall", "-Wno-unused-function", "-Wno-unused-variable", "-Wno-unused-but-set-variable"]

# library configurations: each is a separate copy of Clipper2 in its own namespace
CONFIGS = {
    "std": {"flags": []},
    "hp": {"flags": ["-DClipper2Lib=Clipper2Lib_hp", "-DVFC_NS=vfc_hp", "-DCLIPPER2_HI_PRECISION=1"]},
    "z": {"flags": ["-DClipper2Lib=Clipper2Lib_z", "-DVFC_NS=vfc_z", "-DUSINGZ"]},
    "port": {"flags": ["-DClipper2Lib=Clipper2Lib_port", "-DVFC_NS=vfc_port", "-include", "sides/portable_prelude.h"]},
    "nx": {"flags": ["-DClipper2Lib=Clipper2Lib_nx", "-DVFC_NS=vfc_nx", "-fno-exceptions"]},
}

O2 = ["-O2"] + WARN
ASAN = ["-O1", "-g", "-fsanitize=address,undefined", "-fno-sanitize-recover=undefined", "-fno-omit-frame-pointer", "-D_GLIBCXX_SANITIZE_VECTOR"] + WARN

HARNESSES = {}
PROPS = {}
HOOK_COMMITS = []
NOT_APPLICABLE = {}

MC = "bounded-exhaustive exploration of the real library code (explicit enumeration of a finite input/history/schedule space, exact reference oracle)"


_extra = {}


def _load_fragments():
    import glob, os
    here = os.path.dirname(os.path.abspath(__file__))
    for f in sorted(glob.glob(os.path.join(here, "reg", "*.py"))):
        ns = {"O2": O2, "ASAN": ASAN, "WARN": WARN, "CONFIGS": CONFIGS, "MC": MC}
        exec(compile(open(f).read(), f, "exec"), ns)
        for k, v in ns.get("HARNESSES", {}).items():
            assert k not in HARNESSES, "duplicate harness " + k
            HARNESSES[k] = v
        for k, v in ns.get("PROPS", {}).items():
            assert k not in PROPS, "duplicate property " + k
            PROPS[k] = v
        NOT_APPLICABLE.update(ns.get("NOT_APPLICABLE", {}))
        HOOK_COMMITS.extend(ns.get("HOOK_COMMITS", []))
        for k, v in ns.get("EXTRA_RUNS", {}).items():
            _extra.setdefault(k, {})
            for tier, runs in v.items():
                _extra[k].setdefault(tier, []).extend(runs)
    # runs that one fragment contributes to a property defined in another fragment
    for k, v in _extra.items():
        for tier, runs in v.items():
            PROPS[k]["runs"][tier] = list(PROPS[k]["runs"][tier]) + runs


_load_fragments()
