// Region engine: decides "the solution's winding number equals expected(p) at
// every point p of the plane whose margin m(p) is positive", for a 1-Lipschitz
// margin function m (DESIGN.md section 1.4).
//
// Everything is evaluated in a scaled integer coordinate system (grid unit * S,
// S a power of two) so that all cell centres are integer points and the winding
// numbers are exact.
//
//  * build(): quadtree over the inputs only. A cell with centre c, half side H
//    (scaled) and half diagonal r = H*sqrt2/S (grid units) is
//       FREE     when m(c) - r > 0   (every point of it is constrained and, m being
//                                     positive on it, `expected` is constant on it),
//       DROPPED  when m(c) + r <= 0  (wholly inside the tolerance band),
//       otherwise split until H == 1; leaves that are neither are kept as RIM cells.
//  * check(): for one solution O (closed paths, scaled):
//       - FREE cell with no solution edge meeting its closed square: w_O is constant
//         on it, one exact evaluation at the centre decides every point of it;
//       - FREE cell met by a solution edge: refined locally down to H == 1, centres
//         evaluated (a genuine stray boundary makes the centres on one of its sides
//         disagree with the constant expected value);
//       - RIM cell: centre evaluated when m(c) > eps (sound, extra detection).
//    An alarm is always one concrete integer point c with m(c) > eps, not on any
//    solution edge, whose exactly computed winding number differs from expected(c).
//    Every point with m(p) > 2*r_leaf lies in a FREE cell, hence is decided.
#pragma once
#include "exact.hpp"

namespace vf {

struct RCell { P c; i64 H; bool free; int a, b; }; // a,b: payload (e.g. subject / clip winding at c)

struct RTree {
  i64 S = 4;
  i64 Hmin = 1;          // leaf half side (scaled units)
  std::vector<RCell> cells;
  u64 n_free = 0, n_rim = 0, n_dropped = 0, n_margin_evals = 0;
  ld r_leaf() const { return (ld)Hmin * sqrtl(2.0L) / (ld)S; }
};

// margin(c): 1-Lipschitz in grid units, c in scaled coordinates.
// payload(c, a, b): exact data from which expected is later derived; may set skip=true (point on an input edge).
template <class MarginF, class PayloadF>
inline void rtree_rec(RTree& t, const P& c, i64 H, MarginF& margin, PayloadF& payload, ld eps) {
  ld r = (ld)H * sqrtl(2.0L) / (ld)t.S;
  ld m = margin(c); ++t.n_margin_evals;
  if (m - r > eps) {
    RCell cell{c, H, true, 0, 0}; bool skip = false; payload(c, cell.a, cell.b, skip);
    if (!skip) { t.cells.push_back(cell); ++t.n_free; }
    return;
  }
  if (m + r <= 0) { ++t.n_dropped; return; }
  if (H <= t.Hmin) {
    if (m > eps) { RCell cell{c, H, false, 0, 0}; bool skip = false; payload(c, cell.a, cell.b, skip); if (!skip) { t.cells.push_back(cell); ++t.n_rim; } }
    return;
  }
  i64 h = H / 2;
  rtree_rec(t, P{c.x - h, c.y - h}, h, margin, payload, eps);
  rtree_rec(t, P{c.x + h, c.y - h}, h, margin, payload, eps);
  rtree_rec(t, P{c.x - h, c.y + h}, h, margin, payload, eps);
  rtree_rec(t, P{c.x + h, c.y + h}, h, margin, payload, eps);
}

// box: grid-unit bounding box of everything that can matter (inputs grown by the reach of the operation)
template <class MarginF, class PayloadF>
inline RTree rtree_build(const Box& box, i64 S, i64 Hmin, MarginF margin, PayloadF payload, ld eps = 1e-6L) {
  RTree t; t.S = S; t.Hmin = Hmin;
  i128 w = std::max((i128)box.x1 - box.x0, (i128)box.y1 - box.y0) * S / 2 + 2;
  i64 H = Hmin; while ((i128)H < w) H *= 2;
  // centre: midpoint of the box in scaled units; H is Hmin * 2^k so all descendants' centres are integers when Hmin >= 1
  i64 cx = (i64)(((i128)box.x0 + box.x1) * S / 2), cy = (i64)(((i128)box.y0 + box.y1) * S / 2);
  rtree_rec(t, P{cx, cy}, H, margin, payload, eps);
  return t;
}

// exact: does closed segment ab meet the closed axis-parallel square centre c half side H ?
inline bool seg_meets_square(const P& a, const P& b, const P& c, i64 H) {
  i64 x0 = c.x - H, x1 = c.x + H, y0 = c.y - H, y1 = c.y + H;
  if (std::max(a.x, b.x) < x0 || std::min(a.x, b.x) > x1 || std::max(a.y, b.y) < y0 || std::min(a.y, b.y) > y1) return false;
  if ((a.x >= x0 && a.x <= x1 && a.y >= y0 && a.y <= y1) || (b.x >= x0 && b.x <= x1 && b.y >= y0 && b.y <= y1)) return true;
  // all four corners strictly on one side of line ab -> no intersection
  P k[4] = {{x0, y0}, {x1, y0}, {x1, y1}, {x0, y1}};
  int pos = 0, neg = 0;
  for (auto& q : k) { int o = orient(a, b, q); if (o > 0) ++pos; else if (o < 0) ++neg; }
  return !(pos == 4 || neg == 4);
}

struct RWitness { P c; i64 S; int got, want; ld margin; };
struct RStats { u64 evals = 0, decided_free = 0, refined = 0, on_edge_skipped = 0, rim_evals = 0; };

// sol: solution paths ALREADY SCALED by t.S. expect(cell) -> expected winding. margin/payload as in build (for local refinement).
template <class ExpectF, class MarginF, class PayloadF>
inline bool rtree_check(const RTree& t, const Paths& sol, ExpectF expect, MarginF margin, PayloadF payload, RWitness& wit, RStats& st, ld eps = 1e-6L) {
  // flatten solution edges with their bbox
  struct E { P a, b; };
  std::vector<E> edges;
  Box sb;
  for (auto& p : sol) { size_t n = p.size(); for (size_t i = 0; i < n; ++i) { edges.push_back({p[i], p[(i + 1) % n]}); } grow(sb, p); }
  auto eval_point = [&](const RCell& cell, ld m_known) -> bool { // returns false on mismatch
    bool on = false; int w = 0;
    if (!sb.empty() && cell.c.x >= sb.x0 && cell.c.x <= sb.x1 && cell.c.y >= sb.y0 && cell.c.y <= sb.y1) w = winding(sol, cell.c, on);
    ++st.evals;
    if (on) { ++st.on_edge_skipped; return true; }
    int e = expect(cell);
    if (w != e) { wit = {cell.c, t.S, w, e, m_known}; return false; }
    return true;
  };
  std::function<bool(const P&, i64)> refine = [&](const P& c, i64 H) -> bool {
    ++st.refined;
    bool hit = false;
    for (auto& e : edges) if (seg_meets_square(e.a, e.b, c, H)) { hit = true; break; }
    ld m = margin(c);
    if (!hit || H <= t.Hmin) {
      if (m > eps) { RCell cell{c, H, false, 0, 0}; bool skip = false; payload(c, cell.a, cell.b, skip); if (!skip) return eval_point(cell, m); }
      return true;
    }
    i64 h = H / 2;
    return refine(P{c.x - h, c.y - h}, h) && refine(P{c.x + h, c.y - h}, h) && refine(P{c.x - h, c.y + h}, h) && refine(P{c.x + h, c.y + h}, h);
  };
  for (auto& cell : t.cells) {
    if (cell.free) {
      bool hit = false;
      if (!sb.empty() && !(cell.c.x + cell.H < sb.x0 || cell.c.x - cell.H > sb.x1 || cell.c.y + cell.H < sb.y0 || cell.c.y - cell.H > sb.y1))
        for (auto& e : edges) if (seg_meets_square(e.a, e.b, cell.c, cell.H)) { hit = true; break; }
      if (!hit) { ++st.decided_free; if (!eval_point(cell, -1)) { wit.margin = margin(cell.c); return false; } }
      else if (!refine(cell.c, cell.H)) return false;
    } else {
      ++st.rim_evals;
      if (!eval_point(cell, -1)) { wit.margin = margin(cell.c); return false; }
    }
  }
  return true;
}

inline std::string wit_str(const RWitness& w) {
  char b[256];
  snprintf(b, sizeof b, "point=(%.4Lf,%.4Lf) winding_got=%d winding_expected=%d margin=%.4Lf", (ld)w.c.x / (ld)w.S, (ld)w.c.y / (ld)w.S, w.got, w.want, w.margin);
  return b;
}

} // namespace vf
