// Exact integer geometry kernel (128-bit) used by every oracle.
// All predicates are exact as long as coordinate differences fit in 63 bits
// (|coords| <= 2^62), which is the widest range any property states.
#pragma once
#include "common.hpp"
#include <cmath>

namespace vf {

inline int sgn128(i128 v) { return (v > 0) - (v < 0); }

// sign of cross((b-a),(c-a)) : >0 when a,b,c turn counter-clockwise (Cartesian)
inline int orient(const P& a, const P& b, const P& c) {
  i128 v = ((i128)b.x - a.x) * ((i128)c.y - a.y) - ((i128)b.y - a.y) * ((i128)c.x - a.x);
  return sgn128(v);
}
inline i128 cross128(const P& a, const P& b, const P& c) {
  return ((i128)b.x - a.x) * ((i128)c.y - a.y) - ((i128)b.y - a.y) * ((i128)c.x - a.x);
}
inline i128 dot128(const P& a, const P& b, const P& c) { // (b-a).(c-a)
  return ((i128)b.x - a.x) * ((i128)c.x - a.x) + ((i128)b.y - a.y) * ((i128)c.y - a.y);
}
inline bool on_segment(const P& a, const P& b, const P& p) { // p on closed segment ab
  if (orient(a, b, p) != 0) return false;
  return std::min(a.x, b.x) <= p.x && p.x <= std::max(a.x, b.x) && std::min(a.y, b.y) <= p.y && p.y <= std::max(a.y, b.y);
}
// proper crossing: interiors intersect in exactly one point
inline bool proper_cross(const P& a, const P& b, const P& c, const P& d) {
  int o1 = orient(a, b, c), o2 = orient(a, b, d), o3 = orient(c, d, a), o4 = orient(c, d, b);
  return o1 * o2 < 0 && o3 * o4 < 0;
}
// any intersection (touching included)
inline bool segs_intersect(const P& a, const P& b, const P& c, const P& d) {
  int o1 = orient(a, b, c), o2 = orient(a, b, d), o3 = orient(c, d, a), o4 = orient(c, d, b);
  if (o1 * o2 < 0 && o3 * o4 < 0) return true;
  return on_segment(a, b, c) || on_segment(a, b, d) || on_segment(c, d, a) || on_segment(c, d, b);
}

// Winding number of closed path `p` around point q (same integer coordinate system).
// Returns false in `ok` when q lies on the path (winding undefined there).
inline int winding(const Path& p, const P& q, bool& on) {
  int w = 0; size_t n = p.size();
  if (n < 2) return 0;
  for (size_t i = 0; i < n; ++i) {
    const P& a = p[i]; const P& b = p[(i + 1) % n];
    if (a == b) { if (a == q) on = true; continue; }
    if (a.y <= q.y) {
      if (b.y > q.y) { int o = orient(a, b, q); if (o > 0) ++w; else if (o == 0) on = true; }
      else if (a.y == q.y && b.y == q.y) { if (std::min(a.x, b.x) <= q.x && q.x <= std::max(a.x, b.x)) on = true; }
      else if (a.y == q.y && a.x == q.x) on = true;
    } else {
      if (b.y <= q.y) { int o = orient(a, b, q); if (o < 0) --w; else if (o == 0) on = true; }
    }
    if (b == q) on = true;
  }
  return w;
}
inline int winding(const Paths& pp, const P& q, bool& on) {
  int w = 0; for (auto& p : pp) w += winding(p, q, on); return w;
}

// Scale a path set by an integer factor (for evaluating at dyadic points).
inline Path scaled(const Path& p, i64 s) { Path r(p.size()); for (size_t i = 0; i < p.size(); ++i) r[i] = {p[i].x * s, p[i].y * s}; return r; }
inline Paths scaled(const Paths& pp, i64 s) { Paths r; r.reserve(pp.size()); for (auto& p : pp) r.push_back(scaled(p, s)); return r; }

// fill rule: 0 EvenOdd, 1 NonZero, 2 Positive, 3 Negative
inline bool fill(int rule, int w) {
  switch (rule) { case 0: return (w & 1) != 0; case 1: return w != 0; case 2: return w > 0; default: return w < 0; }
}
// clip type: 1 Intersection, 2 Union, 3 Difference, 4 Xor
inline bool setop(int ct, bool s, bool c) {
  switch (ct) { case 1: return s && c; case 2: return s || c; case 3: return s && !c; case 4: return s != c; default: return false; }
}

// ---- distances (long double; exact differences, rounding only in the final steps)
using ld = long double;
inline ld dist_pt_seg(const P& q, const P& a, const P& b) {
  ld ax = (ld)((i128)q.x - a.x), ay = (ld)((i128)q.y - a.y);
  ld dx = (ld)((i128)b.x - a.x), dy = (ld)((i128)b.y - a.y);
  ld l2 = dx * dx + dy * dy;
  if (l2 == 0) return sqrtl(ax * ax + ay * ay);
  ld t = (ax * dx + ay * dy) / l2;
  if (t <= 0) return sqrtl(ax * ax + ay * ay);
  if (t >= 1) { ld bx = (ld)((i128)q.x - b.x), by = (ld)((i128)q.y - b.y); return sqrtl(bx * bx + by * by); }
  ld c = ax * dy - ay * dx;
  return fabsl(c) / sqrtl(l2);
}
// double-coordinate version (points given as long double)
inline ld dist_pt_seg_ld(ld qx, ld qy, ld ax_, ld ay_, ld bx_, ld by_) {
  ld ax = qx - ax_, ay = qy - ay_, dx = bx_ - ax_, dy = by_ - ay_;
  ld l2 = dx * dx + dy * dy;
  if (l2 == 0) return sqrtl(ax * ax + ay * ay);
  ld t = (ax * dx + ay * dy) / l2;
  if (t <= 0) return sqrtl(ax * ax + ay * ay);
  if (t >= 1) { ld bx = qx - bx_, by = qy - by_; return sqrtl(bx * bx + by * by); }
  return fabsl(ax * dy - ay * dx) / sqrtl(l2);
}
// minimum distance from q to all edges of a set of closed paths
inline ld dist_to_edges(const P& q, const Paths& pp, bool closed = true) {
  ld best = 1e300L;
  for (auto& p : pp) {
    size_t n = p.size(); if (!n) continue;
    if (n == 1) { best = std::min(best, dist_pt_seg(q, p[0], p[0])); continue; }
    size_t m = closed ? n : n - 1;
    for (size_t i = 0; i < m; ++i) best = std::min(best, dist_pt_seg(q, p[i], p[(i + 1) % n]));
  }
  return best;
}

// exact: is dist(q, segment ab) >= r (r integer >= 0)?  compares squared quantities in 128 bits.
// valid when |coords| < 2^30 or so (cross^2 must fit): used on boards only.
inline bool dist_ge(const P& q, const P& a, const P& b, i64 r) {
  i128 l2 = dot128(a, b, b);
  i128 r2 = (i128)r * r;
  if (l2 == 0) return dot128(a, q, q) >= r2;
  i128 t = dot128(a, b, q);
  if (t <= 0) return dot128(a, q, q) >= r2;
  if (t >= l2) return dot128(b, q, q) >= r2;
  i128 c = cross128(a, b, q);
  return c * c >= r2 * l2;
}

// intersection point of lines ab and cd as long doubles (caller guarantees non-parallel)
inline void line_isect(const P& a, const P& b, const P& c, const P& d, ld& x, ld& y) {
  i128 den = ((i128)b.x - a.x) * ((i128)d.y - c.y) - ((i128)b.y - a.y) * ((i128)d.x - c.x);
  i128 num = ((i128)c.x - a.x) * ((i128)d.y - c.y) - ((i128)c.y - a.y) * ((i128)d.x - c.x);
  ld t = (ld)num / (ld)den;
  x = (ld)a.x + t * (ld)((i128)b.x - a.x);
  y = (ld)a.y + t * (ld)((i128)b.y - a.y);
}

// bounding box
struct Box { i64 x0 = INT64_MAX, y0 = INT64_MAX, x1 = INT64_MIN, y1 = INT64_MIN; bool empty() const { return x0 > x1; } };
inline void grow(Box& b, const P& p) { b.x0 = std::min(b.x0, p.x); b.x1 = std::max(b.x1, p.x); b.y0 = std::min(b.y0, p.y); b.y1 = std::max(b.y1, p.y); }
inline void grow(Box& b, const Path& p) { for (auto& q : p) grow(b, q); }
inline void grow(Box& b, const Paths& pp) { for (auto& p : pp) grow(b, p); }
inline Box bbox(const Paths& pp) { Box b; grow(b, pp); return b; }

// exact simplicity test of a closed path (no two non-adjacent edges touch, adjacent edges only share the vertex)
inline bool is_simple_closed(const Path& p) {
  size_t n = p.size(); if (n < 3) return false;
  for (size_t i = 0; i < n; ++i) if (p[i] == p[(i + 1) % n]) return false;
  for (size_t i = 0; i < n; ++i) {
    const P& a = p[i]; const P& b = p[(i + 1) % n];
    // adjacent edge must not fold back
    const P& c = p[(i + 2) % n];
    if (orient(a, b, c) == 0 && dot128(b, a, c) > 0) return false;
    for (size_t j = i + 2; j < n; ++j) {
      if (i == 0 && j == n - 1) continue;
      if (segs_intersect(a, b, p[j], p[(j + 1) % n])) return false;
    }
  }
  return true;
}

} // namespace vf
