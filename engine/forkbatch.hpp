// Fork-per-batch execution for checks whose oracle is "the process itself" (C10):
// a batch of cases runs in a forked child under sanitizers; the index of the case being
// executed is published in shared memory, so that when the child dies (sanitizer report,
// signal, watchdog) the failure is attributed to exactly one case, recorded, and a new
// child resumes after it.
#pragma once
#include "common.hpp"
#include <sys/mman.h>
#include <sys/wait.h>
#include <fcntl.h>
#include <time.h>

namespace vf {

struct FbShared {
  volatile u64 cur;          // index of the case being executed
  volatile u64 finished;     // number of cases completed by the current child
  volatile u64 ctr[32];      // child-side counters, added to the Reporter by the parent
  volatile int clean_exit;   // child reached the end of its range
  char note[2048];           // child-side note about the current case (e.g. leak details)
  volatile int note_set;
};

struct ForkBatch {
  FbShared* sh = nullptr;
  double stall_seconds = 20.0;   // no progress for this long => the current case hangs
  std::vector<std::string> ctr_names;  // names for sh->ctr[i]
  ForkBatch() {
    sh = (FbShared*)mmap(nullptr, sizeof(FbShared), PROT_READ | PROT_WRITE, MAP_SHARED | MAP_ANONYMOUS, -1, 0);
    if (sh == MAP_FAILED) { perror("mmap"); exit(2); }
    memset((void*)sh, 0, sizeof(FbShared));
  }
  static double now() { timespec t; clock_gettime(CLOCK_MONOTONIC, &t); return t.tv_sec + t.tv_nsec * 1e-9; }

  // exec(idx): runs case idx (in the child). describe(idx): complete case key. tagfix: optional refinement of the tag from the key.
  // Returns false when the deadline was hit.
  bool run(Reporter& rep, const std::string& prop, u64 begin, u64 end, const std::function<void(u64)>& exec, const std::function<std::string(u64)>& describe,
           const std::function<std::string(u64, const std::string&)>& tagfix = nullptr) {
    u64 start = begin; int child_no = 0;
    std::string errbase = rep.args.out.empty() ? std::string("/dev/null") : rep.args.out + ".child";
    while (start < end) {
      if (rep.out_of_time()) return false;
      sh->cur = start; sh->finished = 0; sh->clean_exit = 0; sh->note_set = 0; for (auto& c : sh->ctr) c = 0;
      std::string errfile = errbase == "/dev/null" ? errbase : errbase + std::to_string(child_no++) + ".err";
      fflush(stdout); fflush(stderr);
      pid_t pid = fork();
      if (pid < 0) { perror("fork"); exit(2); }
      if (pid == 0) {
        int fd = open(errfile.c_str(), O_WRONLY | O_CREAT | O_TRUNC, 0644);
        if (fd >= 0) { dup2(fd, 2); close(fd); }
        for (int s : {SIGSEGV, SIGBUS, SIGFPE, SIGILL, SIGABRT}) signal(s, SIG_DFL);
        for (u64 i = start; i < end; ++i) { sh->cur = i; exec(i); sh->finished = sh->finished + 1; }
        sh->clean_exit = 1;
        _exit(0);
      }
      int status = 0; bool killed = false; u64 last_cur = sh->cur, last_fin = sh->finished; double last_change = now();
      while (true) {
        pid_t r = waitpid(pid, &status, WNOHANG);
        if (r == pid) break;
        usleep(20000);
        if (sh->cur != last_cur || sh->finished != last_fin) { last_cur = sh->cur; last_fin = sh->finished; last_change = now(); }
        else if (now() - last_change > stall_seconds) { kill(pid, SIGKILL); waitpid(pid, &status, 0); killed = true; break; }
        if (rep.elapsed() > rep.args.deadline_s + 60) { kill(pid, SIGKILL); waitpid(pid, &status, 0); rep.deadline_hit = true; rep.exhaustive = false; return false; }
      }
      for (size_t i = 0; i < ctr_names.size() && i < 32; ++i) if (sh->ctr[i]) rep.add(ctr_names[i], sh->ctr[i]);
      if (!killed && WIFEXITED(status) && WEXITSTATUS(status) == 0 && sh->clean_exit) { if (errfile != "/dev/null") unlink(errfile.c_str()); return true; }
      // attribute the failure to the case that was running
      u64 bad = sh->cur;
      std::string tag = killed ? "hang_watchdog" : WIFSIGNALED(status) ? "signal_" + std::to_string(WTERMSIG(status)) : "exit_" + std::to_string(WEXITSTATUS(status));
      std::string report;
      if (errfile != "/dev/null") {
        FILE* f = fopen(errfile.c_str(), "r");
        if (f) { char buf[4096]; size_t n = fread(buf, 1, sizeof buf - 1, f); buf[n] = 0; report = buf; fclose(f); }
        if (report.find("AddressSanitizer") != std::string::npos) {
          size_t p = report.find("AddressSanitizer:"); std::string kind = report.substr(p + 17, 40); size_t e = kind.find_first_of(" \n", 1); tag = "asan_" + kind.substr(1, e == std::string::npos ? 20 : e - 1);
        } else if (report.find("runtime error:") != std::string::npos) tag = "ubsan_runtime_error";
        else if (report.find("LeakSanitizer") != std::string::npos) tag = "lsan_leak";
      }
      if (sh->note_set) report = std::string((const char*)sh->note) + "\n" + report;
      std::string key = describe(bad);
      if (tagfix) tag = tagfix(bad, tag);
      rep.violation(prop, key, tag, report.substr(0, 1500));
      start = bad + 1;
      // every failure costs a fork and a sanitizer report: give up on this shard when failures are plentiful
      if (rep.nviol >= 200) { rep.exhaustive = false; rep.notes.push_back("stopped after 200 failing cases in one shard"); return false; }
    }
    return true;
  }
};

} // namespace vf
