// Input alphabets ("boards") and complete enumerators over them (DESIGN.md 1.2).
#pragma once
#include "exact.hpp"

namespace vf {

// ---- board G: generic points in [0,100]^2; three disjoint sets (subject / clip / open)
inline std::vector<P> board_PS(long long seed = 0) {
  std::vector<P> v = {{3, 5}, {61, 2}, {97, 41}, {58, 99}, {7, 77}, {44, 50}, {80, 70}, {25, 30}};
  if (seed) for (auto& p : v) { p.x = (p.x * (2 + seed % 97) + 17 * seed) % 101; p.y = (p.y * (3 + (seed / 97) % 97) + 29 * seed) % 101; }
  return v;
}
inline std::vector<P> board_PC(long long seed = 0) {
  std::vector<P> v = {{10, 48}, {50, 8}, {92, 20}, {85, 90}, {30, 95}, {52, 58}, {70, 35}, {20, 15}};
  if (seed) for (auto& p : v) { p.x = (p.x * (2 + seed % 97) + 17 * seed) % 101; p.y = (p.y * (3 + (seed / 97) % 97) + 29 * seed) % 101; }
  return v;
}
inline std::vector<P> board_PO(long long seed = 0) {
  std::vector<P> v = {{1, 60}, {99, 63}, {47, 1}, {53, 98}, {15, 12}, {88, 84}, {35, 71}, {66, 27}};
  if (seed) for (auto& p : v) { p.x = (p.x * (2 + seed % 97) + 17 * seed) % 101; p.y = (p.y * (3 + (seed / 97) % 97) + 29 * seed) % 101; }
  return v;
}

// all ordered n-tuples of distinct indices < k; when `cyclic`, only those whose first index is the
// smallest (one representative per rotation class; both orientations are kept).
inline void enum_tuples(int k, int n, bool cyclic, std::vector<std::vector<int>>& out) {
  std::vector<int> cur; std::vector<char> used(k, 0);
  std::function<void()> rec = [&]() {
    if ((int)cur.size() == n) { out.push_back(cur); return; }
    for (int i = 0; i < k; ++i) {
      if (used[i]) continue;
      if (cyclic && !cur.empty() && i < cur[0]) continue;
      used[i] = 1; cur.push_back(i); rec(); cur.pop_back(); used[i] = 0;
    }
  };
  rec();
}
inline std::vector<Path> polygons_over(const std::vector<P>& board, int k, int nmin, int nmax, bool cyclic = true) {
  std::vector<Path> out;
  for (int n = nmin; n <= nmax; ++n) {
    std::vector<std::vector<int>> t; enum_tuples(k, n, cyclic, t);
    for (auto& idx : t) { Path p; for (int i : idx) p.push_back(board[i]); out.push_back(p); }
  }
  return out;
}
// all sequences (with repetition) of length n over k symbols, as index vectors
inline void enum_seqs(int k, int n, std::vector<std::vector<int>>& out) {
  std::vector<int> cur(n, 0);
  if (n == 0) { out.push_back(cur); return; }
  while (true) {
    out.push_back(cur);
    int i = n - 1;
    while (i >= 0 && ++cur[i] == k) { cur[i] = 0; --i; }
    if (i < 0) break;
  }
}
inline std::vector<P> lattice(int gx, int gy, i64 step = 1, i64 ox = 0, i64 oy = 0) {
  std::vector<P> v;
  for (int y = 0; y < gy; ++y) for (int x = 0; x < gx; ++x) v.push_back({ox + x * step, oy + y * step});
  return v;
}

// affine magnitude map  x -> x*k + t
struct Mag { i64 k, tx, ty; const char* name; };
inline Path mag_apply(const Mag& m, const Path& p) { Path r(p.size()); for (size_t i = 0; i < p.size(); ++i) r[i] = {p[i].x * m.k + m.tx, p[i].y * m.k + m.ty}; return r; }
inline Paths mag_apply(const Mag& m, const Paths& pp) { Paths r; for (auto& p : pp) r.push_back(mag_apply(m, p)); return r; }

// ---- general position filter (exact on boards: |coords| small)
// every vertex and every pairwise proper crossing is >= R units from every edge it does not lie on.
struct Edge { P a, b; int path, idx; };
inline std::vector<Edge> edges_of(const Paths& pp, bool closed = true) {
  std::vector<Edge> e;
  for (size_t k = 0; k < pp.size(); ++k) {
    size_t n = pp[k].size(); if (n < 2) continue;
    size_t m = closed ? n : n - 1;
    for (size_t i = 0; i < m; ++i) e.push_back({pp[k][i], pp[k][(i + 1) % n], (int)k, (int)i});
  }
  return e;
}
// mixed closed / open version: is_closed[k] tells whether path k has a closing edge
inline bool general_position_mixed(const Paths& all, const std::vector<char>& is_closed, i64 R = 3) {
  std::vector<Edge> E;
  for (size_t k = 0; k < all.size(); ++k) {
    size_t n = all[k].size(); if (n < 2) continue;
    size_t m = is_closed[k] ? n : n - 1;
    for (size_t i = 0; i < m; ++i) E.push_back({all[k][i], all[k][(i + 1) % n], (int)k, (int)i});
  }
  for (size_t k = 0; k < all.size(); ++k)
    for (size_t i = 0; i < all[k].size(); ++i) {
      const P& v = all[k][i]; size_t n = all[k].size();
      for (auto& e : E) {
        bool incident = (e.path == (int)k) && ((size_t)e.idx == i || (size_t)((e.idx + 1) % n) == i);
        if (incident) continue;
        if (!dist_ge(v, e.a, e.b, R)) return false;
      }
    }
  for (size_t i = 0; i < E.size(); ++i)
    for (size_t j = i + 1; j < E.size(); ++j) {
      if (!proper_cross(E[i].a, E[i].b, E[j].a, E[j].b)) continue;
      ld x, y; line_isect(E[i].a, E[i].b, E[j].a, E[j].b, x, y);
      for (size_t k = 0; k < E.size(); ++k) {
        if (k == i || k == j) continue;
        ld d = dist_pt_seg_ld(x, y, (ld)E[k].a.x, (ld)E[k].a.y, (ld)E[k].b.x, (ld)E[k].b.y);
        if (d < (ld)R + 1e-6L) return false;
      }
    }
  return true;
}
inline bool general_position(const Paths& all, i64 R = 3, bool closed = true) {
  std::vector<Edge> E = edges_of(all, closed);
  // vertices against edges they are not an end point of
  for (size_t k = 0; k < all.size(); ++k)
    for (size_t i = 0; i < all[k].size(); ++i) {
      const P& v = all[k][i];
      for (auto& e : E) {
        bool incident = (e.path == (int)k) && ((size_t)e.idx == i || (closed ? (size_t)((e.idx + 1) % all[k].size()) == i : (size_t)(e.idx + 1) == i));
        if (incident) continue;
        if (!dist_ge(v, e.a, e.b, R)) return false;
      }
    }
  // proper crossings against all other edges (long double with a conservative margin)
  for (size_t i = 0; i < E.size(); ++i)
    for (size_t j = i + 1; j < E.size(); ++j) {
      if (!proper_cross(E[i].a, E[i].b, E[j].a, E[j].b)) {
        // improper contact between non-adjacent edges is already excluded by the vertex test
        continue;
      }
      ld x, y; line_isect(E[i].a, E[i].b, E[j].a, E[j].b, x, y);
      for (size_t k = 0; k < E.size(); ++k) {
        if (k == i || k == j) continue;
        ld d = dist_pt_seg_ld(x, y, (ld)E[k].a.x, (ld)E[k].a.y, (ld)E[k].b.x, (ld)E[k].b.y);
        if (d < (ld)R + 1e-6L) return false;
      }
    }
  return true;
}

} // namespace vf
