// Common harness machinery: plain geometry types, argument parsing, sharding,
// deadlines, counters, violation records and the JSON result file that
// bin/check merges into /verif/evidence/<id>.json.
// Nothing in here includes a Clipper2 header.
#pragma once
#include <cstdint>
#include <cstdio>
#include <cstdlib>
#include <cstring>
#include <string>
#include <vector>
#include <map>
#include <unordered_set>
#include <algorithm>
#include <chrono>
#include <sstream>
#include <functional>
#include <csignal>
#include <unistd.h>
#include <sys/time.h>

namespace vf {

using i64 = int64_t;
using u64 = uint64_t;
using i128 = __int128;

struct P { i64 x, y; };
inline bool operator==(const P& a, const P& b) { return a.x == b.x && a.y == b.y; }
inline bool operator!=(const P& a, const P& b) { return !(a == b); }
inline bool operator<(const P& a, const P& b) { return a.x != b.x ? a.x < b.x : a.y < b.y; }
using Path = std::vector<P>;
using Paths = std::vector<Path>;

struct PD { double x, y; };
using PathD = std::vector<PD>;
using PathsD = std::vector<PathD>;

// ---------------------------------------------------------------- text forms
inline std::string str(const Path& p) {
  std::string s;
  for (size_t i = 0; i < p.size(); ++i) {
    if (i) s += ' ';
    s += std::to_string(p[i].x) + "," + std::to_string(p[i].y);
  }
  return s;
}
inline std::string str(const Paths& pp) {
  std::string s;
  for (size_t i = 0; i < pp.size(); ++i) { if (i) s += ';'; s += str(pp[i]); }
  return s;
}
// parse "x,y x,y;x,y ..." ; an empty path between ';' is kept
inline Paths parse_paths(const std::string& s) {
  Paths out;
  if (s == "-") return out;          // "-" = no paths at all
  Path cur;
  size_t i = 0, n = s.size();
  auto flush = [&]() { out.push_back(cur); cur.clear(); };
  while (i <= n) {
    if (i == n || s[i] == ';') { flush(); ++i; continue; }
    if (s[i] == ' ') { ++i; continue; }
    char* e; long long x = strtoll(s.c_str() + i, &e, 10);
    i = e - s.c_str(); if (i < n && s[i] == ',') ++i;
    long long y = strtoll(s.c_str() + i, &e, 10);
    i = e - s.c_str();
    cur.push_back({(i64)x, (i64)y});
  }
  return out;
}
inline std::string pstr(const Paths& pp) { return pp.empty() ? std::string("-") : str(pp); }

// "k=v|k=v|..." case strings: complete, order-independent serialisation of a case
struct Case {
  std::map<std::string, std::string> kv;
  Case& set(const std::string& k, const std::string& v) { kv[k] = v; return *this; }
  Case& set(const std::string& k, long long v) { kv[k] = std::to_string(v); return *this; }
  Case& setd(const std::string& k, double v) { char b[64]; snprintf(b, sizeof b, "%.17g", v); kv[k] = b; return *this; }
  Case& set(const std::string& k, const Paths& v) { kv[k] = pstr(v); return *this; }
  std::string s() const {
    std::string r;
    for (auto& e : kv) { if (!r.empty()) r += '|'; r += e.first + "=" + e.second; }
    return r;
  }
  static Case parse(const std::string& s) {
    Case c; size_t i = 0;
    while (i < s.size()) {
      size_t j = s.find('|', i); if (j == std::string::npos) j = s.size();
      std::string t = s.substr(i, j - i); size_t e = t.find('=');
      if (e != std::string::npos) c.kv[t.substr(0, e)] = t.substr(e + 1);
      i = j + 1;
    }
    return c;
  }
  bool has(const std::string& k) const { return kv.count(k) > 0; }
  std::string get(const std::string& k, const std::string& d = "") const { auto it = kv.find(k); return it == kv.end() ? d : it->second; }
  long long geti(const std::string& k, long long d = 0) const { auto it = kv.find(k); return it == kv.end() ? d : atoll(it->second.c_str()); }
  double getd(const std::string& k, double d = 0) const { auto it = kv.find(k); return it == kv.end() ? d : atof(it->second.c_str()); }
  Paths getp(const std::string& k) const { auto it = kv.find(k); return it == kv.end() ? Paths() : parse_paths(it->second); }
};

// ---------------------------------------------------------------- hashing
inline u64 hmix(u64 h, u64 v) { h ^= v + 0x9e3779b97f4a7c15ULL + (h << 6) + (h >> 2); return h * 0xff51afd7ed558ccdULL; }
inline u64 hash_paths(const Paths& pp, u64 h = 1469598103934665603ULL) {
  for (auto& p : pp) { h = hmix(h, 0xABCD + p.size()); for (auto& q : p) { h = hmix(h, (u64)q.x); h = hmix(h, (u64)q.y); } }
  return h;
}
inline u64 hash_str(const std::string& s, u64 h = 1469598103934665603ULL) {
  for (unsigned char c : s) { h ^= c; h *= 1099511628211ULL; }
  return h;
}

// ---------------------------------------------------------------- JSON output
inline std::string jesc(const std::string& s) {
  std::string r = "\"";
  for (unsigned char c : s) {
    if (c == '"' || c == '\\') { r += '\\'; r += (char)c; }
    else if (c == '\n') r += "\\n";
    else if (c < 32) { char b[8]; snprintf(b, sizeof b, "\\u%04x", c); r += b; }
    else r += (char)c;
  }
  return r + "\"";
}

struct Violation { std::string prop, key, tag, detail; };

struct Args {
  std::string tier = "quick", prop, out, replay;
  int shard = 0, nshards = 1;
  double deadline_s = 1e18;
  long long seed = 0;
  std::map<std::string, std::string> extra;
  bool thorough() const { return tier == "thorough"; }
  std::string opt(const std::string& k, const std::string& d = "") const { auto it = extra.find(k); return it == extra.end() ? d : it->second; }
  long long opti(const std::string& k, long long d) const { auto it = extra.find(k); return it == extra.end() ? d : atoll(it->second.c_str()); }
};

inline Args parse_args(int argc, char** argv) {
  Args a;
  for (int i = 1; i < argc; ++i) {
    std::string s = argv[i];
    auto val = [&]() -> std::string { if (i + 1 < argc) return argv[++i]; fprintf(stderr, "missing value for %s\n", s.c_str()); exit(2); };
    if (s == "--tier") a.tier = val();
    else if (s == "--prop") a.prop = val();
    else if (s == "--out") a.out = val();
    else if (s == "--replay") a.replay = val();
    else if (s == "--seed") a.seed = atoll(val().c_str());
    else if (s == "--deadline") a.deadline_s = atof(val().c_str());
    else if (s == "--shard") { std::string v = val(); sscanf(v.c_str(), "%d/%d", &a.shard, &a.nshards); }
    else if (s.rfind("--", 0) == 0) { std::string k = s.substr(2); a.extra[k] = val(); }
    else { fprintf(stderr, "unknown argument %s\n", s.c_str()); exit(2); }
  }
  return a;
}

struct Reporter {
  Args args;
  std::chrono::steady_clock::time_point t0 = std::chrono::steady_clock::now();
  std::map<std::string, u64> ctr;            // summed over shards by the driver
  std::map<std::string, u64> mx;             // max over shards
  std::vector<Violation> viols;              // all (key,tag) kept, detail for the first few
  u64 nviol = 0;
  std::vector<std::string> samples;
  std::unordered_set<u64> outcomes;          // distinct canonical outcomes seen by this shard
  std::vector<std::string> bounds_completed; // e.g. "n=3,m=3"
  std::vector<std::string> notes;
  bool deadline_hit = false;
  bool exhaustive = true;
  // describes the case being executed right now (used by the crash handler to attribute a fatal signal)
  std::function<std::string()> current_case;
  std::string current_prop;

  explicit Reporter(const Args& a) : args(a) {}
  double elapsed() const { return std::chrono::duration<double>(std::chrono::steady_clock::now() - t0).count(); }
  bool out_of_time() {
    if (elapsed() > args.deadline_s) { deadline_hit = true; exhaustive = false; return true; }
    return false;
  }
  void add(const std::string& k, u64 v = 1) { ctr[k] += v; }
  void maxi(const std::string& k, u64 v) { if (mx[k] < v) mx[k] = v; }
  void sample(const std::string& s, size_t cap = 4) { if (samples.size() < cap) samples.push_back(s); }
  void outcome(u64 h) { if (outcomes.size() < 4000000) outcomes.insert(h); }
  // every violation is counted (nviol, viol_<tag>); at most 20000 per (property, tag) are listed per shard so that a
  // flood under one tag can neither hide another tag nor exhaust memory in the driver
  std::map<std::string, u64> listed_per_tag;
  void violation(const std::string& prop, const std::string& key, const std::string& tag, const std::string& detail) {
    ++nviol; ctr["viol_" + prop + "_" + tag]++;
    u64& n = listed_per_tag[prop + "/" + tag];
    if (n < 20000) { ++n; viols.push_back({prop, key, tag, n <= 8 ? detail : std::string()}); }
    else ctr["violations_counted_but_not_listed_" + prop + "_" + tag]++;
  }
  // this shard owns index i of the outermost enumeration?
  bool mine(u64 i) const { return (int)(i % (u64)args.nshards) == args.shard; }

  void write() {
    if (args.out.empty()) return;
    FILE* f = fopen(args.out.c_str(), "w");
    if (!f) { perror("open out"); exit(2); }
    fprintf(f, "{\n \"shard\": %d, \"nshards\": %d, \"tier\": %s, \"prop\": %s,\n", args.shard, args.nshards, jesc(args.tier).c_str(), jesc(args.prop).c_str());
    fprintf(f, " \"wall_s\": %.3f, \"deadline_hit\": %s, \"exhaustive\": %s,\n", elapsed(), deadline_hit ? "true" : "false", exhaustive ? "true" : "false");
    fprintf(f, " \"ctr\": {");
    bool first = true;
    for (auto& e : ctr) { fprintf(f, "%s%s: %llu", first ? "" : ", ", jesc(e.first).c_str(), (unsigned long long)e.second); first = false; }
    fprintf(f, "},\n \"max\": {");
    first = true;
    for (auto& e : mx) { fprintf(f, "%s%s: %llu", first ? "" : ", ", jesc(e.first).c_str(), (unsigned long long)e.second); first = false; }
    fprintf(f, "},\n \"distinct_outcomes\": %llu,\n", (unsigned long long)outcomes.size());
    fprintf(f, " \"samples\": [");
    for (size_t i = 0; i < samples.size(); ++i) fprintf(f, "%s%s", i ? ", " : "", jesc(samples[i]).c_str());
    fprintf(f, "],\n \"bounds_completed\": [");
    for (size_t i = 0; i < bounds_completed.size(); ++i) fprintf(f, "%s%s", i ? ", " : "", jesc(bounds_completed[i]).c_str());
    fprintf(f, "],\n \"notes\": [");
    for (size_t i = 0; i < notes.size(); ++i) fprintf(f, "%s%s", i ? ", " : "", jesc(notes[i]).c_str());
    fprintf(f, "],\n \"nviol\": %llu,\n \"violations\": [\n", (unsigned long long)nviol);
    for (size_t i = 0; i < viols.size(); ++i)
      fprintf(f, "  {\"prop\": %s, \"key\": %s, \"tag\": %s, \"detail\": %s}%s\n", jesc(viols[i].prop).c_str(), jesc(viols[i].key).c_str(),
              jesc(viols[i].tag).c_str(), jesc(viols[i].detail).c_str(), i + 1 < viols.size() ? "," : "");
    fprintf(f, " ]\n}\n");
    fclose(f);
  }
};

// A fatal signal inside the library is attributed to the case that was running, recorded as a
// violation (tag "crash_<signal>") and the partial report is written; the shard then stops
// (exhaustive=false). Not async-signal-safe in the strict sense, but the process is lost anyway.
inline Reporter*& crash_reporter() { static Reporter* r = nullptr; return r; }
inline void crash_handler(int sig) {
  static volatile sig_atomic_t busy = 0;
  if (busy) _exit(3);
  busy = 1;
  Reporter* r = crash_reporter();
  if (r) {
    std::string key = r->current_case ? r->current_case() : std::string("unknown");
    r->exhaustive = false;
    r->violation(r->current_prop.empty() ? r->args.prop : r->current_prop, key, "crash_signal_" + std::to_string(sig), "fatal signal " + std::to_string(sig) + " while executing this case");
    if (!r->args.replay.empty()) { fprintf(stderr, "fatal signal %d in case %s\n", sig, key.c_str()); _exit(1); }
    r->write();
  }
  _exit(0);
}
// per-case CPU-time watchdog: a case that burns more than `seconds` of CPU time raises SIGVTALRM, which the crash handler
// attributes to the running case (tag crash_signal_26 = hang). Re-arm before every case; arm_watchdog(0) disarms.
inline void arm_watchdog(double seconds) {
  struct itimerval it; memset(&it, 0, sizeof it);
  it.it_value.tv_sec = (time_t)seconds; it.it_value.tv_usec = (suseconds_t)((seconds - (time_t)seconds) * 1e6);
  setitimer(ITIMER_VIRTUAL, &it, nullptr);
}
inline void install_crash_handler(Reporter& r) {
  crash_reporter() = &r;
  static char altstack[1 << 16];
  stack_t ss; ss.ss_sp = altstack; ss.ss_size = sizeof altstack; ss.ss_flags = 0; sigaltstack(&ss, nullptr);
  struct sigaction sa; memset(&sa, 0, sizeof sa); sa.sa_handler = crash_handler; sa.sa_flags = SA_ONSTACK;
  for (int s : {SIGSEGV, SIGBUS, SIGFPE, SIGILL, SIGABRT, SIGVTALRM}) sigaction(s, &sa, nullptr);
}

// ---------------------------------------------------------------- canonical forms
// rotate a closed path so that its lexicographically smallest vertex comes first
inline Path canon_closed(const Path& p) {
  if (p.empty()) return p;
  size_t best = 0;
  for (size_t i = 1; i < p.size(); ++i) {
    // compare rotation i with rotation best
    bool less = false, decided = false;
    for (size_t k = 0; k < p.size() && !decided; ++k) {
      const P& a = p[(i + k) % p.size()]; const P& b = p[(best + k) % p.size()];
      if (a < b) { less = true; decided = true; } else if (b < a) { decided = true; }
    }
    if (less) best = i;
  }
  Path r(p.size());
  for (size_t k = 0; k < p.size(); ++k) r[k] = p[(best + k) % p.size()];
  return r;
}
inline bool path_less(const Path& a, const Path& b) { return std::lexicographical_compare(a.begin(), a.end(), b.begin(), b.end()); }
inline Paths canon_closed(const Paths& pp) {
  Paths r; r.reserve(pp.size());
  for (auto& p : pp) r.push_back(canon_closed(p));
  std::sort(r.begin(), r.end(), path_less);
  return r;
}
// open paths: direction kept (dirfree=false) or normalised (dirfree=true)
inline Paths canon_open(const Paths& pp, bool dirfree) {
  Paths r = pp;
  if (dirfree) for (auto& p : r) { Path q(p.rbegin(), p.rend()); if (path_less(q, p)) p = q; }
  std::sort(r.begin(), r.end(), path_less);
  return r;
}
inline Path reversed(const Path& p) { return Path(p.rbegin(), p.rend()); }
inline Paths reversed(const Paths& pp) { Paths r; for (auto& p : pp) r.push_back(reversed(p)); return r; }

// exact twice-signed-area (shoelace) in 128 bits; valid for |coords| < 2^62 and modest vertex counts
inline i128 area2(const Path& p) {
  i128 a = 0; size_t n = p.size();
  for (size_t i = 0; i < n; ++i) { const P& u = p[i]; const P& v = p[(i + 1) % n]; a += (i128)u.x * v.y - (i128)v.x * u.y; }
  return a;
}
inline i128 area2(const Paths& pp) { i128 a = 0; for (auto& p : pp) a += area2(p); return a; }

inline std::string i128str(i128 v) {
  if (v == 0) return "0";
  bool neg = v < 0; unsigned __int128 u = neg ? (unsigned __int128)(-(v + 1)) + 1 : (unsigned __int128)v;
  std::string s; while (u) { s += char('0' + (int)(u % 10)); u /= 10; }
  if (neg) s += '-';
  std::reverse(s.begin(), s.end()); return s;
}

} // namespace vf
