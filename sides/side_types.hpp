// Plain result types shared by all library configurations (no Clipper2 types).
#pragma once
#include "../engine/common.hpp"
namespace vf {
struct BoolOut { bool ok = false; Paths closed, open; };
struct TNode { Path poly; std::vector<TNode> kids; bool is_hole = false; unsigned level = 0; };
struct TreeOut { bool ok = false; TNode root; Paths open; Paths flat; double area = 0; };
}
