// Declarations of the per-configuration entry points exported by sides/side.cpp.
// VF_SIDE(name) declares   vf::BoolOut vf::side_<name>_boolop(...)   etc.
#pragma once
#include "side_types.hpp"
#define VF_SIDE(NAME)                                                                                                         \
  namespace vf {                                                                                                              \
  BoolOut side_##NAME##_boolop(int ct, int fr, const Paths& subj, const Paths& clip, const Paths& open, bool pc, bool rs);     \
  TreeOut side_##NAME##_boolop_tree(int ct, int fr, const Paths& subj, const Paths& clip, const Paths& open, bool pc, bool rs); \
  }
