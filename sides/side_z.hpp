// Entry points of the USINGZ library copy (namespace Clipper2Lib_z), over plain types carrying a z label.
#pragma once
#include "../engine/common.hpp"
namespace vf {
struct PZ { i64 x, y, z; };
using PathZ = std::vector<PZ>; using PathsZ = std::vector<PathZ>;
struct ZLog { i64 x, y, z; };               // a point handed to the Z callback and the label the callback assigned
// per-vertex width used by both builds in the delta-callback runs: mode 1 negative at the first vertex, 2 negative at the last, 3 alternating taper
inline double offset_cb_width(double delta, int mode, size_t curr, size_t n) { if (mode == 1) return curr == 0 ? -delta : delta; if (mode == 2) return curr + 1 == n ? -delta : delta; return delta * (double)(1 + curr % 2) / 2.0; }
struct ZOut { bool ok = true; PathsZ closed, open; std::vector<ZLog> log; };
// cb: 0 = no callback, 1 = callback that assigns fresh negative labels (-1, -2, ...) and logs the point
ZOut z_boolop(int ct, int fr, const PathsZ& S, const PathsZ& C, const PathsZ& O, bool pc, bool rs, int cb, bool tree);
ZOut z_offset(const PathsZ& in, double delta, int jt, int et, double ml, double arc, bool rs, int cb);
ZOut z_offset_cb(const PathsZ& in, double delta, int jt, int et, double ml, double arc, int mode);   // Execute(DeltaCallback64): per-vertex widths, see offset_cb_width
ZOut z_rectclip(i64 l, i64 t, i64 r, i64 b, const PathsZ& in, bool lines);
ZOut z_boolopD(int ct, int fr, const PathsZ& S, const PathsZ& C, int precision, int cb);   // ClipperD, coordinates /4
// ClipperD history: Execute with a callback installed, SetZCallback(nullptr), Execute again; returns the SECOND result (log = callback calls of the
// second run, which must be none); ok=false and an empty result when an exception escaped
ZOut z_boolopD_callback_removed(int ct, int fr, const PathsZ& S, const PathsZ& C, int precision);
// same for Clipper64: callback installed for the first Execute, removed for the second
ZOut z_boolop_callback_removed(int ct, int fr, const PathsZ& S, const PathsZ& C);
}
