// One copy of this TU is compiled per library configuration (-DSIDE=<name> plus the
// configuration's -DClipper2Lib=... / -DVFC_NS=... flags). It exposes the operations of
// that copy over plain harness types, so no Clipper2 type crosses a configuration boundary.
#include "clipper2/clipper.h"
#include "clip_api.hpp"
#include "side.hpp"
#define VF_CAT3(a, b, c) a##b##c
#define VF_FN(side, f) VF_CAT3(side_, side, f)
#define VF_FN2(side, f) VF_FN(side, f)
namespace vf {
BoolOut VF_FN2(SIDE, _boolop)(int ct, int fr, const Paths& subj, const Paths& clip, const Paths& open, bool pc, bool rs) {
  return VFC_NS::boolop(ct, fr, subj, clip, open, pc, rs);
}
TreeOut VF_FN2(SIDE, _boolop_tree)(int ct, int fr, const Paths& subj, const Paths& clip, const Paths& open, bool pc, bool rs) {
  return VFC_NS::boolop_tree(ct, fr, subj, clip, open, pc, rs);
}
}
