// Adapter between harness-owned plain types (vf::Path) and Clipper2 types.
// Include AFTER "clipper2/clipper.h". When the TU is compiled with
// -DClipper2Lib=Clipper2Lib_XX every name below resolves into that copy.
#pragma once
#include "../engine/common.hpp"
#include "side_types.hpp"

// VFC_NS must differ between library copies linked into one binary (inline functions below
// have config-specific bodies; a shared name would be an ODR clash).
#ifndef VFC_NS
#define VFC_NS vfc
#endif

namespace VFC_NS {
using namespace Clipper2Lib;
using vf::BoolOut; using vf::TNode; using vf::TreeOut;

inline Path64 to64(const vf::Path& p) { Path64 r; r.reserve(p.size()); for (auto& q : p) r.emplace_back(q.x, q.y); return r; }
inline Paths64 to64(const vf::Paths& pp) { Paths64 r; r.reserve(pp.size()); for (auto& p : pp) r.push_back(to64(p)); return r; }
inline vf::Path from64(const Path64& p) { vf::Path r; r.reserve(p.size()); for (auto& q : p) r.push_back({q.x, q.y}); return r; }
inline vf::Paths from64(const Paths64& pp) { vf::Paths r; r.reserve(pp.size()); for (auto& p : pp) r.push_back(from64(p)); return r; }
inline PathD toD(const vf::PathD& p) { PathD r; r.reserve(p.size()); for (auto& q : p) r.emplace_back(q.x, q.y); return r; }
inline PathsD toD(const vf::PathsD& pp) { PathsD r; r.reserve(pp.size()); for (auto& p : pp) r.push_back(toD(p)); return r; }
inline vf::PathD fromD(const PathD& p) { vf::PathD r; r.reserve(p.size()); for (auto& q : p) r.push_back({q.x, q.y}); return r; }
inline vf::PathsD fromD(const PathsD& pp) { vf::PathsD r; r.reserve(pp.size()); for (auto& p : pp) r.push_back(fromD(p)); return r; }

inline BoolOut boolop(int ct, int fr, const vf::Paths& subj, const vf::Paths& clip, const vf::Paths& open, bool pc = true, bool rs = false) {
  BoolOut o;
  Clipper64 c;
  c.PreserveCollinear(pc); c.ReverseSolution(rs);
  if (!subj.empty()) c.AddSubject(to64(subj));
  if (!open.empty()) c.AddOpenSubject(to64(open));
  if (!clip.empty()) c.AddClip(to64(clip));
  Paths64 sc, so;
  o.ok = c.Execute((ClipType)ct, (FillRule)fr, sc, so);
  o.closed = from64(sc); o.open = from64(so);
  return o;
}

// same operation with every closed path handed over through a ReuseableDataContainer64 (the second way of loading a Clipper64)
inline BoolOut boolop_reuse(int ct, int fr, const vf::Paths& subj, const vf::Paths& clip, bool pc = true, bool rs = false) {
  BoolOut o;
  ReuseableDataContainer64 rd;
  if (!subj.empty()) rd.AddPaths(to64(subj), PathType::Subject, false);
  if (!clip.empty()) rd.AddPaths(to64(clip), PathType::Clip, false);
  Clipper64 c;
  c.PreserveCollinear(pc); c.ReverseSolution(rs);
  c.AddReuseableData(rd);
  Paths64 sc, so;
  o.ok = c.Execute((ClipType)ct, (FillRule)fr, sc, so);
  o.closed = from64(sc); o.open = from64(so);
  return o;
}

inline void copy_tree(const PolyPath64& pp, TNode& n) {
  n.poly = from64(pp.Polygon()); n.is_hole = pp.IsHole(); n.level = pp.Level();
  n.kids.resize(pp.Count());
  for (size_t i = 0; i < pp.Count(); ++i) copy_tree(*pp.Child(i), n.kids[i]);
}
inline TreeOut boolop_tree(int ct, int fr, const vf::Paths& subj, const vf::Paths& clip, const vf::Paths& open, bool pc = true, bool rs = false) {
  TreeOut o;
  Clipper64 c;
  c.PreserveCollinear(pc); c.ReverseSolution(rs);
  if (!subj.empty()) c.AddSubject(to64(subj));
  if (!open.empty()) c.AddOpenSubject(to64(open));
  if (!clip.empty()) c.AddClip(to64(clip));
  PolyTree64 t; Paths64 so;
  o.ok = c.Execute((ClipType)ct, (FillRule)fr, t, so);
  copy_tree(t, o.root);
  o.open = from64(so);
  o.flat = from64(PolyTreeToPaths64(t));
  o.area = t.Area();
  return o;
}

} // namespace VFC_NS
