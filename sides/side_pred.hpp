// Per-configuration entry points to the header-only predicates of clipper.core.h (C18).
// sides/side_pred.cpp is compiled once per library configuration (-DSIDE=<name> plus that
// configuration's flags); VF_PRED_SIDE(name) declares what that copy exports. Only plain
// harness types cross the boundary (no Clipper2 type), so the copies can be linked together.
#pragma once
#include "../engine/common.hpp"

#define VF_PRED_SIDE(NAME)                                                                                   \
  namespace vf {                                                                                             \
  /* bit 0: portable Multiply branch compiled; bit 1: CLIPPER2_HI_PRECISION; (self-report of the TU) */      \
  int pred_##NAME##_config();                                                                                \
  void pred_##NAME##_multiply(u64 a, u64 b, u64* lo, u64* hi);                                               \
  bool pred_##NAME##_products_equal(i64 a, i64 b, i64 c, i64 d);                                             \
  int pred_##NAME##_cross_sign(i64 x1, i64 y1, i64 x2, i64 y2, i64 x3, i64 y3);                              \
  bool pred_##NAME##_is_collinear(i64 x1, i64 y1, i64 x2, i64 y2, i64 x3, i64 y3);                           \
  /* result per point: 0 IsOn, 1 IsInside, 2 IsOutside */                                                    \
  void pred_##NAME##_point_in_polygon(const Path& poly, const P* pts, size_t npts, signed char* out);        \
  bool pred_##NAME##_seg_isect(P a, P b, P c, P d, P* ip);                                                   \
  double pred_##NAME##_area(const Path& poly);                                                               \
  }
