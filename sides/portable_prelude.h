// Force-included (-include) into every TU of the "port" library copy: makes the
// `UINTPTR_MAX >= UINT64_MAX` test in clipper.core.h fail so that the portable
// 64x64 Multiply branch of ProductsAreEqual / CrossProductSign is compiled,
// exactly as it is for compilers without __int128. Standard headers are pulled in
// first so that they see the genuine value.
#include <cstdint>
#include <cstddef>
#include <cstdlib>
#include <cmath>
#include <climits>
#include <vector>
#include <string>
#include <iostream>
#include <algorithm>
#include <numeric>
#include <queue>
#include <functional>
#include <memory>
#include <optional>
#include <deque>
#include <type_traits>
#undef UINTPTR_MAX
#define UINTPTR_MAX 0xFFFFFFFFu
