#include <functional>
// Compiled with the "z" configuration (-DUSINGZ, namespace Clipper2Lib_z).
#include "clipper2/clipper.h"
#include "side_z.hpp"
#ifndef USINGZ
#error "side_z.cpp must be compiled with USINGZ"
#endif
namespace CZ = Clipper2Lib;
namespace vf {
static CZ::Path64 toz(const PathZ& p) { CZ::Path64 r; r.reserve(p.size()); for (auto& q : p) r.emplace_back(q.x, q.y, q.z); return r; }
static CZ::Paths64 toz(const PathsZ& pp) { CZ::Paths64 r; for (auto& p : pp) r.push_back(toz(p)); return r; }
static PathsZ fromz(const CZ::Paths64& pp) { PathsZ r; for (auto& p : pp) { PathZ q; for (auto& v : p) q.push_back({v.x, v.y, v.z}); r.push_back(q); } return r; }
static void flat(const CZ::PolyPath64& n, CZ::Paths64& out) { for (auto& c : n) { out.push_back(c->Polygon()); flat(*c, out); } }

ZOut z_boolop(int ct, int fr, const PathsZ& S, const PathsZ& C, const PathsZ& O, bool pc, bool rs, int cb, bool tree) {
  ZOut o; i64 next = -1;
  CZ::Clipper64 c; c.PreserveCollinear(pc); c.ReverseSolution(rs);
  if (cb) c.SetZCallback([&](const CZ::Point64&, const CZ::Point64&, const CZ::Point64&, const CZ::Point64&, CZ::Point64& pt) { pt.z = next; o.log.push_back({pt.x, pt.y, next}); --next; });
  if (!S.empty()) c.AddSubject(toz(S)); if (!O.empty()) c.AddOpenSubject(toz(O)); if (!C.empty()) c.AddClip(toz(C));
  CZ::Paths64 sc, so;
  if (tree) { CZ::PolyTree64 t; o.ok = c.Execute((CZ::ClipType)ct, (CZ::FillRule)fr, t, so); flat(t, sc); }
  else o.ok = c.Execute((CZ::ClipType)ct, (CZ::FillRule)fr, sc, so);
  o.closed = fromz(sc); o.open = fromz(so);
  return o;
}
ZOut z_offset(const PathsZ& in, double delta, int jt, int et, double ml, double arc, bool rs, int cb) {
  ZOut o; i64 next = -1;
  CZ::ClipperOffset co(ml, arc, false, rs);
  if (cb) co.SetZCallback([&](const CZ::Point64&, const CZ::Point64&, const CZ::Point64&, const CZ::Point64&, CZ::Point64& pt) { pt.z = next; o.log.push_back({pt.x, pt.y, next}); --next; });
  co.AddPaths(toz(in), (CZ::JoinType)jt, (CZ::EndType)et);
  CZ::Paths64 s; co.Execute(delta, s); o.closed = fromz(s);
  return o;
}
ZOut z_offset_cb(const PathsZ& in, double delta, int jt, int et, double ml, double arc, int mode) {
  ZOut o;
  CZ::ClipperOffset co(ml, arc, false, false);
  co.AddPaths(toz(in), (CZ::JoinType)jt, (CZ::EndType)et);
  CZ::Paths64 s; co.Execute([&](const CZ::Path64& path, const CZ::PathD&, size_t curr, size_t) { return offset_cb_width(delta, mode, curr, path.size()); }, s); o.closed = fromz(s);
  return o;
}
ZOut z_rectclip(i64 l, i64 t, i64 r, i64 b, const PathsZ& in, bool lines) {
  ZOut o; CZ::Rect64 rc(l, t, r, b);
  CZ::Paths64 s = lines ? CZ::RectClipLines(rc, toz(in)) : CZ::RectClip(rc, toz(in));
  (lines ? o.open : o.closed) = fromz(s);
  return o;
}
ZOut z_boolopD(int ct, int fr, const PathsZ& S, const PathsZ& C, int precision, int cb) {
  ZOut o; i64 next = -1;
  auto tod = [](const PathsZ& pp) { CZ::PathsD r; for (auto& p : pp) { CZ::PathD q; for (auto& v : p) q.emplace_back((double)v.x / 4.0, (double)v.y / 4.0, v.z); r.push_back(q); } return r; };
  CZ::ClipperD c(precision);
  double scale = std::pow(2.0, std::ilogb(std::pow(10, precision)) + 1);
  if (cb) c.SetZCallback([&](const CZ::PointD&, const CZ::PointD&, const CZ::PointD&, const CZ::PointD&, CZ::PointD& pt) { pt.z = next; o.log.push_back({(i64)std::llround(pt.x * scale), (i64)std::llround(pt.y * scale), next}); --next; });
  if (!S.empty()) c.AddSubject(tod(S)); if (!C.empty()) c.AddClip(tod(C));
  CZ::PathsD sc, so;
  if (cb == 2) {   // into a PolyTreeD: the polygons stored in the tree nodes carry the Z values too
    CZ::PolyTreeD t; o.ok = c.Execute((CZ::ClipType)ct, (CZ::FillRule)fr, t, so);
    std::function<void(const CZ::PolyPathD&)> walk = [&](const CZ::PolyPathD& n) { for (auto& ch : n) { sc.push_back(ch->Polygon()); walk(*ch); } };
    walk(t);
  } else o.ok = c.Execute((CZ::ClipType)ct, (CZ::FillRule)fr, sc, so);
  for (auto& p : sc) { PathZ q; for (auto& v : p) q.push_back({(i64)std::llround(v.x * scale), (i64)std::llround(v.y * scale), v.z}); o.closed.push_back(q); }
  return o;
}
ZOut z_boolopD_callback_removed(int ct, int fr, const PathsZ& S, const PathsZ& C, int precision) {
  ZOut o; i64 next = -1;
  auto tod = [](const PathsZ& pp) { CZ::PathsD r; for (auto& p : pp) { CZ::PathD q; for (auto& v : p) q.emplace_back((double)v.x / 4.0, (double)v.y / 4.0, v.z); r.push_back(q); } return r; };
  double scale = std::pow(2.0, std::ilogb(std::pow(10, precision)) + 1);
  try {
    CZ::ClipperD c(precision);
    c.SetZCallback([&](const CZ::PointD&, const CZ::PointD&, const CZ::PointD&, const CZ::PointD&, CZ::PointD& pt) { pt.z = next; --next; });
    if (!S.empty()) c.AddSubject(tod(S)); if (!C.empty()) c.AddClip(tod(C));
    CZ::PathsD sc, so; c.Execute((CZ::ClipType)ct, (CZ::FillRule)fr, sc, so);
    c.SetZCallback(nullptr);
    i64 calls_before = next;
    o.ok = c.Execute((CZ::ClipType)ct, (CZ::FillRule)fr, sc, so);
    if (next != calls_before) o.log.push_back({0, 0, next});
    for (auto& p : sc) { PathZ q; for (auto& v : p) q.push_back({(i64)std::llround(v.x * scale), (i64)std::llround(v.y * scale), v.z}); o.closed.push_back(q); }
  } catch (...) { o.ok = false; o.closed.clear(); o.log.push_back({-1, -1, 0}); }
  return o;
}
ZOut z_boolop_callback_removed(int ct, int fr, const PathsZ& S, const PathsZ& C) {
  ZOut o; i64 next = -1;
  try {
    CZ::Clipper64 c;
    c.SetZCallback([&](const CZ::Point64&, const CZ::Point64&, const CZ::Point64&, const CZ::Point64&, CZ::Point64& pt) { pt.z = next; --next; });
    if (!S.empty()) c.AddSubject(toz(S)); if (!C.empty()) c.AddClip(toz(C));
    CZ::Paths64 sc, so; c.Execute((CZ::ClipType)ct, (CZ::FillRule)fr, sc, so);
    c.SetZCallback(nullptr);
    i64 calls_before = next;
    o.ok = c.Execute((CZ::ClipType)ct, (CZ::FillRule)fr, sc, so);
    if (next != calls_before) o.log.push_back({0, 0, next});
    o.closed = fromz(sc);
  } catch (...) { o.ok = false; o.closed.clear(); o.log.push_back({-1, -1, 0}); }
  return o;
}
}
