// One copy of this TU is compiled per library configuration (-DSIDE=<name> plus the
// configuration's -DClipper2Lib=... flags; the "port" copy is force-preluded with
// sides/portable_prelude.h). It instantiates the header-only predicates of clipper.core.h
// inside that configuration's (renamed) Clipper2Lib namespace and exports them over plain
// types under configuration-specific function names, so there is no ODR clash.
#include "clipper2/clipper.core.h"
#include "side_pred.hpp"

#ifndef SIDE
#error "compile with -DSIDE=<configuration name>"
#endif
#define VFP_CAT3(a, b, c) a##b##c
#define VFP_FN(side, f) VFP_CAT3(pred_, side, f)
#define VFP_FN2(side, f) VFP_FN(side, f)

namespace vf {

int VFP_FN2(SIDE, _config)() {
  int r = 0;
  // the very condition clipper.core.h uses to choose between __int128 and Multiply()
#if (defined(__clang__) || defined(__GNUC__)) && UINTPTR_MAX >= UINT64_MAX
#else
  r |= 1;
#endif
#if CLIPPER2_HI_PRECISION
  r |= 2;
#endif
  return r;
}

void VFP_FN2(SIDE, _multiply)(u64 a, u64 b, u64* lo, u64* hi) {
  Clipper2Lib::UInt128Struct r = Clipper2Lib::Multiply(a, b);
  *lo = r.lo; *hi = r.hi;
}

bool VFP_FN2(SIDE, _products_equal)(i64 a, i64 b, i64 c, i64 d) { return Clipper2Lib::ProductsAreEqual(a, b, c, d); }

int VFP_FN2(SIDE, _cross_sign)(i64 x1, i64 y1, i64 x2, i64 y2, i64 x3, i64 y3) {
  return Clipper2Lib::CrossProductSign(Clipper2Lib::Point64(x1, y1), Clipper2Lib::Point64(x2, y2), Clipper2Lib::Point64(x3, y3));
}

bool VFP_FN2(SIDE, _is_collinear)(i64 x1, i64 y1, i64 x2, i64 y2, i64 x3, i64 y3) {
  return Clipper2Lib::IsCollinear(Clipper2Lib::Point64(x1, y1), Clipper2Lib::Point64(x2, y2), Clipper2Lib::Point64(x3, y3));
}

void VFP_FN2(SIDE, _point_in_polygon)(const Path& poly, const P* pts, size_t npts, signed char* out) {
  Clipper2Lib::Path64 p; p.reserve(poly.size());
  for (const P& q : poly) p.emplace_back(q.x, q.y);
  for (size_t i = 0; i < npts; ++i) {
    Clipper2Lib::PointInPolygonResult r = Clipper2Lib::PointInPolygon(Clipper2Lib::Point64(pts[i].x, pts[i].y), p);
    out[i] = r == Clipper2Lib::PointInPolygonResult::IsOn ? 0 : r == Clipper2Lib::PointInPolygonResult::IsInside ? 1 : 2;
  }
}

bool VFP_FN2(SIDE, _seg_isect)(P a, P b, P c, P d, P* ip) {
  Clipper2Lib::Point64 r(0, 0);
  bool ok = Clipper2Lib::GetSegmentIntersectPt(Clipper2Lib::Point64(a.x, a.y), Clipper2Lib::Point64(b.x, b.y), Clipper2Lib::Point64(c.x, c.y), Clipper2Lib::Point64(d.x, d.y), r);
  ip->x = r.x; ip->y = r.y;
  return ok;
}

double VFP_FN2(SIDE, _area)(const Path& poly) {
  Clipper2Lib::Path64 p; p.reserve(poly.size());
  for (const P& q : poly) p.emplace_back(q.x, q.y);
  return Clipper2Lib::Area(p);
}

} // namespace vf
