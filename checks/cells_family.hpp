// The "cells" family of rectilinear inputs shared by the C02/C03 (rectil.cpp) and C04 (polytree.cpp) harnesses.
#pragma once
#include "engine/common.hpp"
namespace vf {
// ---------------------------------------------------------------- cells family
// a closed ring of cells round a w x h grid plus a subset (code) of the interior cells, given as rectangles in one of six
// decompositions (0 unit cells / 1 maximal row runs / 2 maximal column runs / 3 ring as four bars + interior row runs / 4, 5 overlapping row AND column runs): all
// contacts are edge or corner contacts, i.e. polygons merged and holes closed through horizontal joins, islands in holes
inline Path cell_rect(int x0, int y0, int x1, int y1) { const i64 st = 4; return Path{{x0 * st, y0 * st}, {x1 * st, y0 * st}, {x1 * st, y1 * st}, {x0 * st, y1 * st}}; }
inline Paths cells_shape(int w, int h, u64 code, int decomp) {
  int iw = w - 2, nin = iw * (h - 2);
  std::vector<std::vector<char>> g(h, std::vector<char>(w, 0));
  for (int y = 0; y < h; ++y) for (int x = 0; x < w; ++x) if (x == 0 || y == 0 || x == w - 1 || y == h - 1) g[y][x] = 1;
  for (int k = 0; k < nin; ++k) if (code >> k & 1) g[1 + k / iw][1 + k % iw] = 1;
  Paths S; auto R = cell_rect;
  if (decomp == 0) { for (int y = 0; y < h; ++y) for (int x = 0; x < w; ++x) if (g[y][x]) S.push_back(R(x, y, x + 1, y + 1)); }
  else if (decomp == 1) { for (int y = 0; y < h; ++y) for (int x = 0; x < w;) { if (!g[y][x]) { ++x; continue; } int x1 = x; while (x1 < w && g[y][x1]) ++x1; S.push_back(R(x, y, x1, y + 1)); x = x1; } }
  else if (decomp == 2) { for (int x = 0; x < w; ++x) for (int y = 0; y < h;) { if (!g[y][x]) { ++y; continue; } int y1 = y; while (y1 < h && g[y1][x]) ++y1; S.push_back(R(x, y, x + 1, y1)); y = y1; } }
  else if (decomp == 3) { S.push_back(R(0, 0, w, 1)); S.push_back(R(0, h - 1, w, h)); S.push_back(R(0, 1, 1, h - 1)); S.push_back(R(w - 1, 1, w, h - 1));
    for (int y = 1; y < h - 1; ++y) for (int x = 1; x < w - 1;) { if (!g[y][x]) { ++x; continue; } int x1 = x; while (x1 < w - 1 && g[y][x1]) ++x1; S.push_back(R(x, y, x1, y + 1)); x = x1; } }
  else if (decomp >= 10) {
    // 10 + cc (cc in 0..80, base-3 digits TL,TR,BR,BL) / 100 + cc: the ring as four bars whose corners are each covered by both bars (0),
    // by the horizontal bar only (1) or by the vertical bar only (2); interior as unit cells (10+cc) or as maximal column runs (100+cc)
    int cc = decomp >= 100 ? decomp - 100 : decomp - 10; int TL = cc / 27 % 3, TR = cc / 9 % 3, BR = cc / 3 % 3, BL = cc % 3;
    int top[4] = {0, 0, w, 1}, bot[4] = {0, h - 1, w, h}, left[4] = {0, 0, 1, h}, right[4] = {w - 1, 0, w, h};
    if (TL == 1) left[1] = 1; if (TL == 2) top[0] = 1;
    if (TR == 1) right[1] = 1; if (TR == 2) top[2] = w - 1;
    if (BR == 1) right[3] = h - 1; if (BR == 2) bot[2] = w - 1;
    if (BL == 1) left[3] = h - 1; if (BL == 2) bot[0] = 1;
    if (decomp < 100) { for (int y = 1; y < h - 1; ++y) for (int x = 1; x < w - 1; ++x) if (g[y][x]) S.push_back(R(x, y, x + 1, y + 1)); }
    else { for (int x = 1; x < w - 1; ++x) for (int y = 1; y < h - 1;) { if (!g[y][x]) { ++y; continue; } int y1 = y; while (y1 < h - 1 && g[y1][x]) ++y1; S.push_back(R(x, y, x + 1, y1)); y = y1; } }
    S.push_back(R(top[0], top[1], top[2], top[3])); S.push_back(R(bot[0], bot[1], bot[2], bot[3])); S.push_back(R(left[0], left[1], left[2], left[3])); S.push_back(R(right[0], right[1], right[2], right[3]));
  }
  else if (decomp >= 6) {
    // 6..9: interior unit cells + a frame of four CROSSING bars drawn one cell outside the grid coordinates used above (the ring row/column
    // itself): "hash" frames (all bars protrude one cell at both ends: 6 cells first, 7 bars first) and "pinwheel" frames (each bar protrudes
    // at one end and abuts the next bar at the other: 8 cells first, 9 bars first)
    Paths cellsP, bars;
    for (int y = 1; y < h - 1; ++y) for (int x = 1; x < w - 1; ++x) if (g[y][x]) cellsP.push_back(R(x, y, x + 1, y + 1));
    if (decomp <= 7) { bars = {R(-1, 0, w + 1, 1), R(-1, h - 1, w + 1, h), R(0, -1, 1, h + 1), R(w - 1, -1, w, h + 1)}; }
    else { bars = {R(-1, 0, w - 1, 1), R(w - 1, -1, w, h - 1), R(1, h - 1, w + 1, h), R(0, 1, 1, h + 1)}; }
    if (decomp % 2 == 0) { S = cellsP; S.insert(S.end(), bars.begin(), bars.end()); } else { S = bars; S.insert(S.end(), cellsP.begin(), cellsP.end()); }
  }
  else {  // 4 / 5: OVERLAPPING bars: every maximal row run AND every maximal column run (each cell covered twice), rows first (4) or columns first (5)
    Paths rows = cells_shape(w, h, code, 1), cols = cells_shape(w, h, code, 2);
    S = decomp == 4 ? rows : cols; const Paths& other = decomp == 4 ? cols : rows; S.insert(S.end(), other.begin(), other.end()); }
  return S;
}

// number of decompositions enumerated per interior code: the ten basic ones, or the 81 four-bar frames (x unit cells / column runs)
inline std::vector<int> cells_decomps(bool frames, u64 code, int iw) {
  std::vector<int> d;
  if (!frames) { for (int k = 0; k < 10; ++k) d.push_back(k); return d; }
  for (int cc = 0; cc < 81; ++cc) { d.push_back(10 + cc); if (code & (code >> iw)) d.push_back(100 + cc); }   // column runs differ from unit cells only when two interior cells are stacked
  return d;
}
} // namespace vf
