// C15: USINGZ builds compute the same geometry and account for every Z.
// The plain library (namespace Clipper2Lib) and the USINGZ library (namespace Clipper2Lib_z) are linked
// into this one binary. Geometry part: x,y of every result must be bit-identical between the builds
// under three Z regimes (all zero; unique labels; unique labels + callback) for boolean clipping
// (closed, open, tree, ClipperD), offsetting and rectangle clipping. Z part (boolean clipping, general
// position): with a callback every solution vertex carries either the label of an input vertex at
// exactly that position or a label the callback assigned for exactly that position; without a callback
// vertices that are not input vertices carry the default Z (0).
#include <array>
#include "clipper2/clipper.h"
#include "sides/clip_api.hpp"
#include "sides/side_z.hpp"
#include "checks/gp_scopes.hpp"
#include "checks/offset_oracle.hpp"

using namespace vf;
namespace CL = Clipper2Lib;

static PathsZ label(const Paths& pp, i64 first, bool zero) { PathsZ r; i64 z = first; for (auto& p : pp) { PathZ q; for (auto& v : p) q.push_back({v.x, v.y, zero ? 0 : z++}); r.push_back(q); } return r; }
static Paths xy(const PathsZ& pp) { Paths r; for (auto& p : pp) { Path q; for (auto& v : p) q.push_back({v.x, v.y}); r.push_back(q); } return r; }
static std::string zstr(const PathsZ& pp) { std::string s; for (auto& p : pp) { s += "("; for (auto& v : p) s += std::to_string(v.x) + "," + std::to_string(v.y) + "," + std::to_string(v.z) + " "; s += ")"; } return s; }

// Z accounting for one result. inputs: all labelled input paths.
static std::string judge_z(const PathsZ& inputs, const ZOut& o, bool cb) {
  for (const PathsZ* sol : {&o.closed, &o.open})
    for (auto& p : *sol) for (auto& v : p) {
      bool at_input = false, label_ok = false;
      for (auto& ip : inputs) for (auto& iv : ip) if (iv.x == v.x && iv.y == v.y) { at_input = true; if (iv.z == v.z) label_ok = true; }
      if (v.z > 0) { if (!label_ok) return "z_label_not_from_this_location: vertex " + std::to_string(v.x) + "," + std::to_string(v.y) + " carries z=" + std::to_string(v.z); continue; }
      if (v.z < 0) {
        bool logged = false; for (auto& l : o.log) if (l.z == v.z && l.x == v.x && l.y == v.y) logged = true;
        if (!logged) return "z_callback_label_at_other_point: vertex " + std::to_string(v.x) + "," + std::to_string(v.y) + " carries z=" + std::to_string(v.z) + " which the callback assigned elsewhere (or never)";
        continue;
      }
      // z == 0 (default)
      if (cb) return std::string(at_input ? "z_input_label_lost" : "z_new_vertex_not_passed_to_callback") + ": vertex " + std::to_string(v.x) + "," + std::to_string(v.y) + " carries the default z although a callback is installed";
      if (at_input) { /* without a callback the statement only speaks about new vertices */ }
    }
  return "";
}

struct Ctx { Reporter& rep; };

static void bool_case(Reporter& rep, const Paths& S, const Paths& C, const Paths& O, bool tree_too, bool verbose = false, int only_ct = 0, int only_fr = -1) {
  int cur_ct = 0, cur_fr = 0; std::string cur_reg;
  auto key = [&](int ct, int fr, const std::string& reg) { Case c; c.set("op", "bool").set("S", S).set("C", C).set("O", O).set("ct", ct).set("fr", fr).set("regime", reg); return c.s(); };
  rep.current_case = [&]() { return key(cur_ct, cur_fr, cur_reg); };
  for (int ct = 1; ct <= 4; ++ct) for (int fr = 0; fr < 4; ++fr) {
    if (only_ct && ct != only_ct) continue; if (only_fr >= 0 && fr != only_fr) continue;
    cur_ct = ct; cur_fr = fr;
    BoolOut ref = vfc::boolop(ct, fr, S, C, O, true, false); rep.add("lib_calls");
    TreeOut reft; if (tree_too) { reft = vfc::boolop_tree(ct, fr, S, C, O, true, false); rep.add("lib_calls"); }
    struct Reg { const char* name; bool zero; int cb; bool tree; };
    for (Reg rg : {Reg{"zero", true, 0, false}, Reg{"labels", false, 0, false}, Reg{"labels+callback", false, 1, false}, Reg{"labels+callback+tree", false, 1, true}}) {
      if (rg.tree && !tree_too) continue;
      cur_reg = rg.name;
      PathsZ Sz = label(S, 1, rg.zero), Cz = label(C, 1001, rg.zero), Oz = label(O, 2001, rg.zero);
      ZOut z = z_boolop(ct, fr, Sz, Cz, Oz, true, false, rg.cb, rg.tree); rep.add("lib_calls");
      rep.add("cases"); rep.add("compared");
      const Paths& want_closed = rg.tree ? reft.flat : ref.closed; const Paths& want_open = rg.tree ? reft.open : ref.open;
      if (!want_closed.empty() || !want_open.empty()) rep.add("nontrivial");
      std::string why;
      if (xy(z.closed) != want_closed || xy(z.open) != want_open || z.ok != (rg.tree ? reft.ok : ref.ok))
        why = "geometry_differs_between_builds: USINGZ " + pstr(xy(z.closed)) + " / open " + pstr(xy(z.open)) + " plain " + pstr(want_closed) + " / open " + pstr(want_open);
      if (why.empty() && !rg.zero) {
        PathsZ all = Sz; all.insert(all.end(), Cz.begin(), Cz.end()); all.insert(all.end(), Oz.begin(), Oz.end());
        why = judge_z(all, z, rg.cb != 0);
        if (rg.cb) { rep.add("callback_invocations", z.log.size()); u64 neg = 0; for (auto& p : z.closed) for (auto& v : p) neg += v.z < 0; for (auto& p : z.open) for (auto& v : p) neg += v.z < 0; rep.add("solution_vertices_with_callback_label", neg); }
      }
      if (verbose) printf("ct=%d fr=%d %-22s -> %s   [%s]\n", ct, fr, rg.name, zstr(z.closed).c_str(), why.empty() ? "ok" : why.c_str());
      if (!why.empty()) rep.violation("C15", key(ct, fr, rg.name), why.substr(0, why.find(':')), why + " USINGZ result with z: " + zstr(z.closed) + zstr(z.open));
    }
  }
  rep.current_case = nullptr;
}

static void offset_case(Reporter& rep, const Paths& in, double delta, int jt, int et, double ml, double arc, bool verbose = false) {
  auto key = [&](const std::string& reg) { Case c; c.set("op", "offset").set("P", in).setd("delta", delta).set("jt", jt).set("et", et).setd("ml", ml).setd("arc", arc).set("regime", reg); return c.s(); };
  std::string cur_reg; rep.current_case = [&]() { return key(cur_reg); };
  CL::ClipperOffset co(ml, arc, false, false); co.AddPaths(vfc::to64(in), (CL::JoinType)jt, (CL::EndType)et); CL::Paths64 s; co.Execute(delta, s); rep.add("lib_calls");
  Paths ref = vfc::from64(s);
  struct Reg { const char* name; bool zero; int cb; };
  for (Reg rg : {Reg{"zero", true, 0}, Reg{"labels", false, 0}, Reg{"labels+callback", false, 1}}) {
    cur_reg = rg.name;
    ZOut z = z_offset(label(in, 1, rg.zero), delta, jt, et, ml, arc, false, rg.cb); rep.add("lib_calls"); rep.add("cases"); rep.add("compared"); if (!ref.empty()) rep.add("nontrivial");
    if (verbose) printf("%-18s -> %s\n", rg.name, zstr(z.closed).c_str());
    if (xy(z.closed) != ref) rep.violation("C15", key(rg.name), "geometry_differs_between_builds", "offset: USINGZ " + pstr(xy(z.closed)) + " plain " + pstr(ref));
  }
  // per-vertex widths through Execute(DeltaCallback64), negative at an end vertex included
  for (int mode = 1; mode <= 3; ++mode) {
    cur_reg = "delta_callback_" + std::to_string(mode);
    CL::ClipperOffset c2(ml, arc, false, false); c2.AddPaths(vfc::to64(in), (CL::JoinType)jt, (CL::EndType)et); CL::Paths64 s2;
    c2.Execute([&](const CL::Path64& path, const CL::PathD&, size_t curr, size_t) { return offset_cb_width(delta, mode, curr, path.size()); }, s2); rep.add("lib_calls");
    ZOut z = z_offset_cb(label(in, 1, false), delta, jt, et, ml, arc, mode); rep.add("lib_calls"); rep.add("cases"); rep.add("compared"); if (!s2.empty()) rep.add("nontrivial");
    if (verbose) printf("%-18s -> %s\n", cur_reg.c_str(), zstr(z.closed).c_str());
    if (xy(z.closed) != vfc::from64(s2)) rep.violation("C15", key(cur_reg), "geometry_differs_between_builds", "offset with delta callback: USINGZ " + pstr(xy(z.closed)) + " plain " + pstr(vfc::from64(s2)));
  }
  rep.current_case = nullptr;
}

static void rect_case(Reporter& rep, const Path& p, const i64* r, bool lines, bool verbose = false) {
  Case c; c.set("op", lines ? "rectcliplines" : "rectclip").set("P", Paths{p}).set("rect", std::to_string(r[0]) + "," + std::to_string(r[1]) + "," + std::to_string(r[2]) + "," + std::to_string(r[3]));
  rep.current_case = [&]() { return c.s(); };
  CL::Rect64 rc(r[0], r[1], r[2], r[3]);
  Paths ref = vfc::from64(lines ? CL::RectClipLines(rc, CL::Paths64{vfc::to64(p)}) : CL::RectClip(rc, CL::Paths64{vfc::to64(p)})); rep.add("lib_calls");
  for (bool zero : {true, false}) {
    ZOut z = z_rectclip(r[0], r[1], r[2], r[3], label(Paths{p}, 1, zero), lines); rep.add("lib_calls"); rep.add("cases"); rep.add("compared"); if (!ref.empty() && ref != Paths{p}) rep.add("nontrivial");
    const PathsZ& got = lines ? z.open : z.closed;
    if (verbose) printf("%s -> %s\n", zero ? "zero" : "labels", zstr(got).c_str());
    if (xy(got) != ref) rep.violation("C15", c.s(), "geometry_differs_between_builds", std::string(lines ? "RectClipLines" : "RectClip") + ": USINGZ " + pstr(xy(got)) + " plain " + pstr(ref));
  }
  rep.current_case = nullptr;
}

static void boolD_case(Reporter& rep, const Paths& S, const Paths& C) {
  for (int ct = 1; ct <= 4; ++ct) for (int fr : {0, 1}) {
    Case c; c.set("op", "boolD").set("S", S).set("C", C).set("ct", ct).set("fr", fr); rep.current_case = [&]() { return c.s(); };
    auto tod = [](const Paths& pp) { CL::PathsD r; for (auto& p : pp) { CL::PathD q; for (auto& v : p) q.emplace_back((double)v.x / 4.0, (double)v.y / 4.0); r.push_back(q); } return r; };
    CL::ClipperD cd(2); cd.AddSubject(tod(S)); cd.AddClip(tod(C)); CL::PathsD sc; cd.Execute((CL::ClipType)ct, (CL::FillRule)fr, sc); rep.add("lib_calls");
    double scale = std::pow(2.0, std::ilogb(std::pow(10, 2)) + 1);
    Paths ref; for (auto& p : sc) { Path q; for (auto& v : p) q.push_back({(i64)std::llround(v.x * scale), (i64)std::llround(v.y * scale)}); ref.push_back(q); }
    PathsZ Sz = label(S, 1, false), Cz = label(C, 1001, false);
    ZOut z = z_boolopD(ct, fr, Sz, Cz, 2, 1); rep.add("lib_calls"); rep.add("cases"); rep.add("compared"); if (!ref.empty()) rep.add("nontrivial");
    std::string why;
    { // the same run into a PolyTreeD: same vertices with the same Z values (compared as canonical sets)
      ZOut zt = z_boolopD(ct, fr, Sz, Cz, 2, 2); rep.add("lib_calls");
      auto canon = [](const PathsZ& pp) { std::vector<std::vector<std::array<i64, 3>>> r; for (auto& p : pp) { std::vector<std::array<i64, 3>> q; for (auto& v : p) q.push_back({v.x, v.y, v.z < 0 ? -1 : v.z}); if (!q.empty()) std::rotate(q.begin(), std::min_element(q.begin(), q.end()), q.end()); r.push_back(q); } std::sort(r.begin(), r.end()); return r; };
      if (canon(zt.closed) != canon(z.closed)) why = "z_tree_differs_from_paths: ClipperD into PolyTreeD " + zstr(zt.closed) + " into PathsD " + zstr(z.closed);
    }
    if (!why.empty()) { rep.violation("C15", c.s(), why.substr(0, why.find(':')), why); continue; }
    if (xy(z.closed) != ref) why = "geometry_differs_between_builds: ClipperD USINGZ " + pstr(xy(z.closed)) + " plain " + pstr(ref);
    else {
      // labels were given on the unscaled inputs: bring them to the scaled grid for the location test
      PathsZ all; for (auto* src : {&Sz, &Cz}) for (auto& p : *src) { PathZ q; for (auto& v : p) q.push_back({(i64)std::llround((double)v.x / 4.0 * scale), (i64)std::llround((double)v.y / 4.0 * scale), v.z}); all.push_back(q); }
      why = judge_z(all, z, true);
    }
    if (!why.empty()) rep.violation("C15", c.s(), why.substr(0, why.find(':')), why + " result " + zstr(z.closed));
    // the callback is a property of the call, not of the object's past: install, Execute, remove, Execute again must give
    // exactly what a clipper that never had a callback gives (same x,y; new vertices carry the default Z)
    if (fr == 1) {
      ZOut none = z_boolopD(ct, fr, Sz, Cz, 2, 0), seq = z_boolopD_callback_removed(ct, fr, Sz, Cz, 2);
      ZOut none64 = z_boolop(ct, fr, Sz, Cz, PathsZ(), true, false, 0, false), seq64 = z_boolop_callback_removed(ct, fr, Sz, Cz);
      rep.add("lib_calls", 6); rep.add("cases", 2); rep.add("compared", 2); rep.add("nontrivial", (!none.closed.empty()) + (!none64.closed.empty()));
      auto same = [](const ZOut& a, const ZOut& b) { if (a.closed.size() != b.closed.size()) return false; for (size_t i = 0; i < a.closed.size(); ++i) { if (a.closed[i].size() != b.closed[i].size()) return false;
        for (size_t j = 0; j < a.closed[i].size(); ++j) if (a.closed[i][j].x != b.closed[i][j].x || a.closed[i][j].y != b.closed[i][j].y || a.closed[i][j].z != b.closed[i][j].z) return false; } return true; };
      Case c2 = c; c2.set("op", "boolD").set("regime", "callback_removed");
      if (!seq.ok || !seq.log.empty() || !same(seq, none)) rep.violation("C15", c2.s(), "z_callback_survives_removal", std::string("ClipperD: Execute after SetZCallback(nullptr) ") + (!seq.ok ? "threw / failed" : !seq.log.empty() ? "still invoked the callback" : "differs from a clipper without callback") + ": " + zstr(seq.closed) + " vs " + zstr(none.closed));
      else if (!seq64.ok || !seq64.log.empty() || !same(seq64, none64)) rep.violation("C15", c2.s(), "z_callback_survives_removal", std::string("Clipper64: Execute after SetZCallback(nullptr) ") + (!seq64.ok ? "threw / failed" : !seq64.log.empty() ? "still invoked the callback" : "differs from a clipper without callback") + ": " + zstr(seq64.closed) + " vs " + zstr(none64.closed));
    }
  }
  rep.current_case = nullptr;
}

int main(int argc, char** argv) {
  Args a = parse_args(argc, argv);
  Reporter rep(a); install_crash_handler(rep);
  std::string what = a.opt("what", "bool");
  if (!a.replay.empty()) {
    Case c = Case::parse(a.replay); std::string op = c.get("op");
    if (op == "bool") bool_case(rep, c.getp("S"), c.getp("C"), c.getp("O"), true, true, (int)c.geti("ct"), (int)c.geti("fr", -1));
    else if (op == "offset") offset_case(rep, c.getp("P"), c.getd("delta"), (int)c.geti("jt"), (int)c.geti("et"), c.getd("ml"), c.getd("arc"), true);
    else if (op == "boolD") boolD_case(rep, c.getp("S"), c.getp("C"));
    else { i64 r[4]; sscanf(c.get("rect").c_str(), "%ld,%ld,%ld,%ld", &r[0], &r[1], &r[2], &r[3]); rect_case(rep, c.getp("P")[0], r, op == "rectcliplines", true); }
    printf("violations: %llu\n", (unsigned long long)rep.nviol); for (auto& v : rep.viols) printf("  %s: %s\n", v.tag.c_str(), v.detail.c_str());
    return rep.nviol ? 1 : 0;
  }
  bool done = true;
  if (what == "bool") {
    for_each_gp(a, rep, [&](const GpInput& in) { bool_case(rep, in.subj, in.clip, Paths(), true); boolD_case(rep, in.subj, in.clip); rep.sample("bool S=" + pstr(in.subj) + " C=" + pstr(in.clip)); });
  } else if (what == "open") {
    int k = (int)a.opti("k", 5), ko = (int)a.opti("ko", 5), omax = (int)a.opti("omax", 3);
    auto PS = board_PS(a.seed), PC = board_PC(a.seed), PO = board_PO(a.seed);
    std::vector<Path> subs = polygons_over(PS, k, 3, 3), clips = polygons_over(PC, k, 3, 3), lines;
    for (int n = 2; n <= omax; ++n) { std::vector<std::vector<int>> t; enum_tuples(ko, n, false, t); for (auto& idx : t) { Path p; for (int i : idx) p.push_back(PO[i]); lines.push_back(p); } }
    u64 idx = 0;
    for (auto& s : subs) for (auto& c : clips) { if (!rep.mine(idx++)) continue; if (rep.out_of_time()) { done = false; goto out; }
      if (!general_position(Paths{s, c})) continue;
      for (auto& l : lines) { if (!general_position_mixed(Paths{s, c, l}, {1, 1, 0})) { rep.add("skipped_not_general_position"); continue; } bool_case(rep, Paths{s}, Paths{c}, Paths{l}, true); rep.sample("open S=" + pstr(Paths{s}) + " C=" + pstr(Paths{c}) + " O=" + pstr(Paths{l})); } }
    if (done) rep.bounds_completed.push_back("open-subject scope k=" + std::to_string(k) + " ko=" + std::to_string(ko) + " omax=" + std::to_string(omax));
  } else if (what == "offset") {
    int k = (int)a.opti("k", 6), nmax = (int)a.opti("nmax", 4), ko = (int)a.opti("ko", 5);
    auto PS = board_PS(a.seed), PO = board_PO(a.seed); u64 idx = 0;
    for (auto& p : polygons_over(PS, k, 3, nmax)) { if (!rep.mine(idx++)) continue; if (rep.out_of_time()) { done = false; goto out; }
      if (!is_simple_closed(p) || !angles_ok(p, true)) continue;
      for (double d : {3.5, -3.5, 10.0}) for (int jt = 0; jt < 4; ++jt) offset_case(rep, Paths{p}, d, jt, 0, 2.0, jt == 2 ? 0.5 : 0.0);
      rep.sample("offset polygon " + pstr(Paths{p})); }
    // axis-parallel shapes with half-integer deltas: the offset displacement is then exactly a half-integer, i.e. a rounding tie
    { std::vector<Path> shapes = {{{0, 0}, {60, 0}, {60, 40}, {0, 40}}, {{0, 40}, {60, 40}, {60, 0}, {0, 0}}, {{0, 0}, {80, 0}, {80, 30}, {30, 30}, {30, 70}, {0, 70}}, {{10, 10}, {50, 10}, {50, 20}, {20, 20}, {20, 50}, {50, 50}, {50, 60}, {10, 60}}};
      for (auto& p : shapes) { if (!rep.mine(idx++)) continue;
        for (double d : {2.5, -2.5, 4.5, -4.5, 6.5, 8.5, 0.5, 1.5}) for (int jt = 0; jt < 4; ++jt) { offset_case(rep, Paths{p}, d, jt, 0, 2.0, 0.0); offset_case(rep, Paths{p}, d, jt, 0, 2.0, 0.5); }
        Path open(p.begin(), p.begin() + 3);
        for (double d : {2.5, 4.5, 8.5}) for (int et = 1; et <= 4; ++et) for (int jt = 0; jt < 4; ++jt) offset_case(rep, Paths{open}, d, jt, et, 2.0, 0.0);
        rep.sample("offset axis-parallel " + pstr(Paths{p})); } }
    std::vector<Path> lines; for (int n = 1; n <= 3; ++n) { std::vector<std::vector<int>> t; enum_tuples(ko, n, false, t); for (auto& ix : t) { Path p; for (int i : ix) p.push_back(PO[i]); lines.push_back(p); } }
    for (auto& l : lines) { if (!rep.mine(idx++)) continue; for (int et = 1; et <= 4; ++et) for (int jt = 0; jt < 4; ++jt) offset_case(rep, Paths{l}, 6.0, jt, et, 2.0, 0.0); rep.sample("offset open " + pstr(Paths{l})); }
    if (done) rep.bounds_completed.push_back("offset scope k=" + std::to_string(k) + " n<=" + std::to_string(nmax) + " + open polylines ko=" + std::to_string(ko));
  } else if (what == "rect") {
    int nmax = (int)a.opti("nmax", 4);
    std::vector<P> L = lattice(5, 5, 20); static const i64 R[][4] = {{20, 20, 60, 60}, {10, 10, 70, 50}, {0, 20, 80, 60}};
    u64 idx = 0;
    for (auto& p : polygons_over(L, 25, 3, nmax, true)) { if (!rep.mine(idx++)) continue; if ((idx & 255) == 0 && rep.out_of_time()) { done = false; goto out; } for (auto& r : R) rect_case(rep, p, r, false); }
    { std::vector<std::vector<int>> t; enum_tuples(25, 2, false, t); enum_tuples(25, 3, false, t); for (auto& ix : t) { if (!rep.mine(idx++)) continue; Path p; for (int i : ix) p.push_back(L[i]); for (auto& r : R) rect_case(rep, p, r, true); } }
    rep.sample("rect scope: polygons of 3.." + std::to_string(nmax) + " lattice vertices and polylines of 2..3 x 3 rectangles");
    if (done) rep.bounds_completed.push_back("rect scope n<=" + std::to_string(nmax));
  }
out:
  rep.write();
  return 0;
}
