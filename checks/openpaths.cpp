// C05: open subject paths are cut exactly at the clip region boundary.
// Exact reference cutter (rational cut parameters, exact winding at piece midpoints) versus the
// open solution of Clipper64::Execute (paths and polytree execution).
#include "clipper2/clipper.h"
#include "sides/clip_api.hpp"
#include "engine/boards.hpp"

using namespace vf;

struct Piece { ld ax, ay, bx, by; bool expected; bool cut_a, cut_b; ld zone_a, zone_b; };  // zone: along-path uncertainty of the cut at that end (1.5 / sin of the crossing angle)

struct Frac { i128 n, d; ld zone; };  // d > 0; zone = 1.5 / sin(angle between the open segment and the closed edge it crosses)
static bool frac_less(const Frac& a, const Frac& b) { return a.n * b.d < b.n * a.d; }

// cut every open segment at its proper crossings with the closed edges; classify pieces
static bool reference_cut(const Paths& S, const Paths& C, const Paths& O, int ct, int fr, std::vector<Piece>& pieces, int& ncuts) {
  Paths closed = S; closed.insert(closed.end(), C.begin(), C.end());
  std::vector<Edge> CE = edges_of(closed);
  ncuts = 0;
  for (auto& o : O)
    for (size_t i = 0; i + 1 < o.size(); ++i) {
      const P& a = o[i]; const P& b = o[i + 1];
      std::vector<Frac> ts;
      for (auto& e : CE) {
        if (!proper_cross(a, b, e.a, e.b)) continue;
        i128 den = ((i128)b.x - a.x) * ((i128)e.b.y - e.a.y) - ((i128)b.y - a.y) * ((i128)e.b.x - e.a.x);
        i128 num = ((i128)e.a.x - a.x) * ((i128)e.b.y - e.a.y) - ((i128)e.a.y - a.y) * ((i128)e.b.x - e.a.x);
        if (den < 0) { den = -den; num = -num; }
        // a cut is located to within ~1.5 units perpendicular to the two edges; along the open path that is 1.5 / sin(angle)
        ld la = hypotl((ld)(b.x - a.x), (ld)(b.y - a.y)), le = hypotl((ld)(e.b.x - e.a.x), (ld)(e.b.y - e.a.y));
        ld sn = (ld)den / (la * le);
        ts.push_back({num, den, 1.5L / std::max(sn, 1e-9L)});
      }
      std::sort(ts.begin(), ts.end(), frac_less);
      ncuts += (int)ts.size();
      std::vector<Frac> bd; bd.push_back({0, 1, 0}); for (auto& t : ts) bd.push_back(t); bd.push_back({1, 1, 0});
      for (size_t k = 0; k + 1 < bd.size(); ++k) {
        // midpoint parameter (n0*d1 + n1*d0) / (2*d0*d1)
        i128 N = bd[k].n * bd[k + 1].d + bd[k + 1].n * bd[k].d, D = 2 * bd[k].d * bd[k + 1].d;
        if (D > ((i128)1 << 40)) return false;  // cannot happen on the boards; keeps the scaled coordinates inside 63 bits
        i64 Di = (i64)D;
        P mid{(i64)((i128)a.x * D + ((i128)b.x - a.x) * N), (i64)((i128)a.y * D + ((i128)b.y - a.y) * N)};
        bool on = false;
        int ws = winding(scaled(S, Di), mid, on), wc = winding(scaled(C, Di), mid, on);
        if (on) return false;
        bool in_clip = fill(fr, wc), in_subj = fill(fr, ws);
        bool exp = ct == 1 ? in_clip : ct == 2 ? (!in_clip && !in_subj) : !in_clip;
        ld t0 = (ld)bd[k].n / (ld)bd[k].d, t1 = (ld)bd[k + 1].n / (ld)bd[k + 1].d;
        Piece pc{(ld)a.x + t0 * (ld)(b.x - a.x), (ld)a.y + t0 * (ld)(b.y - a.y), (ld)a.x + t1 * (ld)(b.x - a.x), (ld)a.y + t1 * (ld)(b.y - a.y), exp, k > 0, k + 2 < bd.size(), bd[k].zone, bd[k + 1].zone};
        pieces.push_back(pc);
      }
    }
  return true;
}

static ld dist_to_polylines(ld x, ld y, const Paths& pp) {
  ld best = 1e300L;
  for (auto& p : pp) {
    if (p.size() == 1) best = std::min(best, dist_pt_seg_ld(x, y, p[0].x, p[0].y, p[0].x, p[0].y));
    for (size_t i = 0; i + 1 < p.size(); ++i) best = std::min(best, dist_pt_seg_ld(x, y, (ld)p[i].x, (ld)p[i].y, (ld)p[i + 1].x, (ld)p[i + 1].y));
  }
  return best;
}
static ld dist_to_pieces(ld x, ld y, const std::vector<Piece>& pcs) {
  ld best = 1e300L;
  for (auto& q : pcs) if (q.expected) best = std::min(best, dist_pt_seg_ld(x, y, q.ax, q.ay, q.bx, q.by));
  return best;
}

static std::string judge_open(const Paths& O, const Paths& sol, const std::vector<Piece>& pieces, int ncuts) {
  const ld TOL = 1.5L, EPS = 1e-7L, STEP = 0.5L;
  // end zone of a solution path: the largest along-path uncertainty of any cut (shallow crossings move a cut far along the path
  // while staying within a unit of both edges; the statement bounds the perpendicular distance and the total length only)
  ld ZMAX = TOL; for (auto& q : pieces) ZMAX = std::max(ZMAX, std::max(q.zone_a, q.zone_b));
  char buf[256];
  ld sol_len = 0, exp_len = 0;
  for (auto& q : pieces) if (q.expected) exp_len += hypotl(q.bx - q.ax, q.by - q.ay);
  for (auto& p : sol) {
    if (p.size() < 2) return "open_solution_path_too_short: " + str(p);
    ld total = 0; for (size_t i = 0; i + 1 < p.size(); ++i) total += hypotl((ld)(p[i + 1].x - p[i].x), (ld)(p[i + 1].y - p[i].y));
    sol_len += total;
    ld acc = 0;
    for (size_t i = 0; i + 1 < p.size(); ++i) {
      ld dx = (ld)(p[i + 1].x - p[i].x), dy = (ld)(p[i + 1].y - p[i].y), L = hypotl(dx, dy);
      int steps = std::max(1, (int)ceill(L / STEP));
      for (int s = 0; s <= steps; ++s) {
        ld t = (ld)s / steps, x = p[i].x + t * dx, y = p[i].y + t * dy, arc = acc + t * L;
        ld d = dist_to_polylines(x, y, O);
        if (d > TOL + EPS) { snprintf(buf, sizeof buf, "solution_point_off_open_subject: (%.3Lf,%.3Lf) is %.3Lf from every open subject segment", x, y, d); return buf; }
        if (arc >= ZMAX && arc <= total - ZMAX) {
          ld e = dist_to_pieces(x, y, pieces);
          if (e > TOL + EPS) { snprintf(buf, sizeof buf, "solution_covers_unexpected_part: (%.3Lf,%.3Lf) is %.3Lf from every expected piece", x, y, e); return buf; }
        }
      }
      acc += L;
    }
  }
  for (auto& q : pieces) {
    if (!q.expected) continue;
    ld dx = q.bx - q.ax, dy = q.by - q.ay, L = hypotl(dx, dy);
    ld lo = q.cut_a ? std::max(TOL, q.zone_a) : 0, hi = q.cut_b ? L - std::max(TOL, q.zone_b) : L;
    if (hi < lo) continue;
    int steps = std::max(1, (int)ceill((hi - lo) / STEP));
    for (int s = 0; s <= steps; ++s) {
      ld u = lo + (hi - lo) * s / steps, x = q.ax + dx * u / (L > 0 ? L : 1), y = q.ay + dy * u / (L > 0 ? L : 1);
      ld d = dist_to_polylines(x, y, sol);
      if (d > TOL + EPS) { snprintf(buf, sizeof buf, "expected_piece_missing: (%.3Lf,%.3Lf) of an expected piece is %.3Lf from the open solution", x, y, d); return buf; }
    }
  }
  if (fabsl(sol_len - exp_len) > 3.0L * ncuts + 1e-6L) {
    // mechanical condition of the known finding: the excess is explained by shallow crossings, i.e. the clause holds when each
    // cut is allowed 2 * (1.5 / sin(crossing angle)) instead of 3 units
    ld angle_tol = 0; for (auto& q : pieces) { if (q.cut_a) angle_tol += std::max(1.5L, q.zone_a); if (q.cut_b) angle_tol += std::max(1.5L, q.zone_b); }
    snprintf(buf, sizeof buf, "%s: solution %.4Lf exact %.4Lf cuts %d (angle-aware tolerance %.2Lf)", fabsl(sol_len - exp_len) <= angle_tol + 1e-6L ? "open_length_shallow_crossing" : "open_length", sol_len, exp_len, ncuts, angle_tol);
    return buf; }
  return "";
}

static std::string ckey(const Paths& S, const Paths& C, const Paths& O, int ct, int fr, const char* api) {
  Case c; c.set("S", S).set("C", C).set("O", O).set("ct", ct).set("fr", fr).set("api", api); return c.s();
}

static void check_input(Reporter& rep, const Paths& S, const Paths& C, const Paths& O, bool verbose = false, int only_ct = 0, int only_fr = -1) {
  int cur_ct = 0, cur_fr = 0; const char* cur_api = "paths";
  arm_watchdog(60);   // CPU-time limit per input: a library call that does not return is attributed to this case (crash_signal_26)
  rep.current_case = [&]() { return ckey(S, C, O, cur_ct, cur_fr, cur_api); };
  Paths all = S; all.insert(all.end(), C.begin(), C.end());
  for (int ct = 1; ct <= 4; ++ct) for (int fr = 0; fr < 4; ++fr) {
    if (only_ct && ct != only_ct) continue;
    if (only_fr >= 0 && fr != only_fr) continue;
    cur_ct = ct; cur_fr = fr;
    std::vector<Piece> pieces; int ncuts = 0;
    if (!reference_cut(S, C, O, ct, fr, pieces, ncuts)) { rep.add("skipped_reference_undecidable"); continue; }
    // paths execution, then polytree execution ON THE SAME OBJECT (the statement holds for every Execute), then a
    // fresh object without the open subjects
    BoolOut p; TreeOut t;
    {
      namespace CL = Clipper2Lib;
      CL::Clipper64 c; c.AddSubject(vfc::to64(S)); c.AddOpenSubject(vfc::to64(O)); c.AddClip(vfc::to64(C));
      CL::Paths64 sc, so; cur_api = "paths"; p.ok = c.Execute((CL::ClipType)ct, (CL::FillRule)fr, sc, so); p.closed = vfc::from64(sc); p.open = vfc::from64(so);
      CL::PolyTree64 tr; CL::Paths64 to; cur_api = "tree"; t.ok = c.Execute((CL::ClipType)ct, (CL::FillRule)fr, tr, to);
      t.open = vfc::from64(to); t.flat = vfc::from64(CL::PolyTreeToPaths64(tr));
    }
    cur_api = "closed_only"; BoolOut q = vfc::boolop(ct, fr, S, C, Paths(), true, false);
    // the overload that takes no container for open paths, on an object that does hold open subjects
    BoolOut r3;
    { namespace CL = Clipper2Lib; CL::Clipper64 c; c.AddSubject(vfc::to64(S)); c.AddOpenSubject(vfc::to64(O)); c.AddClip(vfc::to64(C));
      CL::Paths64 sc; cur_api = "closed_overload"; r3.ok = c.Execute((CL::ClipType)ct, (CL::FillRule)fr, sc); r3.closed = vfc::from64(sc); rep.add("lib_calls"); }
    rep.add("lib_calls", 3); rep.add("cases", 2); rep.add("compared", 2);
    bool any_exp = false, any_unexp = false; for (auto& x : pieces) (x.expected ? any_exp : any_unexp) = true;
    if (any_exp && any_unexp) rep.add("nontrivial", 2);   // the open subject is genuinely cut
    if (ncuts) rep.add("cases_with_cuts", 2);
    rep.outcome(hash_paths(canon_open(p.open, false), (u64)ct * 4 + fr));
    std::string why;
    if (!p.ok || !t.ok) why = "execute_false: ";
    if (why.empty()) { why = judge_open(O, p.open, pieces, ncuts); if (!why.empty()) why = "paths/" + why; }
    if (why.empty() && canon_open(t.open, false) != canon_open(p.open, false)) { why = judge_open(O, t.open, pieces, ncuts); if (!why.empty()) why = "tree/" + why; rep.add("tree_open_differs_from_paths_open"); }
    // adding open subjects does not change the region of the closed solution
    if (why.empty() && !r3.ok) why = "execute_false: Execute(ct, fr, closed) on an object with open subjects";
    for (int which = 0; which < 2 && why.empty(); ++which) {
      const Paths& with_open = which ? r3.closed : p.closed;
      if (canon_closed(with_open) == canon_closed(q.closed)) continue;
      rep.add("closed_solution_paths_differ_with_open");
      // region comparison at all half-integer lattice points farther than 2 units from the closed input edges
      Box bb = bbox(all); Paths a2 = scaled(with_open, 2), b2 = scaled(q.closed, 2), in2 = scaled(all, 2);
      if (which) { Box bo = bbox(O); bb.x0 = std::min(bb.x0, bo.x0); bb.y0 = std::min(bb.y0, bo.y0); bb.x1 = std::max(bb.x1, bo.x1); bb.y1 = std::max(bb.y1, bo.y1); }
      for (i64 y = 2 * bb.y0 - 1; y <= 2 * bb.y1 + 1 && why.empty(); y += 2)
        for (i64 x = 2 * bb.x0 - 1; x <= 2 * bb.x1 + 1; x += 2) {
          P c{x, y}; if (dist_to_edges(c, in2) / 2 <= 2.0L) continue;
          bool on = false; int wa = winding(a2, c, on), wb = winding(b2, c, on);
          if (!on && wa != wb) { why = std::string(which ? "closed_overload_region_changed_by_open_subjects" : "closed_region_changed_by_open_subjects") + ": at (" + std::to_string(x / 2.0) + "," + std::to_string(y / 2.0) + ")"; break; }
        }
    }
    if (why.empty() && canon_closed(t.flat) != canon_closed(p.closed)) why = "tree_closed_differs: ";
    if (verbose) printf("ct=%d fr=%d cuts=%d open(paths)=%s open(tree)=%s verdict=%s\n", ct, fr, ncuts, pstr(p.open).c_str(), pstr(t.open).c_str(), why.empty() ? "ok" : why.c_str());
    if (!why.empty()) { std::string tag = why.substr(0, why.find(':')); size_t sl = tag.find('/'); if (sl != std::string::npos) tag = tag.substr(sl + 1);
      rep.violation("C05", ckey(S, C, O, ct, fr, why.rfind("tree/", 0) == 0 ? "tree" : "paths"), tag, why + " open_solution=" + pstr(why.rfind("tree/", 0) == 0 ? t.open : p.open)); }
  }
  arm_watchdog(0); rep.current_case = nullptr;
}

int main(int argc, char** argv) {
  Args a = parse_args(argc, argv);
  Reporter rep(a); install_crash_handler(rep);
  if (!a.replay.empty()) {
    Case c = Case::parse(a.replay);
    check_input(rep, c.getp("S"), c.getp("C"), c.getp("O"), true, (int)c.geti("ct"), (int)c.geti("fr", -1));
    printf("violations: %llu\n", (unsigned long long)rep.nviol);
    for (auto& x : rep.viols) printf("  %s %s: %s\n", x.prop.c_str(), x.tag.c_str(), x.detail.c_str());
    return rep.nviol ? 1 : 0;
  }
  int k = (int)a.opti("k", 5), nmax = (int)a.opti("nmax", 3), ko = (int)a.opti("ko", 6), omax = (int)a.opti("omax", 3), nopen = (int)a.opti("nopen", 1);
  auto PS = board_PS(a.seed), PC = board_PC(a.seed), PO = board_PO(a.seed);
  std::string oboard = a.opt("oboard", "generic");
  // "aligned": open-path points sharing x or y coordinates, so that open paths start, end and run horizontally / vertically
  if (oboard == "aligned") PO = {{2, 40}, {98, 40}, {50, 3}, {50, 97}, {20, 75}, {80, 75}, {33, 22}, {66, 22}};
  // "flat": open-path points far to the left and right of the closed boards at nearly the same height: open segments with |dx| > 100 |dy| that are
  // not horizontal (the engine treats such edges specially when it places crossings), crossing the closed paths at non-integer heights
  if (oboard == "flat") PO = {{-400, 38}, {500, 41}, {-350, 61}, {450, 60}, {-420, 22}, {480, 25}, {-300, 77}, {520, 79}};
  std::vector<Path> subs = polygons_over(PS, k, 3, nmax), clips = polygons_over(PC, k, 3, nmax);
  std::vector<Path> lines; std::vector<char> is_loop;
  for (int n = 2; n <= omax; ++n) { std::vector<std::vector<int>> t; enum_tuples(ko, n, false, t); for (auto& idx : t) { Path p; for (int i : idx) p.push_back(PO[i]); lines.push_back(p); is_loop.push_back(0); } }
  // "loops": open paths that return to their first point (an outline given as an open path); the coincidence of the last
  // vertex with the first is by construction, so general position is judged on the closed version of the loop
  if (a.opti("loops", 0)) { lines.clear(); is_loop.clear(); std::vector<std::vector<int>> t; enum_tuples(ko, 3, false, t); if (omax >= 4) enum_tuples(ko, 4, false, t);
    for (auto& idx : t) { Path p; for (int i : idx) p.push_back(PO[i]); p.push_back(p[0]); lines.push_back(p); is_loop.push_back(1); } }
  u64 idx = 0; bool done = true;
  for (auto& s : subs) {
    for (auto& c : clips) {
      if (!rep.mine(idx++)) continue;
      if (rep.out_of_time()) { done = false; goto out; }
      if (!general_position(Paths{s, c})) { rep.add("skipped_not_general_position", lines.size()); continue; }
      if (nopen == 1) {
        for (size_t li = 0; li < lines.size(); ++li) {
          const Path& l = lines[li];
          rep.add("inputs_enumerated");
          bool gp = is_loop[li] ? general_position_mixed(Paths{s, c, Path(l.begin(), l.end() - 1)}, {1, 1, 1}) : general_position_mixed(Paths{s, c, l}, {1, 1, 0});
          if (!gp) { rep.add("skipped_not_general_position"); continue; }
          check_input(rep, Paths{s}, Paths{c}, Paths{l});
          rep.sample("S=" + pstr(Paths{s}) + " C=" + pstr(Paths{c}) + " O=" + pstr(Paths{l}));
        }
      } else {
        for (size_t i = 0; i < lines.size(); ++i) for (size_t j = 0; j < lines.size(); ++j) {
          if (i == j) continue; rep.add("inputs_enumerated");
          if (!general_position_mixed(Paths{s, c, lines[i], lines[j]}, {1, 1, 0, 0})) { rep.add("skipped_not_general_position"); continue; }
          check_input(rep, Paths{s}, Paths{c}, Paths{lines[i], lines[j]});
          rep.sample("S=" + pstr(Paths{s}) + " C=" + pstr(Paths{c}) + " O=" + pstr(Paths{lines[i], lines[j]}));
        }
      }
    }
  }
out:
  if (done) rep.bounds_completed.push_back("open board " + oboard + (a.opti("loops", 0) ? " loops" : "") + " closed k=" + std::to_string(k) + " n<=" + std::to_string(nmax) + "; open ko=" + std::to_string(ko) + " n<=" + std::to_string(omax) + " count=" + std::to_string(nopen));
  rep.write();
  return 0;
}
