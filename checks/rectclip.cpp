// C08 / C09: rectangular clipping.
//
//   --prop C08   RectClip      (closed paths)  : region engine + exact clauses, per input path
//   --prop C09   RectClipLines (open polylines): exact reference cutter (Liang-Barsky in rationals)
//
// One *case* = (rectangle, one input path)            key "R=l,t r,b|P=<path>"
//          or  (rectangle, two input paths, one call)  key "R=l,t r,b|P=<path>;<path>"   (concatenation clause)
// Every case is executed through the free functions (Paths64 and Path64 overloads) AND through a
// RectClip64 / RectClipLines64 object (executed twice); all of them must return the same paths.
//
// Scopes (complete enumeration; --scope):
//   poly   every ordered tuple of nmin..nmax distinct points of the 5x5 lattice {0,20,40,60,80}^2 as polygon
//          (--cyclic 1: one representative per rotation class, both orientations; --cyclic 0: every start vertex;
//           --sub K: only the KxK sub-lattice {0,20,..}) x rectangle list (--rects) x magnitude maps (--mag 1)
//   walks  every closed walk WITH revisits (no two consecutive points equal) of 3..len points over a 3x3 lattice
//          (--wo origin, --ws step) x rectangle list of that board: wrap-around, laps, touching, re-entering
//   laps   rings of 8 / 16 lattice points around a central rectangle visited in order, 1..3 laps, both directions,
//          every start vertex, without / with one extra vertex inside the rectangle inserted at every position
//   rectil every rectilinear polygon of 4,6,..,nmax distinct lattice points (edges alternately horizontal / vertical, both
//          phases, every start vertex; simple and self-intersecting): notches, U- and C-shapes hugging the rectangle
//   pairs  every ordered pair of polygons of a 3x3 lattice in ONE call: result == concatenation of the single results
//   (C09)  lines / linewalks / linepairs: the same for open polylines
//
// --plan c08quick|c08thorough|c09quick|c09thorough runs the tier's list of scopes in one process per shard (see plan()),
// so that the driver's deadline bounds the whole tier. A library call that burns > 60 s CPU is reported for the
// running case as crash_signal_26 (SIGVTALRM watchdog).
//
// Readings of clauses the statement leaves open (see also the registry entry):
//   * "entirely inside"  : every vertex in the CLOSED rectangle  -> result must be exactly {input} (no rotation).
//   * "entirely outside" : no point of the closed polygon region lies strictly inside the rectangle, i.e. no edge
//                          meets the open rectangle and the winding number of the rectangle's interior is 0
//                          (and it is not "entirely inside": a zero-area polygon lying in the boundary counts as inside).
//   * "an edge lies along a side": the edge is on the supporting line of a side and shares a positive length with it.
//   * winding clause: points strictly inside the rectangle, > 2 units from the input path and > 1 unit from the
//     rectangle boundary; outside clause: points outside the rectangle, > 1 unit from its boundary (and > 2 units
//     from the input path): winding number exactly 0.
//     (Outside the rectangle grown by 1 the winding number is 0 as soon as the exact clause "every result vertex
//     lies in the rectangle grown by 1" holds, whatever the distance to the input path.)
//   * orientation: for simple inputs no result path may have an area of the opposite sign (zero-area result paths
//     are counted, not alarmed).
//
// Violation tags.  C08: region_inside_winding, region_inside_parity, region_outside_covered, inside_not_unchanged,
//   outside_not_empty, outside_returns_degenerate_path (entirely outside, only paths of < 3 points returned),
//   outside_all_corners_on_path_returns_rect (entirely outside, all four rectangle corners on the path's edges, the
//   rectangle itself returned: reported once under this tag instead of its three symptom tags), orientation_reversed,
//   vertex_outside_rect, new_vertex_off_boundary.
//   C09: piece_too_short, piece_outside_rect, piece_off_polyline, order_direction, length.
//   Both: api_mismatch_path_overload, api_mismatch_class, class_reexecute_differs, concat_mismatch, crash_signal_<n>.
#include "clipper2/clipper.h"
#include "sides/clip_api.hpp"
#include "engine/region.hpp"
#include "engine/boards.hpp"
#include <array>
#include <unordered_map>

using namespace vf;
namespace CL = Clipper2Lib;
using vfc::to64; using vfc::from64;

// ------------------------------------------------------------------------------------------ counters
static std::unordered_map<const char*, u64> g_ctr;
static inline void cnt(const char* name, u64 v = 1) { g_ctr[name] += v; }
static void flush_counters(Reporter& rep) { for (auto& e : g_ctr) rep.add(e.first, e.second); g_ctr.clear(); }

// ------------------------------------------------------------------------------------------ rectangle
struct Rc { i64 l, t, r, b; };
static inline bool operator==(const Rc& a, const Rc& b) { return a.l == b.l && a.t == b.t && a.r == b.r && a.b == b.b; }
static CL::Rect64 rect64(const Rc& R) { return CL::Rect64(R.l, R.t, R.r, R.b); }
static std::string rstr(const Rc& R) { return std::to_string(R.l) + "," + std::to_string(R.t) + " " + std::to_string(R.r) + "," + std::to_string(R.b); }
static bool rparse(const std::string& s, Rc& R) {
  Paths pp = parse_paths(s);
  if (pp.size() != 1 || pp[0].size() != 2) return false;
  R = {pp[0][0].x, pp[0][0].y, pp[0][1].x, pp[0][1].y};
  return R.l < R.r && R.t < R.b;
}
static inline bool in_closed(const Rc& R, const P& p) { return p.x >= R.l && p.x <= R.r && p.y >= R.t && p.y <= R.b; }
static inline bool in_open(const Rc& R, const P& p) { return p.x > R.l && p.x < R.r && p.y > R.t && p.y < R.b; }
static inline bool on_bnd(const Rc& R, const P& p) { return in_closed(R, p) && !in_open(R, p); }
static std::array<P, 4> corners(const Rc& R) { return {P{R.l, R.t}, P{R.r, R.t}, P{R.r, R.b}, P{R.l, R.b}}; }
// distance from an integer point to the rectangle BOUNDARY (exact up to the final sqrt)
static ld dist_to_rect_bnd(const Rc& R, const P& p) {
  i128 ox = std::max((i128)R.l - p.x, (i128)p.x - R.r), oy = std::max((i128)R.t - p.y, (i128)p.y - R.b);
  if (ox <= 0 && oy <= 0) return (ld)std::min(-ox, -oy);
  ld dx = ox > 0 ? (ld)ox : 0, dy = oy > 0 ? (ld)oy : 0;
  return sqrtl(dx * dx + dy * dy);
}
static inline bool in_grown(const Rc& R, const P& p, i64 g) { return p.x >= R.l - g && p.x <= R.r + g && p.y >= R.t - g && p.y <= R.b + g; }

static std::string key_of(const Rc& R, const Paths& in) { Case c; c.set("R", rstr(R)).set("P", in); return c.s(); }

// ------------------------------------------------------------------------------------------ exact clipping of a segment
struct Fr { i128 n, d; };   // d > 0
static inline bool fr_lt(const Fr& a, const Fr& b) { return a.n * b.d < b.n * a.d; }
static inline ld fr_ld(const Fr& a) { return (ld)a.n / (ld)a.d; }
// Liang-Barsky against the CLOSED rectangle; false when the segment misses it. 0 <= t0 <= t1 <= 1.
static bool clip_closed(const Rc& R, const P& a, const P& b, Fr& t0, Fr& t1) {
  t0 = {0, 1}; t1 = {1, 1};
  i128 dx = (i128)b.x - a.x, dy = (i128)b.y - a.y;
  auto upd = [&](i128 p, i128 q) -> bool {   // constraint p*t <= q
    if (p == 0) return q >= 0;
    if (p > 0) { Fr f{q, p}; if (fr_lt(f, t1)) t1 = f; }
    else { Fr f{-q, -p}; if (fr_lt(t0, f)) t0 = f; }
    return true;
  };
  if (!upd(-dx, (i128)a.x - R.l)) return false;
  if (!upd(dx, (i128)R.r - a.x)) return false;
  if (!upd(-dy, (i128)a.y - R.t)) return false;
  if (!upd(dy, (i128)R.b - a.y)) return false;
  return !fr_lt(t1, t0);
}
// the segment lies on the supporting line of a rectangle side
static inline bool on_side_line(const Rc& R, const P& a, const P& b) {
  return (a.x == b.x && (a.x == R.l || a.x == R.r)) || (a.y == b.y && (a.y == R.t || a.y == R.b));
}
// ... and shares a positive length with that side
static bool along_side(const Rc& R, const P& a, const P& b) {
  if (a == b) return false;
  if (a.x == b.x && (a.x == R.l || a.x == R.r)) return std::max(std::min(a.y, b.y), R.t) < std::min(std::max(a.y, b.y), R.b);
  if (a.y == b.y && (a.y == R.t || a.y == R.b)) return std::max(std::min(a.x, b.x), R.l) < std::min(std::max(a.x, b.x), R.r);
  return false;
}
// the segment meets the OPEN rectangle
static bool meets_open(const Rc& R, const P& a, const P& b) {
  if (a == b) return in_open(R, a);
  Fr t0, t1;
  if (!clip_closed(R, a, b, t0, t1)) return false;
  if (!fr_lt(t0, t1)) return false;         // a single point of the closed rectangle: on its boundary (or a == b)
  return !on_side_line(R, a, b);            // a chord of positive length is interior unless it runs in a side
}

// ------------------------------------------------------------------------------------------ library calls
static u64 g_calls = 0;
static Paths lib_rc(const Rc& R, const Paths& in) { ++g_calls; return from64(CL::RectClip(rect64(R), to64(in))); }
static Paths lib_rc1(const Rc& R, const Path& in) { ++g_calls; return from64(CL::RectClip(rect64(R), to64(in))); }
static void lib_rc_class(const Rc& R, const Paths& in, Paths& first, Paths& second) {
  CL::RectClip64 rc(rect64(R)); CL::Paths64 pp = to64(in);
  first = from64(rc.Execute(pp)); second = from64(rc.Execute(pp)); g_calls += 2;
}
static Paths lib_rl(const Rc& R, const Paths& in) { ++g_calls; return from64(CL::RectClipLines(rect64(R), to64(in))); }
static Paths lib_rl1(const Rc& R, const Path& in) { ++g_calls; return from64(CL::RectClipLines(rect64(R), to64(in))); }
static void lib_rl_class(const Rc& R, const Paths& in, Paths& first, Paths& second) {
  CL::RectClipLines64 rc(rect64(R)); CL::Paths64 pp = to64(in);
  first = from64(rc.Execute(pp)); second = from64(rc.Execute(pp)); g_calls += 2;
}

// ------------------------------------------------------------------------------------------ context
struct Ctx {
  Reporter& rep;
  bool lines;          // C09
  i64 S = 2;           // region engine scale
  i64 res = 2048;      // tree resolution: leaf half side grows until Hmin * res >= extent
  bool verbose = false;
  std::string prop;
  u64 nviol_before = 0;
  void viol(const Rc& R, const Paths& in, const std::string& tag, const std::string& detail) { rep.violation(prop, key_of(R, in), tag, detail); if (verbose) printf("   VIOLATION %s: %s\n", tag.c_str(), detail.c_str()); }
};

static i64 max_abs(const Rc& R, const Paths& pp) {
  i64 m = std::max(std::max(std::llabs(R.l), std::llabs(R.r)), std::max(std::llabs(R.t), std::llabs(R.b)));
  for (auto& p : pp) for (auto& q : p) m = std::max(m, std::max((i64)std::llabs(q.x), (i64)std::llabs(q.y)));
  return m;
}

// all API routes agree; returns the result of the Paths64 free function
static Paths run_all_apis(Ctx& cx, const Rc& R, const Paths& in) {
  Paths res = cx.lines ? lib_rl(R, in) : lib_rc(R, in);
  if (in.size() == 1) {
    Paths r1 = cx.lines ? lib_rl1(R, in[0]) : lib_rc1(R, in[0]);
    if (r1 != res) cx.viol(R, in, "api_mismatch_path_overload", "Path64 overload returned " + pstr(r1) + " but Paths64 overload returned " + pstr(res));
  }
  Paths c1, c2;
  if (cx.lines) lib_rl_class(R, in, c1, c2); else lib_rc_class(R, in, c1, c2);
  if (c1 != res) cx.viol(R, in, "api_mismatch_class", "class Execute returned " + pstr(c1) + " but the free function returned " + pstr(res));
  else if (c2 != c1) cx.viol(R, in, "class_reexecute_differs", "second Execute on the same object returned " + pstr(c2) + ", the first " + pstr(c1));
  return res;
}

// ------------------------------------------------------------------------------------------ region check with a comparator
// Same algorithm as vf::rtree_check, but the verdict at a point is agree(w, cell) (needed for the parity clause).
template <class AgreeF, class MarginF, class PayloadF>
static bool region_check_cmp(const RTree& t, const Paths& sol, AgreeF agree, MarginF margin, PayloadF payload, RWitness& wit, RStats& st, ld eps) {
  struct E { P a, b; };
  std::vector<E> edges; Box sb;
  for (auto& p : sol) { size_t n = p.size(); for (size_t i = 0; i < n; ++i) edges.push_back({p[i], p[(i + 1) % n]}); grow(sb, p); }
  auto eval_point = [&](const RCell& cell, ld m_known) -> bool {
    bool on = false; int w = 0;
    if (!sb.empty() && cell.c.x >= sb.x0 && cell.c.x <= sb.x1 && cell.c.y >= sb.y0 && cell.c.y <= sb.y1) w = winding(sol, cell.c, on);
    ++st.evals;
    if (on) { ++st.on_edge_skipped; return true; }
    if (!agree(w, cell)) { wit = {cell.c, t.S, w, cell.b ? cell.a : 0, m_known}; return false; }
    return true;
  };
  std::function<bool(const P&, i64)> refine = [&](const P& c, i64 H) -> bool {
    ++st.refined;
    bool hit = false;
    for (auto& e : edges) if (seg_meets_square(e.a, e.b, c, H)) { hit = true; break; }
    ld m = margin(c);
    if (!hit || H <= t.Hmin) {
      if (m > eps) { RCell cell{c, H, false, 0, 0}; bool skip = false; payload(c, cell.a, cell.b, skip); if (!skip) return eval_point(cell, m); }
      return true;
    }
    i64 h = H / 2;
    return refine(P{c.x - h, c.y - h}, h) && refine(P{c.x + h, c.y - h}, h) && refine(P{c.x - h, c.y + h}, h) && refine(P{c.x + h, c.y + h}, h);
  };
  for (auto& cell : t.cells) {
    if (cell.free) {
      bool hit = false;
      if (!sb.empty() && !(cell.c.x + cell.H < sb.x0 || cell.c.x - cell.H > sb.x1 || cell.c.y + cell.H < sb.y0 || cell.c.y - cell.H > sb.y1))
        for (auto& e : edges) if (seg_meets_square(e.a, e.b, cell.c, cell.H)) { hit = true; break; }
      if (!hit) { ++st.decided_free; if (!eval_point(cell, -1)) { wit.margin = margin(cell.c); return false; } }
      else if (!refine(cell.c, cell.H)) return false;
    } else {
      ++st.rim_evals;
      if (!eval_point(cell, -1)) { wit.margin = margin(cell.c); return false; }
    }
  }
  return true;
}

// 1-Lipschitz margin  min(dist(p, path edges) - 2, dist(p, rectangle boundary) - 1)  in grid units, p scaled by S
template <class F>
struct MarginEval {
  struct Sg { F ax, ay, dx, dy, l2; };
  std::vector<Sg> segs; F l, t, r, b, S;
  MarginEval(const Path& ps, const Rc& Rs, i64 S_) : l((F)Rs.l), t((F)Rs.t), r((F)Rs.r), b((F)Rs.b), S((F)S_) {
    size_t n = ps.size();
    for (size_t i = 0; i < n; ++i) { const P& a = ps[i]; const P& c = ps[(i + 1) % n]; F dx = (F)(c.x - a.x), dy = (F)(c.y - a.y); segs.push_back({(F)a.x, (F)a.y, dx, dy, dx * dx + dy * dy}); }
  }
  ld operator()(const P& c) const {
    F qx = (F)c.x, qy = (F)c.y, best = (F)1e300;
    for (auto& s : segs) {
      F fx = qx - s.ax, fy = qy - s.ay, tt = fx * s.dx + fy * s.dy, d2;
      if (tt <= 0 || s.l2 == 0) d2 = fx * fx + fy * fy;
      else if (tt >= s.l2) { F gx = fx - s.dx, gy = fy - s.dy; d2 = gx * gx + gy * gy; }
      else { F cr = fx * s.dy - fy * s.dx; d2 = cr * cr / s.l2; }
      if (d2 < best) best = d2;
    }
    F dp = std::sqrt(best) / S - 2;
    F ox = std::max(l - qx, qx - r), oy = std::max(t - qy, qy - b), dr;
    if (ox <= 0 && oy <= 0) dr = std::min(-ox, -oy);
    else { F ex = ox > 0 ? ox : 0, ey = oy > 0 ? oy : 0; dr = std::sqrt(ex * ex + ey * ey); }
    F m = std::min(dp, dr / S - 1);
    return (ld)m;
  }
};

// ------------------------------------------------------------------------------------------ C08: one polygon
struct Cls08 { bool all_in_closed = true, bbox_disjoint = false, meets = false, touches = false, corner = false, along = false, simple = false, all_corners_on = false; int w_centre = 0; };

static Cls08 classify08(const Rc& R, const Path& p) {
  Cls08 c; size_t n = p.size();
  Box bb; grow(bb, p);
  c.bbox_disjoint = bb.x1 < R.l || bb.x0 > R.r || bb.y1 < R.t || bb.y0 > R.b;
  auto K = corners(R); bool corner_on[4] = {false, false, false, false};
  for (size_t i = 0; i < n; ++i) {
    const P& a = p[i]; const P& b = p[(i + 1) % n];
    if (!in_closed(R, a)) c.all_in_closed = false;
    if (on_bnd(R, a)) c.touches = true;
    if (meets_open(R, a, b)) c.meets = true;
    if (along_side(R, a, b)) c.along = true;
    for (int k = 0; k < 4; ++k) if (on_segment(a, b, K[k])) { c.corner = true; corner_on[k] = true; }
  }
  c.all_corners_on = corner_on[0] && corner_on[1] && corner_on[2] && corner_on[3];
  if (!c.meets) { bool on = false; c.w_centre = winding(scaled(p, 2), P{R.l + R.r, R.t + R.b}, on); }
  c.simple = is_simple_closed(p);
  return c;
}

enum RegionMode { RM_EXACT, RM_PARITY, RM_OUTSIDE_ONLY };

// returns "" or "<tag>: witness"
static std::string region08(Ctx& cx, const Rc& R, const Path& p, const Paths& res, RegionMode mode) {
  i64 mabs = max_abs(R, Paths{p});
  i64 S = cx.S;
  Box bb; grow(bb, p); for (auto& k : corners(R)) grow(bb, k); grow(bb, res);
  i128 ext = std::max((i128)bb.x1 - bb.x0, (i128)bb.y1 - bb.y0) * S;
  i64 Hmin = 1; while ((i128)Hmin * cx.res < ext) Hmin *= 2;
  ld eps = 1e-6L + (ld)mabs * (ld)S * ldexpl(1.0L, -55);
  Path ps = scaled(p, S); Paths pss{ps};
  Rc Rs{R.l * S, R.t * S, R.r * S, R.b * S};
  Paths sol = scaled(res, S);
  auto payload = [&](const P& c, int& a, int& b, bool& skip) {
    bool on = false; a = winding(ps, c, on);
    b = in_open(Rs, c) ? 1 : 0;
    skip = on || on_bnd(Rs, c);
  };
  Box g = bb; i64 gb = 8; g.x0 -= gb; g.y0 -= gb; g.x1 += gb; g.y1 += gb;
  RWitness w; RStats st; bool good; RTree tree;
  auto run = [&](auto& margin) {
    tree = rtree_build(g, S, Hmin, margin, payload, eps);
    if (mode == RM_EXACT) {
      auto expect = [&](const RCell& c) -> int { return c.b ? c.a : 0; };
      good = rtree_check(tree, sol, expect, margin, payload, w, st, eps);
    } else if (mode == RM_PARITY) {
      auto agree = [&](int wv, const RCell& c) -> bool {
        if (!c.b) return wv == 0;
        if (wv == c.a) cnt("parity_points_winding_equal"); else cnt("parity_points_winding_differs");
        return ((wv - c.a) & 1) == 0;
      };
      good = region_check_cmp(tree, sol, agree, margin, payload, w, st, eps);
    } else {
      auto agree = [&](int wv, const RCell& c) -> bool { return c.b ? true : wv == 0; };
      good = region_check_cmp(tree, sol, agree, margin, payload, w, st, eps);
    }
  };
  if ((i128)mabs * S < ((i128)1 << 24)) { MarginEval<double> m(ps, Rs, S); run(m); }
  else { MarginEval<ld> m(ps, Rs, S); run(m); }
  cnt("region_checks"); cnt("tree_cells", tree.cells.size()); cnt("tree_free_cells", tree.n_free); cnt("exact_point_evals", st.evals);
  cnt("free_cells_decided", st.decided_free); cnt("cells_refined", st.refined); cnt("points_on_solution_edge_skipped", st.on_edge_skipped);
  if (mabs <= 4096) cx.rep.maxi("r_leaf_milli_units_unit_boards", (u64)(tree.r_leaf() * 1000));
  if (good) return "";
  // which clause failed: the witness is strictly inside or outside the rectangle
  bool inside = in_open(Rs, w.c);
  std::string tag = !inside ? "region_outside_covered" : mode == RM_EXACT ? "region_inside_winding" : "region_inside_parity";
  return tag + ": " + wit_str(w) + (mode == RM_PARITY ? " (parities must agree)" : "");
}

struct Flags08 { bool region = true; };

static Paths check_single08(Ctx& cx, const Rc& R, const Path& p, const Flags08& fl = Flags08()) {
  Paths in{p};
  Paths res = run_all_apis(cx, R, in);
  cnt("cases"); cnt("compared");
  Cls08 c = classify08(R, p);
  bool nontrivial = !res.empty() && res != in;
  if (nontrivial) cnt("nontrivial");
  if (c.touches) cnt("paths_touching_side");
  if (c.corner) cnt("paths_through_corner");
  if (c.along) cnt("paths_along_side");
  if (c.simple) cnt("paths_simple"); else cnt("paths_self_intersecting");
  if (res.size() > 1) cnt("results_with_several_paths");
  cx.rep.outcome(hash_paths(res, hash_str(rstr(R))));
  if (cx.verbose) printf("rect %s  path %s\n   result %s\n   simple=%d all_in_closed=%d bbox_disjoint=%d meets_open=%d touches=%d corner=%d all_corners_on_path=%d along=%d w_centre=%d\n", rstr(R).c_str(), str(p).c_str(), pstr(res).c_str(),
                         c.simple, c.all_in_closed, c.bbox_disjoint, c.meets, c.touches, c.corner, c.all_corners_on, c.along, c.w_centre);
  // ---- exact clauses
  bool implied = false;   // the exact clause that held implies the region clause
  if (c.all_in_closed) {
    cnt("clause_entirely_inside");
    if (res != in) cx.viol(R, in, "inside_not_unchanged", "every vertex lies in the closed rectangle but the result is " + pstr(res));
    else implied = true;
  }
  bool outside = !c.meets && c.w_centre == 0 && !c.all_in_closed;   // a (degenerate) polygon lying in the rectangle boundary counts as inside
  if (outside) {
    cnt("clause_entirely_outside"); if (c.bbox_disjoint) cnt("clause_entirely_outside_bbox_disjoint"); else if (c.touches || c.along || c.corner) cnt("clause_entirely_outside_but_touching");
    // one defect, one tag: when all four rectangle corners lie ON the path, the library cannot decide containment from the
    // corners and returns the whole rectangle (the winding / orientation clauses would only repeat this finding)
    if (c.all_corners_on && res.size() == 1 && res[0].size() == 4) {
      auto K4 = corners(R); Paths rc{Path(K4.begin(), K4.end())};
      if (canon_closed(res) == canon_closed(rc) || canon_closed(res) == canon_closed(reversed(rc))) {
        cnt(c.simple ? "outside_all_corners_on_path_simple_input" : "outside_all_corners_on_path_selfx_input");
        cx.viol(R, in, "outside_all_corners_on_path_returns_rect", std::string("the polygon (") + (c.simple ? "simple" : "self-intersecting") + ") covers no point of the open rectangle; all four rectangle corners lie on its edges; the result is the whole rectangle " + pstr(res));
        return res;
      }
    }
    bool only_degenerate = true; for (auto& q : res) if (q.size() >= 3) only_degenerate = false;
    if (!res.empty()) cx.viol(R, in, only_degenerate ? "outside_returns_degenerate_path" : "outside_not_empty",
                              std::string("no point of the polygon lies strictly inside the rectangle but the result is ") + pstr(res) + (only_degenerate ? " (only paths of fewer than 3 points)" : ""));
    else implied = true;
  }
  if (!c.meets && c.w_centre != 0) cnt("paths_enclosing_rect");
  i128 a_in = area2(p);
  for (auto& q : res) {
    if (q.size() < 3) {
      cnt("result_paths_with_fewer_than_3_vertices");
      if (c.simple) { cnt("result_paths_with_fewer_than_3_vertices_simple_input"); if (cx.rep.notes.size() < 2) cx.rep.notes.push_back("observation (not alarmed): result path of fewer than 3 points for a simple input: R=" + rstr(R) + " P=" + str(p) + " -> " + pstr(res)); }
    }
    if (c.simple) {
      i128 a = area2(q); cnt("clause_orientation_paths");
      if (a == 0) cnt("result_zero_area_paths");
      else if (sgn128(a) != sgn128(a_in)) cx.viol(R, in, "orientation_reversed", "input area2=" + i128str(a_in) + " but result path " + str(q) + " has area2=" + i128str(a));
    }
    for (auto& v : q) {
      cnt("clause_vertex_in_rect");
      if (!in_grown(R, v, 1)) { cx.viol(R, in, "vertex_outside_rect", "result vertex " + std::to_string(v.x) + "," + std::to_string(v.y) + " lies more than one unit outside the rectangle"); continue; }
      bool is_input = false; for (auto& u : p) if (u == v) { is_input = true; break; }
      if (is_input) continue;
      cnt("clause_new_vertices");
      ld d = dist_to_rect_bnd(R, v);
      if (d > 1.0L + 1e-9L) { char b[160]; snprintf(b, sizeof b, "new vertex %lld,%lld is %.4Lf units from the rectangle boundary", (long long)v.x, (long long)v.y, d); cx.viol(R, in, "new_vertex_off_boundary", b); }
      else if (d > 0) cnt("new_vertices_off_boundary_within_tolerance");
    }
  }
  // ---- region clause
  if (fl.region) {
    if (implied) cnt("region_implied_by_exact_clause");
    else {
      RegionMode mode = c.simple ? RM_EXACT : (c.along ? RM_OUTSIDE_ONLY : RM_PARITY);
      if (mode == RM_EXACT) cnt("region_mode_exact_winding"); else if (mode == RM_PARITY) cnt("region_mode_parity"); else cnt("skipped_parity_clause_selfx_edge_along_side");
      std::string why = region08(cx, R, p, res, mode);
      if (cx.verbose) printf("   region (%s): %s\n", mode == RM_EXACT ? "exact winding" : mode == RM_PARITY ? "parity" : "outside only", why.empty() ? "ok" : why.c_str());
      if (!why.empty()) cx.viol(R, in, why.substr(0, why.find(':')), why + " result=" + pstr(res));
    }
  }
  return res;
}

// two paths in one call: the result is the concatenation of the single results
static void check_pair(Ctx& cx, const Rc& R, const Path& p, const Path& q, const Paths& rp, const Paths& rq) {
  Paths in{p, q};
  Paths res = run_all_apis(cx, R, in);
  cnt("cases"); cnt("compared"); cnt("pair_cases");
  Paths want = rp; want.insert(want.end(), rq.begin(), rq.end());
  if (!res.empty() && res != in) { cnt("nontrivial"); }
  if (!rp.empty() && !rq.empty()) cnt("pair_cases_both_contribute");
  if (cx.verbose) printf("rect %s  pair %s\n   result %s\n   expected concatenation %s\n", rstr(R).c_str(), pstr(in).c_str(), pstr(res).c_str(), pstr(want).c_str());
  if (res != want) cx.viol(R, in, "concat_mismatch", "one call with both paths returned " + pstr(res) + " but the single-path results concatenate to " + pstr(want));
}

// ------------------------------------------------------------------------------------------ C09: one polyline
struct Iv { ld lo, hi; };

static std::string judge09(Ctx& cx, const Rc& R, const Path& p, const Paths& res, bool& cut) {
  char buf[320];
  const ld TOL_ON = 1.5L, STEP = 0.5L;
  i64 mabs = max_abs(R, Paths{p});
  const ld EPS = 1e-7L + (ld)mabs * ldexpl(1.0L, -50);
  size_t n = p.size();
  // ---- reference cutter
  std::vector<ld> A(n, 0);          // arc length at vertex i
  ld with = 0, without = 0; int crossings = 0;
  bool any_graze = false, any_through = false, any_along = false, any_end_on = false;
  auto K = corners(R);
  for (size_t i = 0; i + 1 < n; ++i) {
    const P& a = p[i]; const P& b = p[i + 1];
    ld L = hypotl((ld)((i128)b.x - a.x), (ld)((i128)b.y - a.y));
    A[i + 1] = A[i] + L;
    Fr t0, t1;
    if (!clip_closed(R, a, b, t0, t1)) continue;
    ld len = (fr_ld(t1) - fr_ld(t0)) * L;
    bool t0pos = t0.n > 0, t1lt = fr_lt(t1, Fr{1, 1});
    crossings += (t0pos ? 1 : 0) + (t1lt ? 1 : 0);
    with += len;
    if (on_side_line(R, a, b)) { if (len > 0) any_along = true; } else without += len;
    if (t0pos && t1lt && fr_lt(t0, t1)) any_through = true;
    if (!fr_lt(t0, t1)) for (auto& k : K) if (on_segment(a, b, k) && !(k == a) && !(k == b)) any_graze = true;
  }
  if (on_bnd(R, p[0]) || on_bnd(R, p[n - 1])) any_end_on = true;
  if (any_graze) cnt("lines_grazing_corner");
  if (any_through) cnt("lines_crossing_completely");
  if (any_along) cnt("lines_along_side");
  if (any_end_on) cnt("lines_end_on_boundary");
  cnt("crossings", crossings); if (crossings) cnt("cases_with_crossings");
  cut = crossings > 0;
  // ---- clause 2: inside the rectangle within one unit (vertices; segments follow by convexity)
  ld total = 0;
  for (auto& q : res) {
    if (q.size() < 2) return "piece_too_short: returned piece " + str(q) + " has fewer than two points";
    for (auto& v : q) { cnt("clause_vertex_in_rect"); if (!in_grown(R, v, 1)) { snprintf(buf, sizeof buf, "piece_outside_rect: vertex %lld,%lld lies more than one unit outside the rectangle", (long long)v.x, (long long)v.y); return buf; } }
    for (size_t i = 0; i + 1 < q.size(); ++i) total += hypotl((ld)((i128)q[i + 1].x - q[i].x), (ld)((i128)q[i + 1].y - q[i].y));
  }
  // ---- clause 1: on the input polyline within 1.5 units
  auto dist_poly = [&](ld x, ld y) { ld best = 1e300L; for (size_t i = 0; i + 1 < n; ++i) best = std::min(best, dist_pt_seg_ld(x, y, (ld)p[i].x, (ld)p[i].y, (ld)p[i + 1].x, (ld)p[i + 1].y)); return best; };
  for (auto& q : res) {
    for (auto& v : q) { cnt("clause_vertex_on_polyline"); ld d = dist_poly((ld)v.x, (ld)v.y); if (d > TOL_ON + EPS) { snprintf(buf, sizeof buf, "piece_off_polyline: vertex %lld,%lld is %.4Lf units from the input polyline", (long long)v.x, (long long)v.y, d); return buf; } }
    for (size_t i = 0; i + 1 < q.size(); ++i) {
      const P& u = q[i]; const P& v = q[i + 1];
      // convexity: both ends within tolerance of ONE input segment => the whole returned segment is
      bool covered = false;
      for (size_t j = 0; j + 1 < n && !covered; ++j) covered = dist_pt_seg(u, p[j], p[j + 1]) <= TOL_ON && dist_pt_seg(v, p[j], p[j + 1]) <= TOL_ON;
      if (covered) { cnt("piece_segments_within_one_input_segment"); continue; }
      cnt("piece_segments_sampled");
      ld dx = (ld)((i128)v.x - u.x), dy = (ld)((i128)v.y - u.y), L = hypotl(dx, dy);
      ld step = std::max(STEP, L / 4096);
      int steps = std::max(1, (int)ceill(L / step));
      for (int s = 0; s <= steps; ++s) {
        ld t = (ld)s / steps, x = (ld)u.x + t * dx, y = (ld)u.y + t * dy, d = dist_poly(x, y);
        if (d > TOL_ON + EPS) { snprintf(buf, sizeof buf, "piece_off_polyline: point (%.3Lf,%.3Lf) of returned segment %lld,%lld %lld,%lld is %.4Lf units from the input polyline", x, y, (long long)u.x, (long long)u.y, (long long)v.x, (long long)v.y, d); return buf; }
      }
    }
  }
  // ---- clause 3: input order and direction. Every returned vertex v (pieces concatenated) gets the set C(v) of arc-length
  // positions of input points within 1.5 units; there must be a non-decreasing choice s_1 <= s_2 <= ... with s_k in C(v_k)
  // (greedy smallest feasible position is optimal; existential, so polylines that revisit a place cannot alarm).
  {
    ld cur = -1; const ld rho = TOL_ON + EPS;
    for (size_t qi = 0; qi < res.size(); ++qi) for (size_t vi = 0; vi < res[qi].size(); ++vi) {
      const P& v = res[qi][vi];
      ld best = 1e300L; ld furthest = -1;
      for (size_t j = 0; j + 1 < n; ++j) {
        const P& a = p[j]; const P& b = p[j + 1];
        ld L = A[j + 1] - A[j]; if (L <= 0) continue;
        ld perp = fabsl((ld)cross128(a, b, v)) / L, along = (ld)dot128(a, b, v) / L;
        if (perp > rho) {
          // the disc may still reach an end point region: handled by clamping below only when perp <= rho
          continue;
        }
        ld h = sqrtl(std::max((ld)0, rho * rho - perp * perp));
        ld lo = std::max((ld)0, along - h), hi = std::min(L, along + h);
        if (lo > hi + EPS) continue;
        lo += A[j]; hi += A[j];
        furthest = std::max(furthest, hi);
        if (hi + EPS >= cur) best = std::min(best, std::max(lo, cur));
      }
      cnt("clause_order_vertices");
      if (best > 1e299L) {
        if (furthest < 0) continue;   // not near the polyline at all: clause 1 reports it
        snprintf(buf, sizeof buf, "order_direction: vertex %zu of piece %zu (%lld,%lld) maps to arc length <= %.3Lf but the preceding returned vertices already reached %.3Lf", vi, qi, (long long)v.x, (long long)v.y, furthest, cur);
        return buf;
      }
      cur = std::max(cur, best);
    }
  }
  // ---- clauses 4/5: total length
  ld tol = 2.0L * crossings + EPS * (1 + n);
  cnt("clause_length");
  if (total < without - tol || total > with + tol) {
    snprintf(buf, sizeof buf, "length: returned pieces total %.4Lf, exact inside length %.4Lf (%.4Lf without segments along a side), %d crossing(s)", total, with, without, crossings);
    return buf;
  }
  if (with > without && total > without + tol) cnt("along_side_segments_kept"); else if (with > without + tol) cnt("along_side_segments_dropped");
  return "";
}

static Paths check_single09(Ctx& cx, const Rc& R, const Path& p) {
  Paths in{p};
  Paths res = run_all_apis(cx, R, in);
  cnt("cases"); cnt("compared");
  if (!res.empty() && res != in) cnt("nontrivial");
  if (res.size() > 1) cnt("results_with_several_pieces");
  cnt("pieces", res.size());
  cx.rep.outcome(hash_paths(res, hash_str(rstr(R))));
  bool cut = false;
  std::string why = judge09(cx, R, p, res, cut);
  if (cx.verbose) printf("rect %s  polyline %s\n   result %s\n   verdict: %s\n", rstr(R).c_str(), str(p).c_str(), pstr(res).c_str(), why.empty() ? "ok" : why.c_str());
  if (!why.empty()) cx.viol(R, in, why.substr(0, why.find(':')), why + " result=" + pstr(res));
  return res;
}

// ------------------------------------------------------------------------------------------ scopes
static const i64 STEP_L = 20;

static std::vector<Rc> rect_list(const std::string& name) {
  std::vector<Rc> on = {{20, 20, 60, 60}, {0, 20, 80, 60}, {20, 0, 40, 80}};
  std::vector<Rc> between = {{10, 10, 70, 50}, {30, 30, 50, 50}, {-10, -10, 90, 90}, {100, 100, 120, 120}};
  std::vector<Rc> more = {{20, 20, 40, 40}, {40, 20, 80, 60}, {0, 0, 80, 80}, {13, 17, 67, 43}, {35, 5, 45, 75}, {10, 30, 70, 50}};
  std::vector<Rc> out;
  if (name == "quick") { out = on; out.insert(out.end(), between.begin(), between.end()); }
  else if (name == "full") { out = on; out.insert(out.end(), between.begin(), between.end()); out.insert(out.end(), more.begin(), more.end()); }
  else if (name == "core") { out = {{20, 20, 60, 60}, {10, 10, 70, 50}, {30, 30, 50, 50}}; }
  else if (name == "on") out = on;
  else if (name == "between") out = between;
  else {   // explicit list "l,t r,b;l,t r,b"
    for (auto& q : parse_paths(name)) if (q.size() == 2) out.push_back({q[0].x, q[0].y, q[1].x, q[1].y});
  }
  return out;
}

static const i64 K20 = (i64)1 << 20, T40 = (i64)1 << 40;
static std::vector<Mag> mag_list(const std::string& name) {
  std::vector<Mag> m;
  if (name == "0" || name.empty()) { m.push_back({1, 0, 0, "unit"}); return m; }
  m.push_back({K20, 0, 0, "x2^20"});
  m.push_back({K20, T40 - 80 * K20, T40 - 80 * K20, "x2^20+2^40"});
  m.push_back({K20, -T40, -T40, "x2^20-2^40"});
  m.push_back({K20, -T40, T40 - 80 * K20, "x2^20-+2^40"});
  m.push_back({1, T40 - 80, T40 - 80, "x1+2^40"});
  m.push_back({1, -T40, T40 - 80, "x1-+2^40"});
  m.push_back({(i64)1 << 33, 0, 0, "x2^33"});
  if (name == "2") m.push_back({1, 0, 0, "unit"});
  return m;
}
static Rc mag_rect(const Mag& m, const Rc& R) { return {R.l * m.k + m.tx, R.t * m.k + m.ty, R.r * m.k + m.tx, R.b * m.k + m.ty}; }
static bool in_range(const Rc& R, const Path& p) { return max_abs(R, Paths{p}) <= T40; }

// lazily enumerate ordered n-tuples of distinct indices < k (cyclic: first index is the smallest); fn returns false to stop
template <class F>
static bool tuples_lazy(int k, int n, bool cyclic, F&& fn) {
  std::vector<int> cur; std::vector<char> used(k, 0); bool go = true;
  std::function<void()> rec = [&]() {
    if (!go) return;
    if ((int)cur.size() == n) { go = fn(cur); return; }
    for (int i = 0; i < k && go; ++i) {
      if (used[i]) continue;
      if (cyclic && !cur.empty() && i < cur[0]) continue;
      used[i] = 1; cur.push_back(i); rec(); cur.pop_back(); used[i] = 0;
    }
  };
  rec();
  return go;
}
// closed / open walks with revisits: sequences over k symbols, consecutive symbols differ (closed: also last != first)
template <class F>
static bool walks_lazy(int k, int n, bool closed, F&& fn) {
  std::vector<int> cur; bool go = true;
  std::function<void()> rec = [&]() {
    if (!go) return;
    if ((int)cur.size() == n) { if (!closed || cur.back() != cur[0]) go = fn(cur); return; }
    for (int i = 0; i < k && go; ++i) { if (!cur.empty() && cur.back() == i) continue; cur.push_back(i); rec(); cur.pop_back(); }
  };
  rec();
  return go;
}

static Path pick(const std::vector<P>& board, const std::vector<int>& idx) { Path p; p.reserve(idx.size()); for (int i : idx) p.push_back(board[i]); return p; }

struct Probe { Path p; std::vector<Paths> res; };   // res per rectangle

static void check_one(Ctx& cx, const Rc& R, const Path& p) {
  std::string key;
  cx.rep.current_case = [&]() { return key_of(R, Paths{p}); };
  if (cx.lines) check_single09(cx, R, p); else check_single08(cx, R, p);
  cx.rep.current_case = nullptr;
}

// ------------------------------------------------------------------------------------------ watchdog
// A library call that burns more than 60 s of CPU time (an endless loop) is attributed to the running case as
// violation crash_signal_26 (SIGVTALRM). CPU time, not wall time, so that a loaded machine cannot raise it.
#include <sys/time.h>
static void arm_watchdog(int cpu_seconds = 60) {
  struct itimerval tv; memset(&tv, 0, sizeof tv); tv.it_value.tv_sec = cpu_seconds;
  setitimer(ITIMER_VIRTUAL, &tv, nullptr);
}

// ------------------------------------------------------------------------------------------ one scope
typedef std::map<std::string, std::string> Opts;
struct OptR {
  const Opts& o;
  std::string s(const std::string& k, const std::string& d) const { auto it = o.find(k); return it == o.end() ? d : it->second; }
  long long i(const std::string& k, long long d) const { auto it = o.find(k); return it == o.end() ? d : atoll(it->second.c_str()); }
};

// returns false when the deadline stopped the enumeration (bounds are pushed only when completed)
static bool run_scope(Ctx& cx, const Opts& opts) {
  Reporter& rep = cx.rep; OptR a{opts};
  cx.S = a.i("S", 2); cx.res = a.i("res", 2048);
  std::string scope = a.s("scope", cx.lines ? "lines" : "poly");
  int nmin = (int)a.i("nmin", cx.lines ? 2 : 3), nmax = (int)a.i("nmax", cx.lines ? 3 : 4);
  bool cyclic = a.i("cyclic", cx.lines ? 0 : 1) != 0;
  int sub = (int)a.i("sub", 5);
  std::vector<Rc> rects = rect_list(a.s("rects", "quick"));
  std::vector<Mag> mags = mag_list(a.s("mag", "0"));
  bool probes_on = a.i("probes", 1) != 0;
  u64 idx = 0; bool done = true; u64 since_poll = 0;
  auto poll = [&]() -> bool { arm_watchdog(); if (++since_poll >= 16) { since_poll = 0; if (rep.out_of_time()) return false; } return true; };

  if (scope == "poly" || scope == "lines") {
    // ------------------------------------------------------------------ all tuples of distinct lattice points
    std::vector<P> board = lattice(sub, sub, STEP_L);
    // "spread": the outermost lattice lines are moved far out (first line by -lo, last line by +hi, in x and in y), so that edges
    // from a corner region can pass round the far corner of the rectangle and end in the diagonally opposite corner region
    { i64 lo = a.i("lo", 0), hi = a.i("hi", 0), last = (i64)(sub - 1) * STEP_L;
      if (lo || hi) { auto f = [&](i64 c) { return c <= 0 ? c - lo : (c >= last ? c + hi : c); };
        for (auto& q : board) { q.x = f(q.x); q.y = f(q.y); }
        for (auto& R : rects) { R.l = f(R.l); R.r = f(R.r); R.t = f(R.t); R.b = f(R.b); } probes_on = false; } }
    // fixed probe partners for the concatenation clause (board coordinates)
    std::vector<Path> probe_paths;
    if (probes_on) {
      // (the last two partners are degenerate: a one-point path inside every rectangle and an empty path; alone they yield nothing,
      //  so in a two-path call they must add nothing either, whatever the other path left behind in the object)
      if (!cx.lines) probe_paths = {{{0, 0}, {80, 0}, {80, 80}, {0, 80}}, {{0, 80}, {80, 80}, {80, 0}, {0, 0}}, {{0, 0}, {80, 40}, {0, 80}}, {{0, 0}, {80, 0}, {80, 80}, {40, 40}, {0, 80}}, {{40, 40}}, {}};
      else probe_paths = {{{0, 0}, {80, 80}}, {{0, 40}, {40, 40}, {40, 0}}, {{40, 40}, {80, 40}, {40, 60}, {0, 60}}, {{40, 40}}, {}};
    }
    for (auto& m : mags) for (int n = nmin; n <= nmax && done; ++n) {
      std::vector<P> mb = mag_apply(m, board);
      std::vector<Rc> mr; std::vector<char> rect_ok;
      for (auto& R : rects) { Rc q = mag_rect(m, R); mr.push_back(q); rect_ok.push_back(max_abs(q, Paths()) <= T40); }
      // single results of the probes per rectangle
      std::vector<Probe> probes;
      for (auto& pp : probe_paths) { Probe pr; pr.p = mag_apply(m, pp); for (size_t ri = 0; ri < mr.size(); ++ri) pr.res.push_back(rect_ok[ri] ? (cx.lines ? lib_rl(mr[ri], Paths{pr.p}) : lib_rc(mr[ri], Paths{pr.p})) : Paths()); probes.push_back(pr); }
      bool completed = tuples_lazy(sub * sub, n, cyclic, [&](const std::vector<int>& t) -> bool {
        if (!rep.mine(idx++)) return true;
        if (!poll()) return false;
        Path p = pick(mb, t);
        for (size_t ri = 0; ri < mr.size(); ++ri) {
          if (!rect_ok[ri] || !in_range(mr[ri], p)) { cnt("skipped_out_of_range"); continue; }
          const Rc& R = mr[ri];
          Paths rp;
          rep.current_case = [&]() { return key_of(R, Paths{p}); };
          rp = cx.lines ? check_single09(cx, R, p) : check_single08(cx, R, p);
          for (auto& pr : probes) {
            rep.current_case = [&]() { return key_of(R, Paths{p, pr.p}); };
            check_pair(cx, R, p, pr.p, rp, pr.res[ri]);
            rep.current_case = [&]() { return key_of(R, Paths{pr.p, p}); };
            check_pair(cx, R, pr.p, p, pr.res[ri], rp);
          }
          rep.current_case = nullptr;
          if (rep.samples.size() < 4 && !rp.empty() && rp != Paths{p}) rep.sample("R=" + rstr(R) + " P=" + str(p) + " -> " + pstr(rp));
        }
        return true;
      });
      if (!completed) done = false;
      else rep.bounds_completed.push_back(std::string(scope) + " mag=" + m.name + " n=" + std::to_string(n) + " board=" + std::to_string(sub) + "x" + std::to_string(sub) + (cyclic ? " cyclic" : " all-starts") + " rects=" + std::to_string(rects.size()));
    }
  } else if (scope == "walks" || scope == "linewalks") {
    // ------------------------------------------------------------------ walks with revisits over a 3x3 lattice
    i64 wo = a.i("wo", 20), ws = a.i("ws", 20); int len = (int)a.i("len", 5), lmin = (int)a.i("lmin", cx.lines ? 2 : 3);
    std::vector<P> board = lattice(3, 3, ws, wo, wo);
    for (int n = lmin; n <= len && done; ++n) {
      bool completed = walks_lazy(9, n, !cx.lines, [&](const std::vector<int>& t) -> bool {
        if (!rep.mine(idx++)) return true;
        if (!poll()) return false;
        Path p = pick(board, t);
        for (auto& R : rects) { check_one(cx, R, p); if (!cx.lines) cnt("walk_cases"); }
        if (rep.samples.empty() && n >= 5 && (idx & 1023) == 1) rep.sample("walk R=" + rstr(rects[0]) + " P=" + str(p));
        return true;
      });
      if (!completed) done = false;
      else rep.bounds_completed.push_back(scope + " origin=" + std::to_string(wo) + " step=" + std::to_string(ws) + " len=" + std::to_string(n) + " rects=" + std::to_string(rects.size()));
    }
  } else if (scope == "rectil") {
    // ------------------------------------------------------------------ rectilinear polygons: n distinct lattice points, edges alternately
    // horizontal / vertical (both phases, every start vertex), simple and self-intersecting: notches, U- and C-shapes hugging the rectangle
    std::vector<P> board = lattice(sub, sub, STEP_L);
    // "stretch": the last lattice column (sx) / row (sy) is moved outwards, so that shapes are lopsided: the centre of a path's
    // bounding box then differs from the centre of the rectangle it hugs
    { i64 sx = a.i("sx", 0), sy = a.i("sy", 0), last = (i64)(sub - 1) * STEP_L;
      auto fx = [&](i64 c) { return c >= last ? c + sx : c; }; auto fy = [&](i64 c) { return c >= last ? c + sy : c; };
      for (auto& q : board) { q.x = fx(q.x); q.y = fy(q.y); }
      for (auto& R : rects) { R.l = fx(R.l); R.r = fx(R.r); R.t = fy(R.t); R.b = fy(R.b); } }
    for (int n = nmin; n <= nmax && done; n += 2) {
      bool go = true;
      for (int type = 0; type < 2 && go; ++type) {
        std::vector<int> cur; std::vector<char> used(board.size(), 0);
        std::function<void()> rec = [&]() {
          if (!go) return;
          int i = (int)cur.size();
          if (i == n) {
            bool horiz = ((n - 1 + type) & 1) == 0;   // orientation of the closing edge
            const P& a = board[cur.back()]; const P& b = board[cur[0]];
            if (horiz ? a.y != b.y : a.x != b.x) return;
            if (!rep.mine(idx++)) return;
            if (!poll()) { go = false; return; }
            Path p = pick(board, cur);
            for (auto& R : rects) { check_one(cx, R, p); cnt("rectilinear_cases"); }
            return;
          }
          if (i == 0) { for (int j = 0; j < (int)board.size() && go; ++j) { used[j] = 1; cur.push_back(j); rec(); cur.pop_back(); used[j] = 0; } return; }
          bool horiz = ((i - 1 + type) & 1) == 0;     // orientation of edge i-1 (from point i-1 to point i)
          const P& a = board[cur.back()];
          for (int j = 0; j < (int)board.size() && go; ++j) {
            if (used[j]) continue;
            if (horiz ? board[j].y != a.y : board[j].x != a.x) continue;
            used[j] = 1; cur.push_back(j); rec(); cur.pop_back(); used[j] = 0;
          }
        };
        rec();
      }
      if (!go) done = false;
      else rep.bounds_completed.push_back("rectil n=" + std::to_string(n) + " board=" + std::to_string(sub) + "x" + std::to_string(sub) + " all-starts rects=" + std::to_string(rects.size()) + (a.i("sx", 0) || a.i("sy", 0) ? " last column/row moved out by " + std::to_string(a.i("sx", 0)) + "/" + std::to_string(a.i("sy", 0)) : std::string()));
    }
  } else if (scope == "laps") {
    // ------------------------------------------------------------------ rings around a central rectangle, k laps
    std::vector<Path> rings;
    rings.push_back({{20, 20}, {40, 20}, {60, 20}, {60, 40}, {60, 60}, {40, 60}, {20, 60}, {20, 40}});
    rings.push_back({{0, 0}, {40, 0}, {80, 0}, {80, 40}, {80, 80}, {40, 80}, {0, 80}, {0, 40}});
    { Path r16; for (i64 x = 0; x <= 80; x += 20) r16.push_back({x, 0}); for (i64 y = 20; y <= 80; y += 20) r16.push_back({80, y}); for (i64 x = 60; x >= 0; x -= 20) r16.push_back({x, 80}); for (i64 y = 60; y >= 20; y -= 20) r16.push_back({0, y}); rings.push_back(r16); }
    rings.push_back({{20, 0}, {60, 0}, {80, 20}, {80, 60}, {60, 80}, {20, 80}, {0, 60}, {0, 20}});   // octagon: diagonal edges cut the board corners
    std::vector<P> inside_pts = {{40, 40}};
    int maxlaps = (int)a.i("laps", 3);
    for (auto& m : mags) {
      for (size_t gi = 0; gi < rings.size() && done; ++gi) for (int k = 1; k <= maxlaps && done; ++k) for (int dir = 0; dir < 2 && done; ++dir) for (size_t rot = 0; rot < rings[gi].size() && done; ++rot) {
        if (!rep.mine(idx++)) continue;
        Path ring = rings[gi]; if (dir) std::reverse(ring.begin(), ring.end());
        Path walk; size_t mlen = ring.size();
        for (int lap = 0; lap < k; ++lap) for (size_t i = 0; i < mlen; ++i) walk.push_back(ring[(rot + i) % mlen]);
        for (int ins = -1; ins < (int)walk.size() && done; ++ins) {
          if (!poll()) { done = false; break; }
          Path w = walk;
          if (ins >= 0) w.insert(w.begin() + ins + 1, inside_pts[0]);
          Path wm = mag_apply(m, w);
          for (auto& R0 : rects) {
            Rc R = mag_rect(m, R0);
            if (!in_range(R, wm)) { cnt("skipped_out_of_range"); continue; }
            arm_watchdog();
            check_one(cx, R, wm); cnt("wrap_cases"); cnt("wrap_laps", k); if (ins >= 0 && in_open(R0, inside_pts[0])) cnt("wrap_cases_with_vertex_inside");
          }
        }
      }
      if (done) rep.bounds_completed.push_back("laps<=" + std::to_string(maxlaps) + " mag=" + m.name + " rings=4 rects=" + std::to_string(rects.size()));
    }
  } else if (scope == "pairs" || scope == "linepairs") {
    // ------------------------------------------------------------------ every ordered pair over a 3x3 lattice, one call
    i64 wo = a.i("wo", 0), ws = a.i("ws", 40);
    std::vector<P> board = lattice(3, 3, ws, wo, wo);
    std::vector<Path> items;
    for (int n = nmin; n <= nmax; ++n) tuples_lazy(9, n, cyclic, [&](const std::vector<int>& t) { items.push_back(pick(board, t)); return true; });
    for (auto& R : rects) {
      if (!done) break;
      std::vector<Paths> single(items.size());
      for (size_t i = 0; i < items.size(); ++i) single[i] = cx.lines ? lib_rl(R, Paths{items[i]}) : lib_rc(R, Paths{items[i]});
      for (size_t i = 0; i < items.size(); ++i) {
        if (!rep.mine(idx++)) continue;
        if (!poll()) { done = false; break; }
        for (size_t j = 0; j < items.size(); ++j) {
          rep.current_case = [&]() { return key_of(R, Paths{items[i], items[j]}); };
          check_pair(cx, R, items[i], items[j], single[i], single[j]);
        }
        rep.current_case = nullptr;
      }
    }
    if (done) rep.bounds_completed.push_back(scope + " origin=" + std::to_string(wo) + " step=" + std::to_string(ws) + " n=" + std::to_string(nmin) + ".." + std::to_string(nmax) + (cyclic ? " cyclic" : " all-starts") + " items=" + std::to_string(items.size()) + " rects=" + std::to_string(rects.size()));
  } else { fprintf(stderr, "unknown scope %s\n", scope.c_str()); exit(2); }
  return done;
}

// ------------------------------------------------------------------------------------------ plans
// A plan is the list of scopes one tier runs, in ONE process per shard, so that the driver's deadline bounds the
// whole tier (every shard starts at time 0). Cheap scopes first: if the deadline fires, only the last, largest bounds
// are left incomplete.
static const char* RB20 = "30,30 50,50;20,20 60,60;25,35 55,45";   // rectangles for the 3x3 walk board {20,40,60}^2
static const char* RB40 = "20,20 60,60;10,30 70,50";               // rectangles for the 3x3 walk board {0,40,80}^2
static const char* RLAPS = "30,30 50,50;20,20 60,60;10,10 70,70;35,25 45,55;0,0 80,80";
static const char* RHEX44 = "20,20 40,40;10,10 50,30;30,10 50,50;0,20 60,40";   // hexagons over the 4x4 sub-lattice {0,20,40,60}^2
static const char* RREC44 = "20,20 40,40;20,10 40,30;10,20 30,40;10,10 50,30;0,20 60,40;20,0 40,60";   // rectilinear polygons over the 4x4 sub-lattice

static std::vector<Opts> plan(const std::string& name) {
  std::vector<Opts> p;
  if (name == "c08quick") {
    p.push_back({{"scope", "laps"}, {"laps", "3"}, {"rects", "30,30 50,50;20,20 60,60;10,10 70,70"}});
    p.push_back({{"scope", "pairs"}, {"nmin", "3"}, {"nmax", "4"}, {"cyclic", "1"}, {"wo", "0"}, {"ws", "40"}, {"rects", "core"}});
    p.push_back({{"scope", "pairs"}, {"nmin", "3"}, {"nmax", "4"}, {"cyclic", "1"}, {"wo", "20"}, {"ws", "20"}, {"rects", "30,30 50,50;20,20 60,60"}});
    p.push_back({{"scope", "rectil"}, {"nmin", "4"}, {"nmax", "8"}, {"sub", "4"}, {"rects", RREC44}});
    p.push_back({{"scope", "rectil"}, {"nmin", "8"}, {"nmax", "8"}, {"sub", "4"}, {"rects", "20,20 40,40;20,10 40,30;10,20 30,40"}, {"sx", "140"}, {"sy", "60"}});
    p.push_back({{"scope", "walks"}, {"len", "5"}, {"wo", "20"}, {"ws", "20"}, {"rects", RB20}});
    p.push_back({{"scope", "walks"}, {"len", "5"}, {"wo", "0"}, {"ws", "40"}, {"rects", RB40}});
    p.push_back({{"scope", "poly"}, {"nmin", "3"}, {"nmax", "5"}, {"cyclic", "1"}, {"sub", "4"}, {"rects", "20,20 40,40"}, {"lo", "900"}, {"hi", "150"}, {"probes", "0"}});
    p.push_back({{"scope", "poly"}, {"nmin", "3"}, {"nmax", "3"}, {"cyclic", "0"}, {"rects", "quick"}, {"probes", "0"}});
    p.push_back({{"scope", "poly"}, {"nmin", "3"}, {"nmax", "3"}, {"cyclic", "1"}, {"rects", "quick"}, {"mag", "1"}, {"res", "512"}});
    p.push_back({{"scope", "poly"}, {"nmin", "3"}, {"nmax", "4"}, {"cyclic", "1"}, {"rects", "quick"}});
    // a 7x7 lattice round a small off-centre rectangle: vertices on the extension of a side far beyond the corners, edges through a corner
    p.push_back({{"scope", "poly"}, {"nmin", "3"}, {"nmax", "4"}, {"cyclic", "0"}, {"sub", "7"}, {"rects", "40,40 80,60"}, {"probes", "0"}});
  } else if (name == "c08thorough") {
    p.push_back({{"scope", "poly"}, {"nmin", "3"}, {"nmax", "4"}, {"cyclic", "0"}, {"sub", "7"}, {"rects", "40,40 80,60;40,40 60,80;20,40 80,60"}, {"probes", "0"}});
    p.push_back({{"scope", "laps"}, {"laps", "3"}, {"rects", RLAPS}, {"mag", "2"}, {"res", "512"}});
    p.push_back({{"scope", "pairs"}, {"nmin", "3"}, {"nmax", "4"}, {"cyclic", "0"}, {"wo", "0"}, {"ws", "40"}, {"rects", "core"}});
    p.push_back({{"scope", "pairs"}, {"nmin", "3"}, {"nmax", "4"}, {"cyclic", "0"}, {"wo", "20"}, {"ws", "20"}, {"rects", "30,30 50,50;20,20 60,60"}});
    p.push_back({{"scope", "rectil"}, {"nmin", "4"}, {"nmax", "10"}, {"sub", "4"}, {"rects", RREC44}});
    p.push_back({{"scope", "rectil"}, {"nmin", "4"}, {"nmax", "10"}, {"sub", "4"}, {"rects", RREC44}, {"sx", "140"}, {"sy", "60"}});
    p.push_back({{"scope", "poly"}, {"nmin", "3"}, {"nmax", "5"}, {"cyclic", "1"}, {"sub", "4"}, {"rects", "20,20 40,40;20,10 40,30;10,20 30,40"}, {"lo", "900"}, {"hi", "150"}, {"probes", "0"}});
    p.push_back({{"scope", "rectil"}, {"nmin", "4"}, {"nmax", "8"}, {"sub", "5"}, {"rects", "full"}});
    p.push_back({{"scope", "walks"}, {"len", "6"}, {"wo", "0"}, {"ws", "40"}, {"rects", RB40}});
    p.push_back({{"scope", "poly"}, {"nmin", "3"}, {"nmax", "4"}, {"cyclic", "0"}, {"rects", "quick"}, {"probes", "0"}});
    p.push_back({{"scope", "poly"}, {"nmin", "3"}, {"nmax", "4"}, {"cyclic", "1"}, {"rects", "quick"}, {"mag", "1"}, {"res", "512"}});
    p.push_back({{"scope", "walks"}, {"len", "7"}, {"wo", "20"}, {"ws", "20"}, {"rects", RB20}});
    p.push_back({{"scope", "poly"}, {"nmin", "3"}, {"nmax", "5"}, {"cyclic", "1"}, {"rects", "full"}});
    p.push_back({{"scope", "poly"}, {"nmin", "6"}, {"nmax", "6"}, {"cyclic", "1"}, {"sub", "4"}, {"rects", RHEX44}, {"probes", "0"}});
  } else if (name == "c09quick") {
    p.push_back({{"scope", "linewalks"}, {"len", "5"}, {"wo", "20"}, {"ws", "20"}, {"rects", RB20}});
    p.push_back({{"scope", "linewalks"}, {"len", "5"}, {"wo", "0"}, {"ws", "40"}, {"rects", RB40}});
    p.push_back({{"scope", "linepairs"}, {"nmin", "2"}, {"nmax", "3"}, {"wo", "0"}, {"ws", "40"}, {"rects", "core"}});
    p.push_back({{"scope", "linepairs"}, {"nmin", "2"}, {"nmax", "3"}, {"wo", "20"}, {"ws", "20"}, {"rects", "30,30 50,50;20,20 60,60"}});
    p.push_back({{"scope", "lines"}, {"nmin", "2"}, {"nmax", "3"}, {"rects", "quick"}, {"mag", "1"}});
    p.push_back({{"scope", "lines"}, {"nmin", "2"}, {"nmax", "4"}, {"rects", "full"}});
  } else if (name == "c09thorough") {
    p.push_back({{"scope", "linewalks"}, {"len", "7"}, {"wo", "20"}, {"ws", "20"}, {"rects", RB20}});
    p.push_back({{"scope", "linewalks"}, {"len", "7"}, {"wo", "0"}, {"ws", "40"}, {"rects", RB40}});
    p.push_back({{"scope", "linepairs"}, {"nmin", "2"}, {"nmax", "4"}, {"wo", "0"}, {"ws", "40"}, {"rects", "core"}});
    p.push_back({{"scope", "linepairs"}, {"nmin", "2"}, {"nmax", "4"}, {"wo", "20"}, {"ws", "20"}, {"rects", "30,30 50,50;20,20 60,60"}});
    p.push_back({{"scope", "lines"}, {"nmin", "2"}, {"nmax", "4"}, {"rects", "quick"}, {"mag", "1"}});
    p.push_back({{"scope", "lines"}, {"nmin", "2"}, {"nmax", "5"}, {"rects", "full"}});
  } else { fprintf(stderr, "unknown plan %s\n", name.c_str()); exit(2); }
  return p;
}

int main(int argc, char** argv) {
  Args a = parse_args(argc, argv);
  Reporter rep(a); install_crash_handler(rep);
  signal(SIGVTALRM, crash_handler);
  std::string prop = a.prop.empty() ? "C08" : a.prop;
  Ctx cx{rep, prop == "C09"}; cx.prop = prop; rep.current_prop = prop;
  cx.S = a.opti("S", 2); cx.res = a.opti("res", 2048);

  if (!a.replay.empty()) {
    Case c = Case::parse(a.replay);
    Rc R; if (!rparse(c.get("R"), R)) { fprintf(stderr, "bad rectangle in replay case\n"); return 2; }
    Paths in = c.getp("P"); cx.verbose = true;
    if (max_abs(R, in) > ((i64)1 << 20)) cx.res = 512;   // the magnitude scopes run at this resolution
    if (a.extra.count("res")) cx.res = a.opti("res", 2048);
    arm_watchdog();
    if (in.size() == 1) check_one(cx, R, in[0]);
    else if (in.size() == 2) {
      Paths rp = cx.lines ? check_single09(cx, R, in[0]) : check_single08(cx, R, in[0]);
      Paths rq = cx.lines ? check_single09(cx, R, in[1]) : check_single08(cx, R, in[1]);
      check_pair(cx, R, in[0], in[1], rp, rq);
    } else { fprintf(stderr, "replay case needs one or two paths\n"); return 2; }
    printf("violations: %llu\n", (unsigned long long)rep.nviol);
    for (auto& x : rep.viols) printf("  %s %s: %s\n", x.prop.c_str(), x.tag.c_str(), x.detail.c_str());
    return rep.nviol ? 1 : 0;
  }

  std::vector<Opts> todo;
  if (a.extra.count("plan")) todo = plan(a.opt("plan"));
  else todo.push_back(a.extra);
  for (auto& o : todo) if (!run_scope(cx, o)) { rep.exhaustive = false; break; }
  arm_watchdog(0);
  rep.add("lib_calls", g_calls);
  flush_counters(rep);
  rep.write();
  return 0;
}
