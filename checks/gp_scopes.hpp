// Enumerators of the general-position boolean scopes shared by C01, C03, C04, C13, C15
// (DESIGN.md section 2, "C01 scopes").
//   S1: one subject polygon over PS x one clip polygon over PC
//   S2: two subject polygons + one clip polygon on the enlarged board
//   S3: S1 under the magnitude alphabet M
#pragma once
#include "../engine/boards.hpp"

namespace vf {

struct GpInput { Paths subj, clip; const Mag* mag; std::string scope; };

inline const std::vector<Mag>& mag_alphabet() {
  static const std::vector<Mag> M = {
      {7, 0, 0, "x7"},
      {1, (i64)1 << 29, -((i64)1 << 29), "t2^29"},
      {1, -((i64)1 << 40), (i64)1 << 40, "t2^40"},
      {(i64)1 << 20, 0, 0, "x2^20"},
      {(i64)1 << 20, (i64)1 << 50, -((i64)1 << 50), "x2^20t2^50"},
      {(i64)1 << 36, 0, 0, "x2^36"},
      {(i64)1 << 30, ((i64)1 << 61) - ((i64)1 << 37), -((i64)1 << 61) + 5, "x2^30t2^61"},
      {(i64)1 << 52, 0, 0, "x2^52"},
      {(i64)1 << 53, -((i64)1 << 60), -((i64)1 << 60), "x2^53t-2^60"},
  };
  return M;
}

// calls f(input) for every member of the scope owned by this shard. Returns false when the deadline was hit.
template <class F>
inline bool for_each_gp(const Args& a, Reporter& rep, F f) {
  std::string scope = a.opt("scope", "S1");
  int k = (int)a.opti("k", 6), nmin = (int)a.opti("nmin", 3), nmax = (int)a.opti("nmax", 4);
  auto PS = board_PS(a.seed), PC = board_PC(a.seed);
  u64 idx = 0;
  if (scope == "S1" || scope == "S3") {
    std::vector<Path> subs = polygons_over(PS, k, nmin, nmax), clips = polygons_over(PC, k, nmin, nmax);
    for (auto& s : subs)
      for (auto& c : clips) {
        if (!rep.mine(idx++)) continue;
        if ((idx & 63) == 0 && rep.out_of_time()) return false;
        Paths S{s}, C{c};
        rep.add("inputs_enumerated");
        if (!general_position(Paths{s, c})) { rep.add("skipped_not_general_position"); continue; }
        if (scope == "S1") { GpInput in{S, C, nullptr, scope}; f(in); }
        else for (auto& m : mag_alphabet()) { GpInput in{mag_apply(m, S), mag_apply(m, C), &m, scope}; f(in); }
      }
    rep.bounds_completed.push_back(scope + " k=" + std::to_string(k) + " n=" + std::to_string(nmin) + ".." + std::to_string(nmax));
    return true;
  }
  if (scope == "S2") {
    // enlarged board (x3) so that a useful share of three-path sets passes the clearance filter
    for (auto& p : PS) { p.x *= 3; p.y *= 3; }
    for (auto& p : PC) { p.x *= 3; p.y *= 3; }
    int n2 = std::min(nmax, 4);
    std::vector<Path> subs = polygons_over(PS, k, 3, n2), clips = polygons_over(PC, k, 3, n2);
    for (size_t i = 0; i < subs.size(); ++i)
      for (size_t j = i + 1; j < subs.size(); ++j) {
        if (!rep.mine(idx++)) continue;
        if (rep.out_of_time()) return false;
        if (!general_position(Paths{subs[i], subs[j]})) { rep.add("skipped_not_general_position", clips.size()); rep.add("inputs_enumerated", clips.size()); continue; }
        for (auto& c : clips) {
          rep.add("inputs_enumerated");
          if (!general_position(Paths{subs[i], subs[j], c})) { rep.add("skipped_not_general_position"); continue; }
          GpInput in{Paths{subs[i], subs[j]}, Paths{c}, nullptr, scope}; f(in);
        }
      }
    rep.bounds_completed.push_back(scope + " k=" + std::to_string(k) + " n=3.." + std::to_string(n2));
    return true;
  }
  fprintf(stderr, "unknown scope %s\n", scope.c_str()); exit(2);
}

} // namespace vf
