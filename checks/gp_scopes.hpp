// Enumerators of the general-position boolean scopes shared by C01, C03, C04, C13, C15
// (DESIGN.md section 2, "C01 scopes").
//   S1: one subject polygon over PS x one clip polygon over PC
//   S2: two subject polygons + one clip polygon on the enlarged board
//   S3: S1 under the magnitude alphabet M
#pragma once
#include "../engine/boards.hpp"

namespace vf {

struct GpInput { Paths subj, clip; const Mag* mag; std::string scope; };

inline const std::vector<Mag>& mag_alphabet() {
  static const std::vector<Mag> M = {
      {7, 0, 0, "x7"},
      {1, (i64)1 << 29, -((i64)1 << 29), "t2^29"},
      {1, -((i64)1 << 40), (i64)1 << 40, "t2^40"},
      {(i64)1 << 20, 0, 0, "x2^20"},
      {(i64)1 << 20, (i64)1 << 50, -((i64)1 << 50), "x2^20t2^50"},
      {(i64)1 << 36, 0, 0, "x2^36"},
      {(i64)1 << 30, ((i64)1 << 61) - ((i64)1 << 37), -((i64)1 << 61) + 5, "x2^30t2^61"},
      {(i64)1 << 52, 0, 0, "x2^52"},
      {(i64)1 << 53, -((i64)1 << 60), -((i64)1 << 60), "x2^53t-2^60"},
  };
  return M;
}

// calls f(input) for every member of the scope owned by this shard. Returns false when the deadline was hit.
template <class F>
inline bool for_each_gp(const Args& a, Reporter& rep, F f) {
  std::string scope = a.opt("scope", "S1");
  int k = (int)a.opti("k", 6), nmin = (int)a.opti("nmin", 3), nmax = (int)a.opti("nmax", 4);
  auto PS = board_PS(a.seed), PC = board_PC(a.seed);
  // "aligned" boards: several point pairs share an x or a y, so that the tuples contain vertical and horizontal edges, vertices on
  // one scanline and edges ending exactly above/below other vertices (still subject to the general-position filter)
  if (a.opt("board", "generic") == "aligned") {
    PS = {{3, 5}, {61, 5}, {97, 41}, {61, 99}, {7, 77}, {44, 50}, {80, 77}, {25, 30}};
    PC = {{10, 48}, {50, 8}, {92, 20}, {92, 90}, {30, 95}, {52, 58}, {70, 48}, {10, 15}};
    if (a.seed) for (auto* b : {&PS, &PC}) for (auto& p : *b) { p.x = (p.x * (2 + a.seed % 97) + 17 * a.seed) % 101; p.y = (p.y * (3 + (a.seed / 97) % 97) + 29 * a.seed) % 101; }
  }
  // "twins" boards: coordinates of the order 10^5 and, next to two of the points, a twin about ten units away: a path that visits a
  // point, a far point and the twin has a needle-thin spike, whose crossings with other edges lie a few units from each other (general
  // position still holds: every distance is at least 3 units). This is where rounded intersection points make solution rings
  // self-cross, which the clean-up passes (FixSelfIntersects during BuildPaths / BuildTree) then have to repair.
  if (a.opt("board", "generic") == "twins") {
    // (the last point of each board lies 5 units off the middle of the segment between its third and fourth point: a vertex next to an edge)
    PS = {{3000, 5000}, {61000, 2000}, {97000, 41000}, {80000, 77000}, {44000, 50000}, {3007, 5011}, {61009, 1994}, {88504, 59002}};
    PC = {{10000, 48000}, {50000, 8000}, {92000, 20000}, {30000, 95000}, {52000, 58000}, {10008, 47991}, {50011, 8007}, {60996, 57497}};
    if (a.seed) for (auto* b : {&PS, &PC}) for (auto& p : *b) { p.x += 37 * (i64)(a.seed % 1009); p.y -= 53 * (i64)(a.seed % 1013); }
  }
  // "flat" boards: coordinates of the order 10^5..10^6; the clip board's point pairs span edges flatter than 1:100 that cross the subject board's
  // steep edge (x = 0) two thousandths of a unit above / below the height of a far-away subject vertex (-500, 500, -1500): the crossing then
  // rounds onto a scanline it does not belong to and the engine has to re-place it on the flat edge (AddNewIntersectNode's out-of-scanbeam
  // correction, GetClosestPointOnSegment); all vertices and crossings keep a clearance of hundreds of units
  if (a.opt("board", "generic") == "flat") {
    PS = {{0, 1000}, {0, -2000}, {-300000, -500}, {300007, 500}, {-299000, -1500}, {13, 2600}, {299001, 1500}, {7, -2700}};
    PC = {{400000, 1500}, {-600001, -3500}, {-400000, -2500}, {600001, 2500}, {400000, 2500}, {-600001, -2500}, {-400000, -3500}, {600001, 1500}};
    if (a.seed) for (auto* b : {&PS, &PC}) for (auto& p : *b) { p.x += 37 * (i64)(a.seed % 1009); p.y -= 53 * (i64)(a.seed % 1013); }
  }
  // "custom": boards given on the command line (--PS "x,y x,y ..." --PC "...")
  if (a.opt("board", "generic") == "custom") {
    Paths ps = parse_paths(a.opt("PS", "")), pc = parse_paths(a.opt("PC", ""));
    if (ps.size() != 1 || pc.size() != 1) { fprintf(stderr, "custom board needs --PS and --PC\n"); exit(2); }
    PS = ps[0]; PC = pc[0];
    if (a.seed) for (auto* b : {&PS, &PC}) for (auto& p : *b) { p.x += 37 * (i64)(a.seed % 1009); p.y -= 53 * (i64)(a.seed % 1013); }
  }
  u64 idx = 0;
  if (scope == "S1" || scope == "S3") {
    std::vector<Path> subs = polygons_over(PS, k, nmin, nmax), clips = polygons_over(PC, k, nmin, nmax);
    for (auto& s : subs)
      for (auto& c : clips) {
        if (!rep.mine(idx++)) continue;
        if ((idx & 63) == 0 && rep.out_of_time()) return false;
        Paths S{s}, C{c};
        rep.add("inputs_enumerated");
        if (!general_position(Paths{s, c})) { rep.add("skipped_not_general_position"); continue; }
        if (scope == "S1") { GpInput in{S, C, nullptr, scope}; f(in); }
        else for (auto& m : mag_alphabet()) { GpInput in{mag_apply(m, S), mag_apply(m, C), &m, scope}; f(in); }
      }
    rep.bounds_completed.push_back(scope + " board=" + a.opt("board", "generic") + " k=" + std::to_string(k) + " n=" + std::to_string(nmin) + ".." + std::to_string(nmax));
    return true;
  }
  if (scope == "S0") {
    // a single (mostly self-intersecting) subject path, no clip path; both boards' points may be used
    std::vector<P> B = PS; if (a.opti("both", 0)) B.insert(B.end(), PC.begin(), PC.end());
    std::vector<Path> subs = polygons_over(B, std::min<int>(k, (int)B.size()), nmin, nmax);
    for (auto& s : subs) {
      if (!rep.mine(idx++)) continue;
      if ((idx & 63) == 0 && rep.out_of_time()) return false;
      rep.add("inputs_enumerated");
      if (!general_position(Paths{s})) { rep.add("skipped_not_general_position"); continue; }
      GpInput in{Paths{s}, Paths(), nullptr, scope}; f(in);
      if (a.opti("cliponly", 0)) { GpInput in2{Paths(), Paths{s}, nullptr, scope}; f(in2); }   // the same path as the only CLIP path, no subject at all
    }
    rep.bounds_completed.push_back(scope + " board=" + a.opt("board", "generic") + " k=" + std::to_string(k) + " n=" + std::to_string(nmin) + ".." + std::to_string(nmax));
    return true;
  }
  if (scope == "S2") {
    // enlarged board (x3) so that a useful share of three-path sets passes the clearance filter
    for (auto& p : PS) { p.x *= 3; p.y *= 3; }
    for (auto& p : PC) { p.x *= 3; p.y *= 3; }
    int n2 = std::min(nmax, 4);
    std::vector<Path> subs = polygons_over(PS, k, 3, n2), clips = polygons_over(PC, k, 3, n2);
    for (size_t i = 0; i < subs.size(); ++i)
      for (size_t j = i + 1; j < subs.size(); ++j) {
        if (!rep.mine(idx++)) continue;
        if (rep.out_of_time()) return false;
        if (!general_position(Paths{subs[i], subs[j]})) { rep.add("skipped_not_general_position", clips.size()); rep.add("inputs_enumerated", clips.size()); continue; }
        for (auto& c : clips) {
          rep.add("inputs_enumerated");
          if (!general_position(Paths{subs[i], subs[j], c})) { rep.add("skipped_not_general_position"); continue; }
          GpInput in{Paths{subs[i], subs[j]}, Paths{c}, nullptr, scope}; f(in);
        }
      }
    rep.bounds_completed.push_back(scope + " k=" + std::to_string(k) + " n=3.." + std::to_string(n2));
    return true;
  }
  if (scope == "S5") {
    // K nested squares of one orientation (winding number K at the centre) next to one clip triangle, K round 128 and 256: winding
    // counts beyond the range of a byte. Seed-independent.
    for (int K : {127, 128, 129, 255, 256, 257}) {
      if (!rep.mine(idx++)) continue;
      if (rep.out_of_time()) return false;
      Paths S; for (int i = 1; i <= K; ++i) { i64 h = 8 * i; S.push_back(Path{{-h, -h}, {h, -h}, {h, h}, {-h, h}}); }
      i64 R = 8 * (i64)K;
      Paths C{Path{{R + 40, -R - 45}, {R + 379, 7}, {R + 73, R / 2 + 203}}};   // a clip triangle beside the squares (no crossings: the rings alone carry the winding numbers)
      rep.add("inputs_enumerated");
      Paths all = S; all.push_back(C[0]);
      if (!general_position(all)) { rep.add("skipped_not_general_position"); continue; }
      GpInput in{S, C, nullptr, scope}; f(in);
    }
    rep.bounds_completed.push_back("S5 nested squares K=127,128,129,255,256,257");
    return true;
  }
  if (scope == "S4") {
    // one subject triangle + THREE clip triangles: every partition of 9 clip-board points into three triangles, every orientation
    // assignment, against every subject triangle; enlarged board (x3) for clearance. Reaches solution rings that touch in rounded
    // crossing points (several holes meeting), which one clip path cannot produce.
    for (auto& p : PS) { p.x *= 3; p.y *= 3; }
    for (auto& p : PC) { p.x *= 3; p.y *= 3; }
    std::vector<P> B9 = PC; B9.push_back(P{38 * 3, 77 * 3});
    std::vector<Path> subs = polygons_over(PS, k, 3, 3);
    std::vector<std::array<int, 9>> parts;
    { std::array<int, 9> cur; std::vector<char> used(9, 0);
      std::function<void(int)> rec = [&](int g) {
        if (g == 3) { parts.push_back(cur); return; }
        int a0 = 0; while (used[a0]) ++a0; used[a0] = 1;
        for (int b = a0 + 1; b < 9; ++b) { if (used[b]) continue; used[b] = 1;
          for (int c = b + 1; c < 9; ++c) { if (used[c]) continue; used[c] = 1; cur[g * 3] = a0; cur[g * 3 + 1] = b; cur[g * 3 + 2] = c; rec(g + 1); used[c] = 0; }
          used[b] = 0; }
        used[a0] = 0; };
      rec(0); }
    for (auto& pt : parts)
      for (int orient_mask = 0; orient_mask < 8; ++orient_mask) {
        if (!rep.mine(idx++)) continue;
        if (rep.out_of_time()) return false;
        Paths C;
        for (int g = 0; g < 3; ++g) { Path t{B9[pt[g * 3]], B9[pt[g * 3 + 1]], B9[pt[g * 3 + 2]]}; if (orient_mask >> g & 1) std::swap(t[1], t[2]); C.push_back(t); }
        if (!general_position(C)) { rep.add("skipped_not_general_position", subs.size()); rep.add("inputs_enumerated", subs.size()); continue; }
        for (auto& s : subs) {
          rep.add("inputs_enumerated");
          Paths all = C; all.push_back(s);
          if (!general_position(all)) { rep.add("skipped_not_general_position"); continue; }
          GpInput in{Paths{s}, C, nullptr, scope}; f(in);
        }
      }
    rep.bounds_completed.push_back(scope + " k=" + std::to_string(k) + ": subject triangle x 3 clip triangles partitioning 9 points");
    return true;
  }
  fprintf(stderr, "unknown scope %s\n", scope.c_str()); exit(2);
}

} // namespace vf
