// C19: Minkowski sum and difference are the swept pattern.
//
// Every ordered tuple of distinct board points as pattern (2..pmax vertices, pattern board) and as path
// (1..qmax vertices, path board), open and closed, MinkowskiSum and MinkowskiDiff, is run through the real
// library; the result is compared by the region engine with the union of the closed parallelograms
//   { a + b }  (sum)   resp.   { a - b }  (diff),   a on a path edge, b on a pattern edge,
// at every point of the plane further than 2 units from every parallelogram edge.
//
// Reading of the code that the oracle follows (clipper.minkowski.h, detail::Minkowski):
//  * the pattern is always treated as a closed polygon (h starts at patLen-1, so the edge last->first is used
//    whatever isClosed says); isClosed only decides whether the path's closing edge last->first is swept;
//  * a 1-point path has no edge when open (no parallelogram at all: the union is empty) and one zero-length
//    closing edge when closed (every parallelogram degenerates to a translated pattern edge: the union has no
//    interior, every point of it lies on a parallelogram edge, i.e. inside the tolerance band);
//  * MinkowskiDiff(pattern, path) builds exactly the point lists of MinkowskiSum(-pattern, path): the two results
//    must be identical.
// The oracle itself is written from the statement (edges of the two operands, a+b / a-b), not from the code.
//
// Options: --part all|base|empty|D|mag   --pmax/--qmax (base), --dpmax/--dqmax (PathD), --mpmax/--mqmax (magnitude),
//          --pk N (pattern board multiplier), --S (engine scale), --div N (leaf half side = extent*S/N when that exceeds 1),
//          --R (general-position clearance), --gp 0 (exploration only: also judge inputs outside the stated domain).
// Case key: api=64|D, op=sum|diff, closed=0|1, pat=<points>, path=<points> (api=D: numerators of quarter units, decimalPlaces 2);
// --replay judges the case at S=2 and S=4.
#include "clipper2/clipper.h"
#include "sides/clip_api.hpp"
#include "engine/region.hpp"
#include "engine/boards.hpp"
#include <array>
#include <memory>

using namespace vf;
namespace CL = Clipper2Lib;

typedef std::array<P, 4> Quad;
struct Seg { P a, b; };

// ------------------------------------------------------------------------------------------------ the model
static std::vector<Seg> path_edges(const Path& p, bool closed) {
  std::vector<Seg> e; size_t n = p.size();
  for (size_t i = 0; i + 1 < n; ++i) e.push_back({p[i], p[i + 1]});
  if (closed && n >= 1) e.push_back({p[n - 1], p[0]});      // closing edge (zero length for a 1-point path)
  return e;
}
static P comb(const P& a, const P& b, bool sum) { return sum ? P{a.x + b.x, a.y + b.y} : P{a.x - b.x, a.y - b.y}; }

struct Model {
  std::vector<Quad> quads;     // distinct parallelograms (as vertex sets), vertex order a1*b1, a2*b1, a2*b2, a1*b2
  std::vector<Quad> solid;     // the non-degenerate ones, counter-clockwise
  std::vector<Seg> edges;      // distinct undirected edges of all parallelograms (degenerate ones included)
  std::vector<i64> key;        // canonical identity of the parallelogram set
  size_t raw = 0, degenerate = 0;
};

static Model build_model(const Path& pattern, const Path& path, bool sum, bool closed) {
  Model m;
  std::vector<Seg> pe = path_edges(path, closed), te = path_edges(pattern, true);
  std::vector<std::array<P, 4>> keys;
  for (auto& a : pe)
    for (auto& b : te) {
      Quad q{comb(a.a, b.a, sum), comb(a.b, b.a, sum), comb(a.b, b.b, sum), comb(a.a, b.b, sum)};
      ++m.raw;
      Quad k = q; std::sort(k.begin(), k.end());
      bool dup = false; for (auto& o : keys) if (o == k) { dup = true; break; }
      if (dup) continue;
      keys.push_back(k); m.quads.push_back(q);
    }
  std::sort(keys.begin(), keys.end());
  for (auto& k : keys) for (auto& v : k) { m.key.push_back(v.x); m.key.push_back(v.y); }
  for (auto& q : m.quads) {
    i128 cr = cross128(q[0], q[1], q[3]);             // (a2-a1) x (+-(b2-b1))
    if (cr == 0) ++m.degenerate;
    else { Quad s = q; if (cr < 0) std::swap(s[1], s[3]); m.solid.push_back(s); }
    for (int i = 0; i < 4; ++i) {
      P u = q[i], v = q[(i + 1) & 3]; if (v < u) std::swap(u, v);
      bool dup = false; for (auto& e : m.edges) if (e.a == u && e.b == v) { dup = true; break; }
      if (!dup) m.edges.push_back({u, v});
    }
  }
  return m;
}

// one parallelogram set in scaled coordinates, its quadtree and the solutions already judged against it
struct Group {
  Model m; i64 S = 2, Hmin = 1; ld tol = 2.0L, eps = 1e-6L;
  std::vector<Seg> E; std::vector<Box> EB;
  std::vector<Quad> Q; std::vector<Box> QB;
  Box bb; i64 mabs = 0;
  RTree tree; bool have_tree = false;
  std::vector<std::pair<Paths, std::string>> verified;

  void init(i64 S_, i64 div) {
    S = S_;
    for (auto& e : m.edges) { grow(bb, e.a); grow(bb, e.b); }
    for (auto& e : m.edges) for (const P* v : {&e.a, &e.b}) { mabs = std::max(mabs, v->x < 0 ? -v->x : v->x); mabs = std::max(mabs, v->y < 0 ? -v->y : v->y); }
    for (auto& e : m.edges) { Seg s{{e.a.x * S, e.a.y * S}, {e.b.x * S, e.b.y * S}}; E.push_back(s); Box b; grow(b, s.a); grow(b, s.b); EB.push_back(b); }
    for (auto& q : m.solid) { Quad s; Box b; for (int i = 0; i < 4; ++i) { s[i] = {q[i].x * S, q[i].y * S}; grow(b, s[i]); } Q.push_back(s); QB.push_back(b); }
    if (!bb.empty()) { i128 ext = std::max((i128)bb.x1 - bb.x0, (i128)bb.y1 - bb.y0) * S; while ((i128)Hmin * div < ext) Hmin *= 2; }
    eps = 1e-6L + (ld)mabs * (ld)S * ldexpl(1.0L, -55);
  }
  // distance (grid units) to the nearest parallelogram edge minus the tolerance: 1-Lipschitz
  ld margin(const P& c) const {
    if (E.empty()) return 1e30L;
    ld best = 1e300L, best2 = 1e300L;
    for (size_t k = 0; k < E.size(); ++k) {
      const Box& b = EB[k];
      ld dx = c.x < b.x0 ? (ld)(b.x0 - c.x) : (c.x > b.x1 ? (ld)(c.x - b.x1) : 0), dy = c.y < b.y0 ? (ld)(b.y0 - c.y) : (c.y > b.y1 ? (ld)(c.y - b.y1) : 0);
      if (dx * dx + dy * dy >= best2) continue;
      ld d = dist_pt_seg(c, E[k].a, E[k].b);
      if (d < best) { best = d; best2 = d * d; }
    }
    return best / (ld)S - tol;
  }
  // exact: a = 1 iff c lies strictly inside at least one parallelogram; skip when c lies on a parallelogram boundary
  void payload(const P& c, int& a, int& b, bool& skip) const {
    a = 0; b = 0;
    for (size_t k = 0; k < Q.size(); ++k) {
      const Box& x = QB[k];
      if (c.x < x.x0 || c.x > x.x1 || c.y < x.y0 || c.y > x.y1) continue;
      const Quad& q = Q[k]; int neg = 0, zero = 0;
      for (int i = 0; i < 4 && !neg; ++i) { int o = orient(q[i], q[(i + 1) & 3], c); if (o < 0) ++neg; else if (o == 0) ++zero; }
      if (neg) continue;
      if (zero) skip = true; else a = 1;
    }
  }
};

// ------------------------------------------------------------------------------------------------ one case
struct CaseIn {
  Path pattern, path;        // integer inputs actually judged (for api=D: the inputs as scaled by the library, i.e. numerators * 25)
  bool sum, closed;
  bool apiD;                 // PathD overload: pattern/4, path/4, decimalPlaces 2
  Path pat_num, path_num;    // api=D: numerators (quarter units)
};

static std::string ckey(const CaseIn& c) {
  Case k; k.set("api", c.apiD ? "D" : "64").set("op", c.sum ? "sum" : "diff").set("closed", c.closed);
  k.set("pat", Paths{c.apiD ? c.pat_num : c.pattern}).set("path", Paths{c.apiD ? c.path_num : c.path});
  return k.s();
}
static Path first_or_empty(const Paths& pp) { return pp.empty() ? Path() : pp[0]; }

static Path neg(const Path& p) { Path r(p.size()); for (size_t i = 0; i < p.size(); ++i) r[i] = {-p[i].x, -p[i].y}; return r; }
static Path times(const Path& p, i64 k) { Path r(p.size()); for (size_t i = 0; i < p.size(); ++i) r[i] = {p[i].x * k, p[i].y * k}; return r; }

static Paths lib64(const Path& pattern, const Path& path, bool sum, bool closed) {
  CL::Path64 a = vfc::to64(pattern), b = vfc::to64(path);
  return vfc::from64(sum ? CL::MinkowskiSum(a, b, closed) : CL::MinkowskiDiff(a, b, closed));
}
// PathD overload on numerators / 4 with decimalPlaces = 2; result scaled back to the library's integer grid (1/100).
static Paths libD(const Path& pat_num, const Path& path_num, bool sum, bool closed, bool& on_grid) {
  CL::PathD a, b;
  for (auto& q : pat_num) a.emplace_back((double)q.x / 4.0, (double)q.y / 4.0);
  for (auto& q : path_num) b.emplace_back((double)q.x / 4.0, (double)q.y / 4.0);
  CL::PathsD r = sum ? CL::MinkowskiSum(a, b, closed, 2) : CL::MinkowskiDiff(a, b, closed, 2);
  Paths out; on_grid = true;
  for (auto& p : r) {
    Path o;
    for (auto& q : p) {
      double x = q.x * 100.0, y = q.y * 100.0, rx = std::nearbyint(x), ry = std::nearbyint(y);
      if (std::fabs(x - rx) > 1e-6 || std::fabs(y - ry) > 1e-6) on_grid = false;
      o.push_back({(i64)rx, (i64)ry});
    }
    out.push_back(o);
  }
  return out;
}

typedef std::map<std::vector<i64>, std::unique_ptr<Group>> GroupCache;

struct Ctx { Reporter& rep; i64 S; i64 div; bool verbose; };

// judges one solution against the model; returns "" or "tag: detail"
static std::string judge(Ctx& cx, const CaseIn& c, const Paths& sol, GroupCache& cache, i64 S) {
  Reporter& rep = cx.rep;
  Model m = build_model(c.pattern, c.path, c.sum, c.closed);
  if (m.quads.empty()) {
    // no path edge or no pattern edge: the union of an empty family of parallelograms is empty
    rep.add("judged_without_parallelograms");
    for (auto& p : sol) if (area2(p) != 0) return "nonempty_without_edges: no parallelogram exists but the result encloses area: " + pstr(sol);
    if (!sol.empty()) return "nonempty_without_edges: no parallelogram exists but the result is " + pstr(sol);
    return "";
  }
  auto it = cache.find(m.key);
  if (it == cache.end()) {
    std::unique_ptr<Group> g(new Group()); g->m = std::move(m); g->init(S, cx.div);
    std::vector<i64> gk = g->m.key;
    it = cache.emplace(std::move(gk), std::move(g)).first;
    rep.add("parallelogram_sets"); rep.add("parallelograms", it->second->m.quads.size()); rep.add("parallelograms_degenerate", it->second->m.degenerate);
  }
  Group& g = *it->second;
  Paths can = canon_closed(sol);
  for (auto& v : g.verified) if (v.first == can) { rep.add("memo_hits"); if (!cx.verbose) return v.second; }
  auto margin = [&g](const P& p) -> ld { return g.margin(p); };
  auto payload = [&g](const P& p, int& a, int& b, bool& skip) { g.payload(p, a, b, skip); };
  if (!g.have_tree) {
    Box b = g.bb; i64 by = 10;
    b.x0 -= by; b.y0 -= by; b.x1 += by; b.y1 += by;
    g.tree = rtree_build(b, g.S, g.Hmin, margin, payload, g.eps); g.have_tree = true;
    rep.add("trees"); rep.add("tree_cells", g.tree.cells.size()); rep.add("tree_free_cells", g.tree.n_free); rep.add("tree_rim_cells", g.tree.n_rim);
    rep.add("tree_margin_evals", g.tree.n_margin_evals);
    u64 inside = 0; for (auto& cell : g.tree.cells) inside += cell.a; rep.add("tree_cells_expected_inside", inside);
    if (inside) rep.add("trees_with_inside_cells");
    rep.maxi("r_leaf_milli_units", (u64)(g.tree.r_leaf() * 1000));
  }
  RWitness w; RStats st;
  bool good = rtree_check(g.tree, scaled(sol, g.S), [](const RCell& cell) { return cell.a ? 1 : 0; }, margin, payload, w, st, g.eps);
  rep.add("region_checks"); rep.add("exact_point_evals", st.evals); rep.add("free_cells_decided", st.decided_free); rep.add("cells_refined", st.refined);
  rep.add("points_on_solution_edge_skipped", st.on_edge_skipped);
  // probes at full resolution whatever the magnitude: the 16 neighbours (1/S and 1 unit away) of every solution vertex and
  // edge midpoint; each is a concrete point judged exactly like a cell centre (margin > eps, exact winding, exact expected value)
  if (good) {
    Paths solS = scaled(sol, g.S);
    for (auto& sp : solS) {
      size_t n = sp.size();
      for (size_t i = 0; i < n && good; ++i)
        for (int mid = 0; mid < 2 && good; ++mid) {
          const P& u = sp[i]; const P& v = sp[(i + 1) % n];
          P c = mid ? P{(i64)(((i128)u.x + v.x) / 2), (i64)(((i128)u.y + v.y) / 2)} : u;
          for (i64 k : {(i64)1, g.S})
            for (int dx = -1; dx <= 1 && good; ++dx)
              for (int dy = -1; dy <= 1 && good; ++dy) {
                if (!dx && !dy) continue;
                P q{c.x + dx * k, c.y + dy * k};
                rep.add("probe_points");
                ld mq = g.margin(q);
                if (!(mq > g.eps)) continue;
                RCell cell{q, 0, false, 0, 0}; bool skip = false; g.payload(q, cell.a, cell.b, skip);
                if (skip) continue;
                bool on = false; int wn = winding(solS, q, on);
                rep.add("probe_points_constrained");
                if (on) continue;
                if (wn != (cell.a ? 1 : 0)) { good = false; w = RWitness{q, g.S, wn, cell.a ? 1 : 0, mq}; }
              }
        }
    }
  }
  std::string why;
  if (!good) {
    // mechanical condition of known finding D19: a vertex of one parallelogram lies exactly in the interior of an edge of
    // another parallelogram (an exact T-junction between the operands of the library's internal Union)
    bool tj = false;
    for (auto& q : g.m.quads) { for (const P& v : q) { for (auto& e : g.m.edges) {
      if (v == e.a || v == e.b || orient(e.a, e.b, v) != 0) continue;
      if (std::min(e.a.x, e.b.x) <= v.x && v.x <= std::max(e.a.x, e.b.x) && std::min(e.a.y, e.b.y) <= v.y && v.y <= std::max(e.a.y, e.b.y)) { tj = true; break; } }
      if (tj) break; } if (tj) break; }
    why = std::string(w.want == 0 ? "region_excess" : (w.got == 0 ? "region_missing" : "region_winding")) + (tj ? "_with_vertex_on_foreign_edge: " : ": ") + wit_str(w);
  }
  if (cx.verbose) printf("   S=%lld Hmin=%lld parallelograms=%zu (degenerate %zu) edges=%zu cells=%zu evals=%llu verdict=%s\n", (long long)g.S, (long long)g.Hmin, g.m.quads.size(), g.m.degenerate,
                         g.m.edges.size(), g.tree.cells.size(), (unsigned long long)st.evals, good ? "ok" : why.c_str());
  g.verified.push_back({can, why});
  return why;
}

// general position filter on the *inputs* (base board coordinates): see the registry entry.
static bool parallel_pair(const Path& pattern, const Path& path, bool closed) {
  std::vector<Seg> pe = path_edges(path, closed), te = path_edges(pattern, true);
  for (auto& a : pe) for (auto& b : te) {
      i128 cr = ((i128)a.b.x - a.a.x) * ((i128)b.b.y - b.a.y) - ((i128)a.b.y - a.a.y) * ((i128)b.b.x - b.a.x);
      bool zero_len = (a.a == a.b) || (b.a == b.b);   // 1-point closed path / 1-point pattern: judged, not filtered
      if (cr == 0 && !zero_len) return true;
    }
  return false;
}

static void run_case(Ctx& cx, const CaseIn& c, GroupCache& cache, const char* scope) {
  Reporter& rep = cx.rep;
  rep.current_case = [&c]() { return ckey(c); };
  bool on_grid = true;
  Paths sol = c.apiD ? libD(c.pat_num, c.path_num, c.sum, c.closed, on_grid) : lib64(c.pattern, c.path, c.sum, c.closed);
  rep.add("lib_calls"); rep.add("cases"); rep.add("compared");
  rep.add(c.sum ? "cases_sum" : "cases_diff"); rep.add(c.closed ? "cases_closed" : "cases_open"); rep.add(c.apiD ? "cases_pathD" : "cases_path64");
  rep.add(std::string("cases_scope_") + scope);
  if (c.path.size() == 1) rep.add(c.closed ? "cases_one_point_path_closed" : "cases_one_point_path_open");
  if (!sol.empty()) rep.add("nontrivial");
  if (sol.size() > 1) rep.add("cases_result_with_several_paths");
  for (auto& p : sol) if (area2(p) < 0) { rep.add("cases_result_with_hole"); break; }
  rep.outcome(hash_paths(canon_closed(sol)));
  if (cx.verbose) printf("%s\n   solution=%s\n", ckey(c).c_str(), pstr(sol).c_str());
  std::string key;
  auto K = [&]() -> const std::string& { if (key.empty()) key = ckey(c); return key; };
  auto report = [&](const std::string& why) { rep.violation("C19", K(), why.substr(0, why.find(':')), why + " solution=" + pstr(sol)); };
  if (!on_grid) report("pathD_off_grid: a result coordinate times 100 is not an integer");
  if (c.pattern.empty() || c.path.empty()) {
    rep.add("cases_empty_operand");
    if (!sol.empty()) report("nonempty_for_empty_operand: empty pattern or path must give an empty result");
    rep.current_case = nullptr; return;
  }
  if (cx.verbose) {
    for (i64 S : {(i64)2, (i64)4}) { GroupCache local; std::string why = judge(cx, c, sol, local, S); if (!why.empty()) { report(why); break; } }
  } else {
    std::string why = judge(cx, c, sol, cache, cx.S);
    if (!why.empty()) report(why);
  }
  // MinkowskiDiff(pattern, path) is MinkowskiSum(-pattern, path) by construction: identical results required
  if (!c.sum && !c.apiD) {
    Paths s2 = lib64(neg(c.pattern), c.path, true, c.closed);
    rep.add("lib_calls"); rep.add("identity_checks");
    if (canon_closed(s2) != canon_closed(sol)) report("diff_not_sum_of_negated: MinkowskiSum(-pattern, path) = " + pstr(s2));
    else if (cx.verbose) printf("   MinkowskiSum(-pattern, path) identical: ok\n");
  }
  rep.current_case = nullptr;
}

// ------------------------------------------------------------------------------------------------ scopes
static std::vector<P> pattern_board(long long seed) {
  std::vector<P> v = {{-10, -6}, {9, -8}, {12, 7}, {-3, 11}, {2, -1}, {-12, 4}};
  if (seed) for (auto& p : v) { p.x = ((p.x + 15) * (2 + seed % 29) + 17 * seed) % 31 - 15; p.y = ((p.y + 15) * (3 + (seed / 29) % 27) + 29 * seed) % 31 - 15; }
  return v;
}
static void combos(int k, int n, std::vector<std::vector<int>>& out) {
  std::vector<int> cur;
  std::function<void(int)> rec = [&](int from) {
    if ((int)cur.size() == n) { out.push_back(cur); return; }
    for (int i = from; i < k; ++i) { cur.push_back(i); rec(i + 1); cur.pop_back(); }
  };
  rec(0);
}
static std::vector<Path> orderings(const std::vector<P>& board, const std::vector<int>& set) {
  std::vector<int> idx = set; std::sort(idx.begin(), idx.end());
  std::vector<Path> out;
  do { Path p; for (int i : idx) p.push_back(board[i]); out.push_back(p); } while (std::next_permutation(idx.begin(), idx.end()));
  return out;
}

struct MagC { i64 kpat, kpath, tx, ty; std::string name; };

int main(int argc, char** argv) {
  Args a = parse_args(argc, argv);
  Reporter rep(a); install_crash_handler(rep);
  Ctx cx{rep, a.opti("S", a.thorough() ? 4 : 2), a.opti("div", 2048), false};
  if (!a.replay.empty()) {
    Case k = Case::parse(a.replay);
    CaseIn c; c.apiD = k.get("api", "64") == "D"; c.sum = k.get("op", "sum") == "sum"; c.closed = k.geti("closed") != 0;
    Path pat = first_or_empty(k.getp("pat")), path = first_or_empty(k.getp("path"));
    if (c.apiD) { c.pat_num = pat; c.path_num = path; c.pattern = times(pat, 25); c.path = times(path, 25); } else { c.pattern = pat; c.path = path; }
    cx.verbose = true; GroupCache cache;
    run_case(cx, c, cache, "replay");
    printf("violations: %llu\n", (unsigned long long)rep.nviol);
    for (auto& x : rep.viols) printf("  %s %s: %s\n", x.prop.c_str(), x.tag.c_str(), x.detail.c_str());
    return rep.nviol ? 1 : 0;
  }
  const int K = 6;
  std::vector<P> PB = pattern_board(a.seed), QB = board_PS(a.seed); QB.resize(K);
  // "collinear" path board: three of the points lie on one horizontal line and three on one sloping line, so that open paths occur
  // whose end vertex is exactly in line with the edge at the other end (a wrap-around triple that only a closed path may merge)
  if (a.opt("qboard", "generic") == "collinear") { QB = {{0, 0}, {100, 0}, {-60, 0}, {100, 100}, {50, 50}, {-20, 40}}; if (a.seed) for (auto& q : QB) { q.x += 11 * (i64)(a.seed % 97); q.y -= 7 * (i64)(a.seed % 89); } QB.resize(std::min<size_t>(QB.size(), (size_t)K)); }
  i64 pk = a.opti("pk", 1);                 // pattern board multiplier (pk = 4: pattern as large as the path)
  for (auto& p : PB) { p.x *= pk; p.y *= pk; }
  int pmax = (int)a.opti("pmax", a.thorough() ? 4 : 3), qmax = (int)a.opti("qmax", a.thorough() ? 4 : 3);
  int dpmax = (int)a.opti("dpmax", 3), dqmax = (int)a.opti("dqmax", a.thorough() ? 3 : 2);
  int mpmax = (int)a.opti("mpmax", 3), mqmax = (int)a.opti("mqmax", 3);
  std::string part = a.opt("part", "all");
  i64 R = a.opti("R", 3);
  bool nofilter = a.opti("gp", 1) == 0;   // exploration aid only: judge the inputs outside the stated domain as well
  u64 idx = 0; bool stop = false;

  // all orderings of one pattern point set x all orderings of one path point set x open/closed x sum/diff
  auto sweep = [&](const std::vector<int>& pc, const std::vector<int>& qc, bool apiD, const MagC* mg, const char* scope) {
    std::vector<Path> pats = orderings(PB, pc), paths = orderings(QB, qc);
    std::vector<char> pat_gp(pats.size());
    for (size_t i = 0; i < pats.size(); ++i) pat_gp[i] = general_position(Paths{pats[i]}, R, true);
    for (int closed = 0; closed < 2; ++closed) {
      std::vector<char> path_gp(paths.size());
      for (size_t j = 0; j < paths.size(); ++j) path_gp[j] = general_position(Paths{paths[j]}, R, closed != 0);
      for (int sum = 1; sum >= 0; --sum) {
        GroupCache cache;
        for (size_t i = 0; i < pats.size(); ++i)
          for (size_t j = 0; j < paths.size(); ++j) {
            rep.add("inputs_enumerated");
            bool gp = true;
            if (!pat_gp[i]) { rep.add("not_gp_pattern"); gp = false; }
            if (!path_gp[j]) { rep.add("not_gp_path"); gp = false; }
            if (parallel_pair(pats[i], paths[j], closed != 0)) { rep.add("not_gp_parallel_edges"); gp = false; }
            if (!gp && !nofilter) { rep.add("skipped_not_general_position"); continue; }
            CaseIn c; c.sum = sum != 0; c.closed = closed != 0; c.apiD = apiD;
            if (apiD) { c.pat_num = pats[i]; c.path_num = paths[j]; c.pattern = times(pats[i], 25); c.path = times(paths[j], 25); }
            else if (mg) { c.pattern = times(pats[i], mg->kpat); c.path = mag_apply(Mag{mg->kpath, mg->tx, mg->ty, ""}, paths[j]); }
            else { c.pattern = pats[i]; c.path = paths[j]; }
            run_case(cx, c, cache, scope);
            if (i == 0 && j == 0) rep.sample(ckey(c), 6);
          }
      }
    }
  };
  // one bound = one (pattern size, path size) class; sharded over the pairs of point sets
  auto sweep_class = [&](int np, int nq, bool apiD, const MagC* mg, const char* scope) -> bool {
    std::vector<std::vector<int>> PC, QC; combos(K, np, PC); combos(K, nq, QC);
    for (auto& pc : PC) for (auto& qc : QC) {
        if (!rep.mine(idx++)) continue;
        if (rep.out_of_time()) return false;
        sweep(pc, qc, apiD, mg, scope);
      }
    return true;
  };
  auto classes = [&](int pmx, int qmx) { std::vector<std::pair<int, int>> v; for (int s = 3; s <= pmx + qmx; ++s) for (int np = 2; np <= pmx; ++np) { int nq = s - np; if (nq >= 1 && nq <= qmx) v.push_back({np, nq}); } return v; };

  if (part == "all" || part == "base") {
    for (auto& cl : classes(pmax, qmax)) {
      if (stop) break;
      if (!sweep_class(cl.first, cl.second, false, nullptr, "base")) { stop = true; break; }
      rep.bounds_completed.push_back("base: patterns of " + std::to_string(cl.first) + " x paths of " + std::to_string(cl.second) + " vertices");
    }
  }
  if ((part == "all" || part == "empty") && !stop) {
    // empty pattern x every path tuple, every pattern tuple x empty path, both empty; both overloads
    std::vector<Path> tuples; tuples.push_back(Path());
    for (int n = 1; n <= std::min(qmax, 3); ++n) { std::vector<std::vector<int>> C; combos(K, n, C); for (auto& c : C) for (auto& p : orderings(QB, c)) tuples.push_back(p); }
    std::vector<Path> pts;
    for (int n = 1; n <= std::min(pmax, 3); ++n) { std::vector<std::vector<int>> C; combos(K, n, C); for (auto& c : C) for (auto& p : orderings(PB, c)) pts.push_back(p); }
    GroupCache none;
    auto one = [&](const Path& pat, const Path& path) {
      if (!rep.mine(idx++)) return;
      for (int closed = 0; closed < 2; ++closed) for (int sum = 0; sum < 2; ++sum) for (int d = 0; d < 2; ++d) {
            CaseIn c; c.sum = sum; c.closed = closed; c.apiD = d;
            if (d) { c.pat_num = pat; c.path_num = path; c.pattern = times(pat, 25); c.path = times(path, 25); } else { c.pattern = pat; c.path = path; }
            rep.add("inputs_enumerated");
            run_case(cx, c, none, "empty");
          }
    };
    for (auto& t : tuples) one(Path(), t);
    for (auto& t : pts) one(t, Path());
    rep.bounds_completed.push_back("empty operands: empty pattern x path tuples of 0.." + std::to_string(std::min(qmax, 3)) + ", pattern tuples of 1.." + std::to_string(std::min(pmax, 3)) + " x empty path");
  }
  if ((part == "all" || part == "D") && !stop) {
    for (auto& cl : classes(dpmax, dqmax)) {
      if (!sweep_class(cl.first, cl.second, true, nullptr, "pathD")) { stop = true; break; }
      rep.bounds_completed.push_back("PathD overloads (inputs/4, decimalPlaces 2): patterns of " + std::to_string(cl.first) + " x paths of " + std::to_string(cl.second) + " vertices");
    }
  }
  if ((part == "mag" || (part == "all" && a.thorough())) && !stop) {
    const i64 k20 = (i64)1 << 20, t40 = (i64)1 << 40;
    std::vector<MagC> mags;
    for (int e : {10, 15, 20}) {
      mags.push_back({(i64)1 << e, k20, 0, 0, "pattern x2^" + std::to_string(e) + ", path x2^20"});
      mags.push_back({(i64)1 << e, k20, t40 - 100 * k20, -t40, "pattern x2^" + std::to_string(e) + ", path x2^20 translated to the corner (2^40,-2^40)"});
    }
    // long edges on both operands: the products formed when a quad's orientation is taken exceed 2^63 (|coordinates| stay below 2^40)
    mags.push_back({(i64)1 << 28, (i64)1 << 32, 0, 0, "pattern x2^28, path x2^32"});
    mags.push_back({(i64)1 << 31, (i64)1 << 32, -50 * ((i64)1 << 32), 0, "pattern x2^31, path x2^32 centred"});
    // small operands far from the origin: every quad's orientation and area has to come from coordinate differences
    mags.push_back({1, 1, ((i64)1 << 39) + 12345, -(((i64)1 << 39) + 54321), "pattern and path unscaled, path translated to (2^39,-2^39)"});
    mags.push_back({4, 1, -(((i64)1 << 36) + 777), ((i64)1 << 33) + 5, "pattern x4, path unscaled and translated to (-2^36,2^33)"});
    for (auto& mg : mags) {
      if (stop) break;
      bool done = true;
      for (auto& cl : classes(mpmax, mqmax)) if (!sweep_class(cl.first, cl.second, false, &mg, "magnitude")) { done = false; break; }
      if (!done) { stop = true; break; }
      rep.bounds_completed.push_back("magnitude: " + mg.name + ", patterns of 2.." + std::to_string(mpmax) + " x paths of 1.." + std::to_string(mqmax) + " vertices");
    }
  }
  // ---- many-quad family: pattern of P and path of Q vertices with P*Q around and above 1024 quads. Judged by exact point probes
  //      (every parallelogram centroid and a 96 x 96 lattice over the bounding box) instead of the full quadtree, which would
  //      need ~1e9 distance evaluations per case at this size
  if ((part == "long" || part == "all") && !stop) {
    struct Sz { int P, Q; }; std::vector<Sz> sizes = a.thorough() ? std::vector<Sz>{{32, 32}, {32, 33}, {40, 30}, {16, 66}, {48, 22}, {64, 33}, {11, 95}} : std::vector<Sz>{{32, 33}, {16, 66}};
    u64 lidx = 0;
    for (auto& sz : sizes) for (int closed = 0; closed < 2; ++closed) for (int sum = 1; sum >= 0; --sum) {
      if (!rep.mine(lidx++)) continue;
      if (rep.out_of_time()) { stop = true; break; }
      // pattern: irregular star-convex polygon round the origin; path: irregular zigzag; integer coordinates, deterministic
      Path pat, pa;
      for (int i = 0; i < sz.P; ++i) { double ang = 6.283185307179586 * (i + 0.37 * ((i * 7) % 3)) / sz.P, r = 150 + 37 * ((i * 5) % 4); pat.push_back({(i64)llround(r * cos(ang)), (i64)llround(r * sin(ang))}); }
      for (int i = 0; i < sz.Q; ++i) pa.push_back({(i64)(i * 61 + ((i * 13) % 7) * 3), (i64)(((i % 2) ? 900 : 0) + ((i * 29) % 11) * 17 + i * 5)});
      Model m = build_model(pat, pa, sum != 0, closed != 0);
      Group g; g.m = m; g.init(4, 1 << 30);
      CaseIn ci; ci.pattern = pat; ci.path = pa; ci.sum = sum != 0; ci.closed = closed != 0; ci.apiD = false;
      rep.current_case = [&]() { return ckey(ci); };
      CL::Paths64 r = sum ? CL::MinkowskiSum(vfc::to64(pat), vfc::to64(pa), closed != 0) : CL::MinkowskiDiff(vfc::to64(pat), vfc::to64(pa), closed != 0);
      rep.current_case = nullptr;
      Paths sol = scaled(vfc::from64(r), 4);
      rep.add("lib_calls"); rep.add("cases"); rep.add("compared"); rep.add("cases_long"); if (!r.empty()) rep.add("nontrivial"); rep.maxi("max_quads_in_a_case", m.raw);
      u64 probes = 0, constrained = 0; std::string why;
      auto probe = [&](const P& c) { ++probes; if (g.margin(c) <= g.eps) return; int aa = 0, bb2 = 0; bool skip = false; g.payload(c, aa, bb2, skip); if (skip) return; ++constrained;
        bool on = false; int w = winding(sol, c, on); if (on) return;
        if (w != aa && why.empty()) { char b[160]; snprintf(b, sizeof b, "%s: point (%.2f,%.2f) winding %d expected %d", aa ? "region_missing" : "region_excess", c.x / 4.0, c.y / 4.0, w, aa); why = b; } };
      for (auto& q : g.Q) probe(P{(q[0].x + q[1].x + q[2].x + q[3].x) / 4, (q[0].y + q[1].y + q[2].y + q[3].y) / 4});
      for (int iy = 0; iy <= 96; ++iy) for (int ix = 0; ix <= 96; ++ix) probe(P{g.bb.x0 * 4 - 40 + (i64)((i128)(g.bb.x1 - g.bb.x0) * 4 + 80) * ix / 96, g.bb.y0 * 4 - 40 + (i64)((i128)(g.bb.y1 - g.bb.y0) * 4 + 80) * iy / 96});
      rep.add("probe_points", probes); rep.add("probe_points_constrained", constrained);
      if (!why.empty()) rep.violation("C19", ckey(ci), why.substr(0, why.find(':')), why + " (" + std::to_string(m.raw) + " quads)");
      rep.sample("long: pattern of " + std::to_string(sz.P) + " x path of " + std::to_string(sz.Q) + " vertices (" + std::to_string(m.raw) + " quads)");
    }
    if (!stop) rep.bounds_completed.push_back("many-quad family: " + std::to_string(sizes.size()) + " sizes x open/closed x sum/diff, point probes");
  }
  rep.write();
  return 0;
}
