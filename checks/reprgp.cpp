// C13: representation independence (exact canonical equality) and set algebra /
// equivariance (region equality outside the C01 tolerance band) on the general-position scopes.
#include "clipper2/clipper.h"
#include "sides/clip_api.hpp"
#include "engine/region.hpp"
#include "checks/gp_scopes.hpp"

using namespace vf;

struct Xf { const char* name; i64 a, b, c, d, tx, ty; bool flips; };  // (x,y) -> (a x + b y + tx, c x + d y + ty)
static const std::vector<Xf>& xforms() {
  static const std::vector<Xf> T = {
      {"translate(12345,-777)", 1, 0, 0, 1, 12345, -777, false},
      {"translate(2^29,-2^29)", 1, 0, 0, 1, (i64)1 << 29, -((i64)1 << 29), false},
      {"translate(-2^40,2^40)", 1, 0, 0, 1, -((i64)1 << 40), (i64)1 << 40, false},
      {"transpose", 0, 1, 1, 0, 0, 0, true},
      {"mirror_x", -1, 0, 0, 1, 0, 0, true},
      {"mirror_y", 1, 0, 0, -1, 0, 0, true},
      {"scale2", 2, 0, 0, 2, 0, 0, false},
      {"scale3", 3, 0, 0, 3, 0, 0, false},
      {"scale7", 7, 0, 0, 7, 0, 0, false},
      {"rot180+translate", -1, 0, 0, -1, 1000, 2000, false},
      {"scale700000001", 700000001, 0, 0, 700000001, 0, 0, false},   // edges of 10^9..10^11 units: products of two coordinate differences pass 2^63
      {"scale2^31", (i64)1 << 31, 0, 0, (i64)1 << 31, 0, 0, false},
  };
  return T;
}
static P xf(const Xf& t, const P& p) { return {t.a * p.x + t.b * p.y + t.tx, t.c * p.x + t.d * p.y + t.ty}; }
static Paths xf(const Xf& t, const Paths& pp) { Paths r = pp; for (auto& p : r) for (auto& q : p) q = xf(t, q); return r; }
static int swapPN(int fr) { return fr == 2 ? 3 : fr == 3 ? 2 : fr; }

static std::string key(const GpInput& in, int ct, int fr, const std::string& variant) {
  Case c; c.set("S", in.subj).set("C", in.clip).set("ct", ct).set("fr", fr).set("variant", variant); return c.s();
}

static Paths exec(Reporter& rep, int ct, int fr, const Paths& S, const Paths& C, bool& ok) {
  BoolOut o = vfc::boolop(ct, fr, S, C, Paths(), true, false); rep.add("lib_calls"); ok = o.ok; return o.closed;
}

static void check_input(Reporter& rep, const GpInput& in, bool verbose, const std::string& only_variant = "", int only_ct = 0, int only_fr = -1) {
  const Paths& S = in.subj; const Paths& C = in.clip;
  Paths all = S; all.insert(all.end(), C.begin(), C.end());
  Box bb = bbox(all);
  // tolerance: the largest band any transformed run is entitled to, expressed in original units
  ld tol = 2.0L + ((ld)((i64)1 << 40) + 1000) * ldexpl(1.0L, -42) + 0.01L;
  const i64 SC = 2;
  Paths Ss = scaled(S, SC), Cs = scaled(C, SC), As = scaled(all, SC);
  auto margin = [&](const P& c) -> ld { return dist_to_edges(c, As) / (ld)SC - tol; };
  auto payload = [&](const P& c, int& a, int& b, bool& skip) { bool on = false; a = winding(Ss, c, on); b = winding(Cs, c, on); skip = on; };
  Box g = bb; g.x0 -= 8; g.y0 -= 8; g.x1 += 8; g.y1 += 8;
  RTree tree = rtree_build(g, SC, 1, margin, payload);
  rep.add("tree_cells", tree.cells.size());
  std::string cur_variant; int cur_ct = 0, cur_fr = 0;
  arm_watchdog(300);   // CPU-time limit per input: a library call that does not return is attributed to this case (crash_signal_26)
  rep.current_case = [&]() { return key(in, cur_ct, cur_fr, cur_variant); };

  for (int fr = 0; fr < 4; ++fr) {
    if (only_fr >= 0 && fr != only_fr) continue;
    Paths base[5]; bool okb[5] = {true, true, true, true, true};
    for (int ct = 1; ct <= 4; ++ct) { cur_ct = ct; cur_fr = fr; cur_variant = "base"; base[ct] = exec(rep, ct, fr, S, C, okb[ct]); }
    // ---------------- exact part
    for (int ct = 1; ct <= 4; ++ct) {
      if (only_ct && ct != only_ct) continue;
      cur_ct = ct;
      Paths canb = canon_closed(base[ct]);
      if (!canb.empty()) rep.add("nontrivial_base");
      auto variant = [&](const std::string& name, const Paths& S2, const Paths& C2, int fr2) {
        if (!only_variant.empty() && name != only_variant) return;
        cur_variant = name; bool ok;
        Paths r = exec(rep, ct, fr2, S2, C2, ok);
        rep.add("cases"); rep.add("compared"); rep.add("exact_variants");
        Paths cr = canon_closed(r);
        if (cr != canb) rep.add("variant_differs_counted");
        if (!canb.empty()) rep.add("nontrivial");
        rep.outcome(hash_paths(cr));
        if (verbose) printf("ct=%d fr=%d %s -> %s   (base %s)\n", ct, fr, name.c_str(), pstr(cr).c_str(), pstr(canb).c_str());
        if (cr != canb) rep.violation("C13", key(in, ct, fr, name), "exact_" + name.substr(0, name.find('(')), "variant result " + pstr(cr) + " base result " + pstr(canb));
      };
      // start-vertex rotations of each path
      for (size_t k = 0; k < S.size(); ++k)
        for (size_t r = 1; r < S[k].size(); ++r) { Paths S2 = S; std::rotate(S2[k].begin(), S2[k].begin() + r, S2[k].end()); variant("rotateS(" + std::to_string(k) + "," + std::to_string(r) + ")", S2, C, fr); }
      for (size_t k = 0; k < C.size(); ++k)
        for (size_t r = 1; r < C[k].size(); ++r) { Paths C2 = C; std::rotate(C2[k].begin(), C2[k].begin() + r, C2[k].end()); variant("rotateC(" + std::to_string(k) + "," + std::to_string(r) + ")", S, C2, fr); }
      // duplicated vertices and explicit closing vertex
      for (size_t k = 0; k < S.size(); ++k) {
        for (size_t i = 0; i < S[k].size(); ++i) { Paths S2 = S; S2[k].insert(S2[k].begin() + i, S[k][i]); variant("dupS(" + std::to_string(k) + "," + std::to_string(i) + ")", S2, C, fr); }
        Paths S2 = S; S2[k].push_back(S[k][0]); variant("closeS(" + std::to_string(k) + ")", S2, C, fr);
        S2[k].push_back(S[k][0]); variant("close2S(" + std::to_string(k) + ")", S2, C, fr);   // closing vertex given twice
      }
      for (size_t k = 0; k < C.size(); ++k) {
        for (size_t i = 0; i < C[k].size(); ++i) { Paths C2 = C; C2[k].insert(C2[k].begin() + i, C[k][i]); C2[k].insert(C2[k].begin() + i, C[k][i]); variant("dup2C(" + std::to_string(k) + "," + std::to_string(i) + ")", S, C2, fr); }
        Paths C2 = C; C2[k].push_back(C[k][0]); variant("closeC(" + std::to_string(k) + ")", S, C2, fr);
        C2[k].push_back(C[k][0]); C2[k].push_back(C[k][0]); variant("close3C(" + std::to_string(k) + ")", S, C2, fr);   // ... three times
      }
      // order of paths
      if (S.size() > 1) { Paths S2(S.rbegin(), S.rend()); variant("permuteS", S2, C, fr); }
      if (C.size() > 1) { Paths C2(C.rbegin(), C.rend()); variant("permuteC", S, C2, fr); }
      // subject <-> clip
      if (ct != 3) variant("swap_subject_clip", C, S, fr);
      // reversal of all paths
      variant("reverse_all", reversed(S), reversed(C), swapPN(fr));
      // the convenience function BooleanOp (what Intersect/Union/Difference/Xor call) is one more representation of the same request:
      // same result as the object, also with the clip moved far away (disjoint bounds) and with no clip at all, whatever the
      // representation of the subject (a vertex given twice + closing vertex; all paths reversed)
      if (only_variant.empty() || only_variant.rfind("free_function", 0) == 0) {
        auto ff = [&](const Paths& S2, const Paths& C2, int fr2) { rep.add("lib_calls"); return canon_closed(vfc::from64(Clipper2Lib::BooleanOp((Clipper2Lib::ClipType)ct, (Clipper2Lib::FillRule)fr2, vfc::to64(S2), vfc::to64(C2)))); };
        auto far = [](Paths pp) { for (auto& p : pp) for (auto& q : p) { q.x += 100000; q.y += 70000; } return pp; };
        Paths Sd = S; Sd[0].insert(Sd[0].begin(), S[0][0]); Sd[0].push_back(S[0][0]);
        struct V { const char* name; Paths s, c; } vs[3] = {{"free_function", S, C}, {"free_function_far_clip", S, far(C)}, {"free_function_no_clip", S, Paths()}};
        for (auto& v : vs) {
          cur_variant = v.name; bool ok; Paths obj = canon_closed(exec(rep, ct, fr, v.s, v.c, ok));
          Paths f0 = ff(v.s, v.c, fr), f1 = ff(Sd, v.c, fr), f2 = ff(reversed(v.s), reversed(v.c), swapPN(fr));
          rep.add("cases", 3); rep.add("compared", 3); rep.add("exact_variants", 3); if (!obj.empty()) rep.add("nontrivial", 3);
          if (f0 != obj) rep.violation("C13", key(in, ct, fr, v.name), "exact_free_function", "BooleanOp gives " + pstr(f0) + " the Clipper64 object " + pstr(obj));
          else if (f1 != obj) rep.violation("C13", key(in, ct, fr, v.name), "exact_free_function", "BooleanOp with a repeated and a closing subject vertex gives " + pstr(f1) + " without them " + pstr(obj));
          else if (f2 != obj) rep.violation("C13", key(in, ct, fr, v.name), "exact_free_function", "BooleanOp with all paths reversed gives " + pstr(f2) + " forward " + pstr(obj));
        }
      }
    }
    if (!only_variant.empty() && only_variant.rfind("alg_", 0) != 0) continue;
    // ---------------- algebraic part (region equality outside the tolerance band)
    Paths sc[5]; for (int ct = 1; ct <= 4; ++ct) sc[ct] = scaled(base[ct], SC);
    {
      cur_variant = "alg_identities";
      u64 bad_x = 0, bad_p = 0, n_on = 0, n_ev = 0; P wx{0, 0}, wp{0, 0};
      for (auto& cell : tree.cells) {
        bool on = false;
        int wi = winding(sc[1], cell.c, on), wu = winding(sc[2], cell.c, on), wd = winding(sc[3], cell.c, on), wxr = winding(sc[4], cell.c, on);
        if (on) { ++n_on; continue; }
        n_ev += 4;
        if (wxr != wu - wi) { if (!bad_x) wx = cell.c; ++bad_x; }
        if (wd + wi != (fill(fr, cell.a) ? 1 : 0)) { if (!bad_p) wp = cell.c; ++bad_p; }
      }
      rep.add("points_on_solution_edge_skipped", n_on); rep.add("exact_point_evals", n_ev);
      rep.add("cases", 2); rep.add("compared", 2); rep.add("nontrivial", (!base[4].empty()) + (!base[3].empty() || !base[1].empty()));
      char b[200];
      if (bad_x) { snprintf(b, sizeof b, "Xor != Union - Intersection at (%.1f,%.1f) and %llu more cell centres", (double)wx.x / SC, (double)wx.y / SC, (unsigned long long)bad_x - 1); rep.violation("C13", key(in, 4, fr, "alg_xor_identity"), "alg_xor_identity", b); }
      if (bad_p) { snprintf(b, sizeof b, "Difference + Intersection != subject at (%.1f,%.1f) and %llu more cell centres", (double)wp.x / SC, (double)wp.y / SC, (unsigned long long)bad_p - 1); rep.violation("C13", key(in, 3, fr, "alg_partition_identity"), "alg_partition_identity", b); }
      if (verbose) printf("fr=%d identities: xor_bad=%llu partition_bad=%llu over %zu cells\n", fr, (unsigned long long)bad_x, (unsigned long long)bad_p, tree.cells.size());
    }
    for (auto& t : xforms()) {
      std::string vname = std::string("alg_") + t.name;
      if (!only_variant.empty() && only_variant != vname) continue;
      Paths S2 = xf(t, S), C2 = xf(t, C);
      if (t.flips) { /* orientation-reversing map: paths change orientation, Positive <-> Negative */ }
      int fr2 = t.flips ? swapPN(fr) : fr;
      for (int ct = 1; ct <= 4; ++ct) {
        if (only_ct && ct != only_ct) continue;
        cur_ct = ct; cur_variant = vname; bool ok;
        Paths r = exec(rep, ct, fr2, S2, C2, ok);
        rep.add("cases"); rep.add("compared"); if (!base[ct].empty()) rep.add("nontrivial");
        if (!ok) { rep.violation("C13", key(in, ct, fr, vname), "execute_false", "Execute returned false on transformed input"); continue; }
        // compare at every cell centre c: winding of the transformed run's result at T(c) == winding of the base result at c
        Xf ts = t; ts.tx *= SC; ts.ty *= SC;  // T in scaled coordinates
        Paths rs = scaled(r, SC);
        u64 bad = 0, n_on = 0, n_ev = 0; P w0{0, 0}; int g0 = 0, e0 = 0;
        for (auto& cell : tree.cells) {
          bool on = false;
          int wb = winding(sc[ct], cell.c, on);
          int wt = winding(rs, xf(ts, cell.c), on);
          if (on) { ++n_on; continue; }
          n_ev += 2;
          if (wb != wt) { if (!bad) { w0 = cell.c; g0 = wt; e0 = wb; } ++bad; }
        }
        rep.add("points_on_solution_edge_skipped", n_on); rep.add("exact_point_evals", n_ev);
        if (verbose) printf("ct=%d fr=%d %s: mismatching cells %llu\n", ct, fr, vname.c_str(), (unsigned long long)bad);
        if (bad) { char b[240]; snprintf(b, sizeof b, "at original point (%.1f,%.1f): winding of transformed run %d, of base run %d (%llu cell centres differ)", (double)w0.x / SC, (double)w0.y / SC, g0, e0, (unsigned long long)bad);
          rep.violation("C13", key(in, ct, fr, vname), "alg_transform", std::string(b) + " transformed result=" + pstr(r)); }
      }
    }
  }
  arm_watchdog(0); rep.current_case = nullptr;
  rep.sample("S=" + pstr(S) + " C=" + pstr(C));
}

int main(int argc, char** argv) {
  Args a = parse_args(argc, argv);
  Reporter rep(a); install_crash_handler(rep);
  if (!a.replay.empty()) {
    Case c = Case::parse(a.replay);
    GpInput in{c.getp("S"), c.getp("C"), nullptr, "replay"};
    std::string v = c.get("variant");
    if (v == "alg_xor_identity" || v == "alg_partition_identity") v = "alg_identities";
    check_input(rep, in, true, v, (v == "alg_identities") ? 0 : (int)c.geti("ct"), (int)c.geti("fr", -1));
    printf("violations: %llu\n", (unsigned long long)rep.nviol);
    for (auto& x : rep.viols) printf("  %s %s: %s\n", x.prop.c_str(), x.tag.c_str(), x.detail.c_str());
    return rep.nviol ? 1 : 0;
  }
  for_each_gp(a, rep, [&](const GpInput& in) { check_input(rep, in, false); });
  rep.write();
  return 0;
}
