// C06: polygon offsetting moves the boundary by delta.
// Every simple polygon (optionally with a hole) over the board x delta x join type x miter limit /
// arc tolerance x ReverseSolution is offset by the real ClipperOffset; the result is compared at every
// point of the plane outside the tolerance band with the signed-distance model (region engine).
#include <functional>
#include "clipper2/clipper.h"
#include "sides/clip_api.hpp"
#include "checks/offset_oracle.hpp"

using namespace vf;
namespace CL = Clipper2Lib;

struct Params { double delta; int jt; double ml, arc; bool rs; };

static std::string ckey(const Paths& in, const Params& q) {
  Case c; c.set("P", in).setd("delta", q.delta).set("jt", q.jt).setd("ml", q.ml).setd("arc", q.arc).set("rs", q.rs); return c.s();
}

static Paths run_offset(const Paths& in, const Params& q) {
  CL::ClipperOffset co(q.ml, q.arc, false, q.rs);
  co.AddPaths(vfc::to64(in), (CL::JoinType)q.jt, CL::EndType::Polygon);
  CL::Paths64 sol; co.Execute(q.delta, sol);
  return vfc::from64(sol);
}

// returns "" or "tag: detail"
static std::string judge(Reporter& rep, const Paths& in, const Params& q, const Paths& sol, i64 S, bool verbose) {
  const int JT_SQUARE = 0, JT_BEVEL = 1, JT_ROUND = 2, JT_MITER = 3;
  double d = std::fabs(q.delta) < 0.5 ? 0.0 : q.delta, ad = std::fabs(d);
  ld arc_eff = q.arc > 1e-12 ? (ld)q.arc : (ld)ad * 0.002L;
  ld tol = (q.jt == JT_ROUND ? arc_eff : 0) + 2.0L + 0.001L * ad;
  if (d == 0.0) tol = 2.0L;
  ld k = 1;
  if (d != 0.0) { if (q.jt == JT_MITER) k = std::max((ld)q.ml, sqrtl(2.0L)); else if (q.jt == JT_SQUARE) k = sqrtl(2.0L); }
  ld lo = std::min((ld)d, k * (ld)d), hi = std::max((ld)d, k * (ld)d);
  // orientation convention of the input: the path with the lowest vertex is an outer path
  RegionSD R{scaled(in, S), S};
  // sign of the expected winding inside the result
  size_t lowest = 0; { P best{INT64_MAX, INT64_MAX}; for (size_t i = 0; i < in.size(); ++i) for (auto& v : in[i]) if (v.y < best.y || (v.y == best.y && v.x < best.x)) { best = v; lowest = i; } }
  // (Clipper2's y axis points down: its "lowest" vertex is the one with the greatest y; for deciding which path is an outer
  //  path any extreme vertex will do, so the smallest y is used here.)
  int sgn = area2(in[lowest]) > 0 ? 1 : -1; if (q.rs) sgn = -sgn;
  // bevel inner / outer piece sets (edges moved along their normals only)
  PieceSet rects; bool bevel = (q.jt == JT_BEVEL && d != 0.0);
  // the region lies to the left of every edge when the outer path is positively oriented (holes run the other way)
  bool region_left = area2(in[lowest]) > 0;
  if (bevel)
    for (auto& p : in) { size_t n = p.size(); for (size_t i = 0; i < n; ++i) { const P& a = p[i]; const P& b = p[(i + 1) % n];
      // inflate: edges move away from the region; shrink: into the region
      rects.convex.push_back(seg_rect_side((ld)a.x, (ld)a.y, (ld)b.x, (ld)b.y, ad, d > 0 ? !region_left : region_left)); } }
  // margins (p in scaled coordinates)
  auto classify = [&](const P& c, ld& m_in, ld& m_out) {
    bool on = false; ld s = R.sd(c, on);
    if (on) { m_in = m_out = -1; return; }
    ld x = (ld)c.x / S, y = (ld)c.y / S;
    if (!bevel) { m_in = (lo - tol) - s; m_out = s - (hi + tol); return; }
    if (d > 0) {  // inner: region or a rectangle (at depth > tol); outer: round result
      ld depth = std::max(-s, rects.depth(x, y));
      m_in = depth - tol; m_out = s - ((ld)d + tol);
    } else {      // shrink: inner = round erosion; outer = complement of (region minus rectangles)
      m_in = ((ld)d - tol) - s;
      ld depth_out = std::max(s, rects.depth(x, y));   // depth inside (complement of region) U rectangles
      m_out = depth_out - tol;
    }
  };
  auto margin = [&](const P& c) -> ld { ld a, b; classify(c, a, b); return std::max(a, b); };
  auto payload = [&](const P& c, int& a, int& b, bool& skip) { ld mi, mo; classify(c, mi, mo); a = mi > 0 ? 1 : 0; b = 0; skip = (mi <= 0 && mo <= 0); };
  Box g = bbox(in); i64 growby = (i64)std::ceil((double)(k * ad + tol)) + 6;
  g.x0 -= growby; g.y0 -= growby; g.x1 += growby; g.y1 += growby;
  i64 Hmin = 1; { i128 ext = std::max((i128)g.x1 - g.x0, (i128)g.y1 - g.y0) * S; while ((i128)Hmin * 4096 < ext) Hmin *= 2; }   // leaf size grows with the extent (1 for the board scopes)
  RTree tree = rtree_build(g, S, Hmin, margin, payload);
  RWitness w; RStats st;
  bool good = rtree_check(tree, scaled(sol, S), [&](const RCell& c) { return c.a ? sgn : 0; }, margin, payload, w, st);
  rep.add("tree_cells", tree.cells.size()); rep.add("exact_point_evals", st.evals); rep.add("free_cells_decided", st.decided_free); rep.add("cells_refined", st.refined);
  u64 must_in = 0; for (auto& c : tree.cells) must_in += c.a; if (must_in) rep.add("cases_with_must_inside_cells");
  if (verbose) printf("   tol=%.4Lf lo=%.3Lf hi=%.3Lf cells=%zu must_inside_cells=%llu sign=%d verdict=%s\n", tol, lo, hi, tree.cells.size(), (unsigned long long)must_in, sgn, good ? "ok" : wit_str(w).c_str());
  if (!good) return std::string(w.want == 0 ? "offset_covers_forbidden_point: " : (w.got == 0 ? "offset_misses_required_point: " : "offset_wrong_winding: ")) + wit_str(w);
  return "";
}

static void check_case(Reporter& rep, const Paths& in, const Params& q, i64 S, bool verbose = false) {
  rep.current_case = [&]() { return ckey(in, q); };
  Paths sol = run_offset(in, q);
  rep.add("lib_calls"); rep.add("cases"); rep.add("compared");
  if (!sol.empty() && canon_closed(sol) != canon_closed(in)) rep.add("nontrivial");
  rep.outcome(hash_paths(canon_closed(sol)));
  if (verbose) printf("P=%s delta=%g jt=%d ml=%g arc=%g rs=%d\n   solution=%s\n", pstr(in).c_str(), q.delta, q.jt, q.ml, q.arc, (int)q.rs, pstr(sol).c_str());
  std::string why = judge(rep, in, q, sol, S, verbose);
  if (!why.empty()) rep.violation("C06", ckey(in, q), why.substr(0, why.find(':')), why + " solution=" + pstr(sol));
  rep.current_case = nullptr;
}

int main(int argc, char** argv) {
  Args a = parse_args(argc, argv);
  Reporter rep(a); install_crash_handler(rep);
  i64 S = a.opti("S", a.thorough() ? 4 : 2);
  if (!a.replay.empty()) {
    Case c = Case::parse(a.replay);
    Params q{c.getd("delta"), (int)c.geti("jt"), c.getd("ml", 2), c.getd("arc", 0), c.geti("rs") != 0};
    check_case(rep, c.getp("P"), q, S, true);
    printf("violations: %llu\n", (unsigned long long)rep.nviol);
    for (auto& x : rep.viols) printf("  %s %s: %s\n", x.prop.c_str(), x.tag.c_str(), x.detail.c_str());
    return rep.nviol ? 1 : 0;
  }
  if (a.opt("family", "board") == "curves") {
    // finely sampled convex curves (radius 1600..3200, turning angle per vertex 0.5..1.5 degrees, i.e. far below the library's "almost straight" shortcuts), solid and as
    // a hole in a square, offset by less and by more than their radius: a shrink beyond the inradius must leave nothing, an inflated hole closes
    struct Shape { const char* name; Path p; i64 r; };
    std::vector<Shape> shapes;
    auto ellipse = [](i64 cx, i64 cy, i64 rx, i64 ry, int n) { Path p; for (int i = 0; i < n; ++i) { long double t = 2 * 3.14159265358979323846L * i / n; P v{cx + (i64)llroundl(rx * cosl(t)), cy + (i64)llroundl(ry * sinl(t))}; if (p.empty() || !(p.back().x == v.x && p.back().y == v.y)) p.push_back(v); } return p; };
    i64 U = a.opti("unit", 2000);   // radius of the disc; vertex rounding perturbs the turning angles by about +-(N / (12 U)) degrees
    std::vector<int> ns = a.thorough() ? std::vector<int>{240, 360} : std::vector<int>{360};
    for (int n : ns) shapes.push_back({"disc", ellipse(3 * U, 3 * U, U, U, n), U});
    shapes.push_back({"ellipse", ellipse(3 * U, 3 * U, U * 8 / 5, U * 4 / 5, 360), U * 4 / 5});
    std::vector<std::pair<Paths, double>> jobs;   // (input, delta)
    for (auto& sh : shapes) {
      Path sq = {{U / 2, U / 2}, {U * 11 / 2, U / 2}, {U * 11 / 2, U * 11 / 2}, {U / 2, U * 11 / 2}};   // positive in the library's default convention
      Path cw = area2(sh.p) > 0 ? reversed(sh.p) : sh.p, ccw = reversed(cw);
      for (double f : {0.3, 0.9, 1.1, 1.5}) {
        jobs.push_back({Paths{ccw}, -f * sh.r}); jobs.push_back({Paths{cw}, -f * sh.r});          // solid curve shrunk (either orientation convention)
        jobs.push_back({Paths{sq, cw}, f * sh.r}); jobs.push_back({Paths{reversed(sq), ccw}, f * sh.r});   // curve as a hole, inflated
      }
      jobs.push_back({Paths{ccw}, 0.5 * sh.r});
    }
    std::vector<Params> pl;
    for (int rs = 0; rs < 2; ++rs) { pl.push_back({0, 2, 2.0, 0.0, rs != 0}); pl.push_back({0, 2, 2.0, 0.25, rs != 0}); pl.push_back({0, 3, 2.0, 0.0, rs != 0}); pl.push_back({0, 3, 4.0, 0.0, rs != 0}); pl.push_back({0, 0, 2.0, 0.0, rs != 0}); if (a.thorough() && !rs) pl.push_back({0, 1, 2.0, 0.0, false}); }   // (bevel joins: the per-edge oracle costs ~40 s per case here; thorough tier only)
    u64 idx = 0; bool done = true;
    for (auto& jb : jobs) for (auto q : pl) {
      if (!rep.mine(idx++)) continue;
      if (rep.out_of_time()) { done = false; break; }
      q.delta = jb.second; check_case(rep, jb.first, q, S); rep.add("inputs");
    }
    rep.sample("P=" + pstr(jobs[0].first));
    if (done) rep.bounds_completed.push_back("sampled curves: " + std::to_string(shapes.size()) + " shapes, solid and as a hole, offsets 0.3/0.9/1.1/1.5 x radius x " + std::to_string(pl.size()) + " parameter sets");
    rep.write();
    return 0;
  }
  if (a.opt("family", "board") == "ortho") {
    // rectilinear simple polygons (L, U, T, Z, staircase and comb shapes) of 4..nmax vertices over a 4x4 lattice with unequal spacing, both
    // orientations: slots of width 7, 9, 13 close and bars of those widths vanish at the chosen deltas, so the result of one path splits into
    // several polygons / merges across its own notch (the clean-up union inside ClipperOffset decides the outcome)
    int nmax = (int)a.opti("nmax", 6);
    std::vector<i64> xs = {0, 9, 16, 40}, ys = {0, 7, 20, 44};
    if (a.opti("lat", 0) == 1) { xs = {0, 24, 31, 44}; ys = {0, 13, 37, 46}; }
    // --ra A --rb B: the whole lattice is turned and scaled by the integer similarity (x, y) -> (A x - B y, B x + A y): every corner stays exactly
    // perpendicular but no edge is axis-parallel (unit normals with two non-zero components; sin of the turning angle is +-1 up to rounding)
    i64 RA = a.opti("ra", 1), RB = a.opti("rb", 0); double rscale = std::sqrt((double)(RA * RA + RB * RB));
    auto turn = [&](i64 x, i64 y) { return P{RA * x - RB * y + 100 + 50 * RB, RB * x + RA * y + 100}; };
    std::vector<P> board; for (i64 y : ys) for (i64 x : xs) board.push_back(turn(x, y));
    std::vector<Path> polys;
    for (int n = 4; n <= nmax; n += 2) for (int type = 0; type < 2; ++type) {
      std::vector<int> cur; std::vector<char> used(board.size(), 0);
      std::function<void()> rec = [&]() {
        int i = (int)cur.size();
        if (i == n) {
          bool horiz = ((n - 1 + type) & 1) == 0; int u = cur.back(), v = cur[0];
          if (horiz ? u / 4 != v / 4 : u % 4 != v % 4) return;
          Path p; for (int j : cur) p.push_back(board[j]);
          if (is_simple_closed(p)) polys.push_back(p);
          return;
        }
        if (i == 0) { for (int j = 0; j < (int)board.size(); ++j) { used[j] = 1; cur.push_back(j); rec(); cur.pop_back(); used[j] = 0; } return; }
        bool horiz = ((i - 1 + type) & 1) == 0; int u = cur.back();
        for (int j = cur[0] + 1; j < (int)board.size(); ++j) {     // rotation-normalised: the walk starts at its smallest board index
          if (used[j]) continue;
          if (horiz ? j / 4 != u / 4 : j % 4 != u % 4) continue;     // board index = 4 * row + column
          used[j] = 1; cur.push_back(j); rec(); cur.pop_back(); used[j] = 0;
        }
      };
      rec();
    }
    std::vector<Params> plist;
    for (double d0 : {2.5, -2.5, 6.0, -6.0, 10.0, -10.0, 14.0, -14.0}) {
      double d = d0 * rscale;
      plist.push_back({d, 2, 2.0, 0.25, false}); plist.push_back({d, 3, 2.0, 0.0, false}); plist.push_back({d, 0, 2.0, 0.0, false}); plist.push_back({d, 1, 2.0, 0.0, false});
      if (a.thorough()) { plist.push_back({d, 2, 2.0, 0.0, true}); plist.push_back({d, 3, 1.0, 0.0, true}); plist.push_back({d, 3, 4.0, 0.0, false}); }
    }
    u64 idx = 0; bool done = true;
    for (auto& p : polys) {
      if (!rep.mine(idx++)) continue;
      if (rep.out_of_time()) { done = false; break; }
      rep.add("inputs"); if (p.size() > 4) rep.add("inputs_non_convex");
      for (auto& q : plist) check_case(rep, Paths{p}, q, S);
      rep.sample("P=" + pstr(Paths{p}));
    }
    // two (or three) strictly disjoint rectangles of one orientation in one call: their inflations merge across gaps of 7, 9, 13 units (one polygon
    // region made of several simple polygons; the signed distance is the distance to the nearest of them)
    size_t npairs = 0;
    if (a.opti("pairs", 1) && RB == 0) {
      std::vector<i64> px = xs, py = ys; px.push_back(xs.back() + 9); py.push_back(ys.back() + 13);
      struct Rc { i64 l, t, r, b; }; std::vector<Rc> rcs;
      for (size_t i = 0; i < px.size(); ++i) for (size_t j = i + 1; j < px.size(); ++j) for (size_t k = 0; k < py.size(); ++k) for (size_t l = k + 1; l < py.size(); ++l) rcs.push_back({px[i] + 100, py[k] + 100, px[j] + 100, py[l] + 100});
      auto apart = [](const Rc& u, const Rc& v) { return u.r < v.l || v.r < u.l || u.b < v.t || v.b < u.t; };
      auto mk = [](const Rc& u, bool rev) { Path p = {{u.l, u.t}, {u.r, u.t}, {u.r, u.b}, {u.l, u.b}}; return rev ? reversed(p) : p; };
      for (size_t i = 0; i < rcs.size() && done; ++i) for (size_t j = i + 1; j < rcs.size() && done; ++j) {
        if (!apart(rcs[i], rcs[j])) continue;
        ++npairs;
        if (!rep.mine(idx++)) continue;
        if (rep.out_of_time()) { done = false; break; }
        for (int rev = 0; rev < 2; ++rev) {
          Paths in = {mk(rcs[i], rev), mk(rcs[j], rev)};
          rep.add("inputs"); rep.add("inputs_two_polygons");
          for (auto& q : plist) check_case(rep, in, q, S);
        }
      }
    }
    if (done) rep.bounds_completed.push_back("rectilinear simple polygons n<=" + std::to_string(nmax) + " over the 4x4 lattice lat=" + std::to_string(a.opti("lat", 0)) + " turned by (" + std::to_string(RA) + "," + std::to_string(RB) + "): " + std::to_string(polys.size()) + " shapes and " + std::to_string(npairs) + " pairs of disjoint rectangles (both orientations) x " + std::to_string(plist.size()) + " parameter sets");
    rep.write();
    return 0;
  }
  int k = (int)a.opti("k", 6), nmax = (int)a.opti("nmax", 4); bool holes = a.opti("holes", 1) != 0;
  auto PS = board_PS(a.seed);
  std::vector<Path> polys;
  for (auto& p : polygons_over(PS, k, 3, nmax)) { if (!is_simple_closed(p)) { rep.add("skipped_not_simple"); continue; } if (!angles_ok(p, true)) { rep.add("skipped_angle_filter"); continue; } polys.push_back(p); }
  std::vector<Path> hole_shapes = {{{40, 45}, {52, 47}, {47, 58}}, {{35, 40}, {60, 42}, {55, 62}, {38, 60}}, {{30, 20}, {40, 22}, {33, 31}}};
  std::vector<double> deltas = {0.4, -0.4, 1, -1, 3.5, -3.5, 10, -10, 25, -25, -60};
  std::vector<Params> plist;
  for (double d : deltas) {
    for (double arc : {0.0, 0.25, 1.0}) for (int rs = 0; rs < 2; ++rs) plist.push_back({d, 2, 2.0, arc, rs != 0});
    for (double ml : {1.0, 2.0, 4.0}) for (int rs = 0; rs < 2; ++rs) plist.push_back({d, 3, ml, 0.0, rs != 0});
    for (int rs = 0; rs < 2; ++rs) { plist.push_back({d, 0, 2.0, 0.0, rs != 0}); plist.push_back({d, 1, 2.0, 0.0, rs != 0}); }
  }
  u64 idx = 0; bool done = true;
  for (auto& p : polys) {
    if (!rep.mine(idx++)) continue;
    if (rep.out_of_time()) { done = false; break; }
    std::vector<Paths> inputs; inputs.push_back(Paths{p});
    if (holes)
      for (auto& h : hole_shapes) {
        bool inside = true; Path p2 = scaled(p, 2);
        for (auto& v : h) { bool on = false; int w = winding(p2, P{v.x * 2, v.y * 2}, on); if (on || w == 0) inside = false; }
        for (size_t i = 0; i < h.size() && inside; ++i) for (size_t j = 0; j < p.size(); ++j) if (segs_intersect(h[i], h[(i + 1) % h.size()], p[j], p[(j + 1) % p.size()])) { inside = false; break; }
        if (!inside) continue;
        // hole oriented opposite to the outer path
        Path hh = ((area2(h) > 0) == (area2(p) > 0)) ? reversed(h) : h;
        inputs.push_back(Paths{p, hh}); inputs.push_back(Paths{hh, p});
      }
    for (auto& in : inputs) {
      if (in.size() > 1) rep.add("inputs_with_hole");
      rep.add("inputs");
      for (auto& q : plist) check_case(rep, in, q, S);
      rep.sample("P=" + pstr(in));
    }
  }
  if (done) rep.bounds_completed.push_back("polygons k=" + std::to_string(k) + " n<=" + std::to_string(nmax) + (holes ? " with holes" : "") + " x " + std::to_string(plist.size()) + " parameter sets");
  rep.write();
  return 0;
}
