// C03 oracles: well-formedness of closed solution paths. Exact integer predicates.
// Every function returns "" when the clause set holds and "tag: detail" otherwise.
#pragma once
#include "../engine/boards.hpp"

namespace vf {

struct WfInput { const Paths& inputs; Box bb; i64 mabs; };

// clauses that hold for all inputs whatsoever
inline std::string wellformed_structural(const WfInput& in, const Paths& sol) {
  for (size_t k = 0; k < sol.size(); ++k) {
    const Path& p = sol[k]; size_t n = p.size();
    if (n < 3) return "fewer_than_3_vertices: path " + std::to_string(k) + " has " + std::to_string(n);
    for (size_t i = 0; i < n; ++i)
      if (p[i] == p[(i + 1) % n]) return "equal_consecutive_vertices: path " + std::to_string(k) + " index " + std::to_string(i);
    if (in.mabs <= ((i64)1 << 52))
      for (auto& q : p)
        if (q.x < in.bb.x0 || q.x > in.bb.x1 || q.y < in.bb.y0 || q.y > in.bb.y1)
          return "vertex_outside_input_bbox: " + std::to_string(q.x) + "," + std::to_string(q.y);
  }
  return "";
}

// is (some point of) path a strictly inside path b ?  returns -1 when undecidable (a runs along b everywhere)
inline int path_inside(const Path& a, const Path& b) {
  Path b2 = scaled(b, 2);
  size_t n = a.size();
  for (size_t i = 0; i < n; ++i) {
    P mid{a[i].x + a[(i + 1) % n].x, a[i].y + a[(i + 1) % n].y};
    bool on = false; int w = winding(b2, mid, on);
    if (!on) return w != 0;
  }
  for (size_t i = 0; i < n; ++i) {
    P v{a[i].x * 2, a[i].y * 2};
    bool on = false; int w = winding(b2, v, on);
    if (!on) return w != 0;
  }
  return -1;
}

// geometric clauses for inputs in general position or axis-parallel
//   vertex_tol < 0 : skip the "vertex within tol of an input edge" clause (rectilinear scopes use the exact x/y-set clause instead)
inline std::string wellformed_geometric(const WfInput& in, const Paths& sol, bool pc, bool rs, ld vertex_tol) {
  std::vector<Edge> E = edges_of(sol);
  for (size_t k = 0; k < sol.size(); ++k) {
    const Path& p = sol[k]; size_t n = p.size();
    if (area2(p) == 0) return "zero_area_path: path " + std::to_string(k);
    for (size_t i = 0; i < n; ++i) {
      const P& a = p[(i + n - 1) % n]; const P& b = p[i]; const P& c = p[(i + 1) % n];
      if (orient(a, b, c) == 0) {
        if (dot128(b, a, c) > 0) return "spike_180: path " + std::to_string(k) + " at " + std::to_string(b.x) + "," + std::to_string(b.y);
        if (!pc) return "collinear_vertex_with_preserve_collinear_off: path " + std::to_string(k) + " at " + std::to_string(b.x) + "," + std::to_string(b.y);
      }
    }
  }
  for (size_t i = 0; i < E.size(); ++i)
    for (size_t j = i + 1; j < E.size(); ++j)
      if (proper_cross(E[i].a, E[i].b, E[j].a, E[j].b))
        return "solution_edges_cross: (" + str(Path{E[i].a, E[i].b}) + ") x (" + str(Path{E[j].a, E[j].b}) + ")";
  // orientation versus nesting depth
  for (size_t k = 0; k < sol.size(); ++k) {
    int depth = 0; bool decidable = true;
    for (size_t j = 0; j < sol.size() && decidable; ++j) {
      if (j == k) continue;
      int ins = path_inside(sol[k], sol[j]);
      if (ins < 0) decidable = false; else depth += ins;
    }
    if (!decidable) continue;
    bool positive = area2(sol[k]) > 0;
    bool want_positive = (depth % 2 == 0) != rs;
    if (positive != want_positive)
      return "orientation_vs_nesting: path " + std::to_string(k) + " depth " + std::to_string(depth) + (positive ? " is positive" : " is negative");
  }
  if (vertex_tol >= 0)
    for (auto& p : sol)
      for (auto& q : p) {
        ld d = dist_to_edges(q, in.inputs);
        if (d > vertex_tol + 1e-9L * (1 + (ld)in.mabs)) return "vertex_far_from_input_edges: " + std::to_string(q.x) + "," + std::to_string(q.y) + " dist " + std::to_string((double)d);
      }
  return "";
}

// does the solution touch itself: two edges that are not neighbours in one path share a point (a vertex used twice,
// a vertex on another edge, or a shared boundary segment)? Proper crossings are reported by their own clause.
inline bool solution_touches_itself(const Paths& sol) {
  std::vector<Edge> E = edges_of(sol);
  for (size_t i = 0; i < E.size(); ++i)
    for (size_t j = i + 1; j < E.size(); ++j) {
      bool same = E[i].path == E[j].path;
      size_t n = sol[E[i].path].size();
      bool adjacent = same && ((size_t)(E[i].idx + 1) % n == (size_t)E[j].idx || (size_t)(E[j].idx + 1) % n == (size_t)E[i].idx);
      if (adjacent) {
        // neighbours may only share their common vertex; folding back on each other counts as touching
        const P& a = E[i].a; const P& b = E[i].b; const P& c = E[j].a; const P& d = E[j].b;
        const P& shared = ((size_t)(E[i].idx + 1) % n == (size_t)E[j].idx) ? b : a;
        const P& o1 = (shared == b) ? a : b; const P& o2 = (c == shared) ? d : c;
        if (n > 2 && orient(o1, shared, o2) == 0 && dot128(shared, o1, o2) > 0) return true;
        continue;
      }
      if (segs_intersect(E[i].a, E[i].b, E[j].a, E[j].b)) return true;
    }
  return false;
}
// does the solution touch itself in a point that also carries a HORIZONTAL solution edge (one of the two touching edges is
// horizontal, or a horizontal edge ends in the contact point)? Contacts of that kind go through the library's horizontal-join
// logic; contacts between sloping edges only (e.g. two rings meeting in a rounded crossing point) do not.
inline bool solution_touches_itself_at_horizontal(const Paths& sol) {
  std::vector<Edge> E = edges_of(sol);
  auto horizontal = [](const Edge& e) { return e.a.y == e.b.y; };
  auto on_seg = [](const P& p, const Edge& e) { return orient(e.a, e.b, p) == 0 && std::min(e.a.x, e.b.x) <= p.x && p.x <= std::max(e.a.x, e.b.x) && std::min(e.a.y, e.b.y) <= p.y && p.y <= std::max(e.a.y, e.b.y); };
  auto horizontal_ends_in = [&](const P& p) { for (auto& e : E) if (horizontal(e) && (e.a == p || e.b == p)) return true; return false; };
  for (size_t i = 0; i < E.size(); ++i)
    for (size_t j = i + 1; j < E.size(); ++j) {
      bool same = E[i].path == E[j].path;
      size_t n = sol[E[i].path].size();
      bool adjacent = same && ((size_t)(E[i].idx + 1) % n == (size_t)E[j].idx || (size_t)(E[j].idx + 1) % n == (size_t)E[i].idx);
      if (adjacent) {
        const P& a = E[i].a; const P& b = E[i].b; const P& c = E[j].a; const P& d = E[j].b;
        const P& shared = ((size_t)(E[i].idx + 1) % n == (size_t)E[j].idx) ? b : a;
        const P& o1 = (shared == b) ? a : b; const P& o2 = (c == shared) ? d : c;
        if (n > 2 && orient(o1, shared, o2) == 0 && dot128(shared, o1, o2) > 0 && (horizontal(E[i]) || horizontal_ends_in(shared))) return true;
        continue;
      }
      if (!segs_intersect(E[i].a, E[i].b, E[j].a, E[j].b)) continue;
      if (horizontal(E[i]) || horizontal(E[j])) return true;
      for (const P* q : {&E[i].a, &E[i].b}) if (on_seg(*q, E[j]) && horizontal_ends_in(*q)) return true;
      for (const P* q : {&E[j].a, &E[j].b}) if (on_seg(*q, E[i]) && horizontal_ends_in(*q)) return true;
    }
  return false;
}
// tag for a failed "Union(solution) == solution" clause
inline std::string union_tag(const Paths& sol) {
  if (!solution_touches_itself(sol)) return "union_not_idempotent";
  return solution_touches_itself_at_horizontal(sol) ? "union_not_idempotent_touching_solution" : "union_not_idempotent_touching_at_sloping_edges";
}

inline std::string wellformed_general(const WfInput& in, const Paths& sol, bool pc, bool rs, ld vertex_tol) {
  std::string s = wellformed_structural(in, sol);
  if (!s.empty()) return s;
  return wellformed_geometric(in, sol, pc, rs, vertex_tol);
}

} // namespace vf
