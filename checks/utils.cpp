// C20: path utilities keep their contracts.
//
// Scope (complete enumeration, no sampling):
//   board L3    : every path of 0..nmax points WITH repeats over the 3x3 lattice {0,1,2}^2 -> all functions
//   board L43   : the same over the 4x3 lattice scaled by 10 -> TrimCollinear and the epsilon-dependent
//                 functions (SimplifyPath, RamerDouglasPeucker, StripNearEqual)
//   boards M25/M40 (thorough): board L3 mapped by p -> p*K-K, K = 2^25 / 2^40 -> the functions whose oracle stays
//                 exact at that magnitude (TrimCollinear, StripDuplicates, TranslatePath, GetBounds)
//   open and closed variants, epsilon in {0, 0.5, 1, 2, 7, 100}; a fixed finite grid of Ellipse arguments.
// One *case* = (function, path, open/closed, parameter). Case key: "fn=..|P=..|closed=..|eps=..".
//
// Oracles are the clauses of the property statement, evaluated with exact integer arithmetic.
// Readings of clauses that the statement leaves open (see also known_findings/C20.md):
//  * Inputs contain repeated points, so "is a subsequence" does not say WHICH occurrences survived.
//    Every clause that depends on surviving indices (end points kept, removed vertices within eps of
//    their surviving neighbours) is evaluated existentially: a DP looks for ONE index embedding of the
//    result into the input under which all clauses hold; an alarm needs that no embedding works.
//  * Closed paths: "subsequence in order" is read cyclically (some rotation of the result is a
//    subsequence of the input). The library never rotates; rotated results are only counted.
//  * distance(p, line(a,b)) <= eps  <=>  cross^2 * den^2 <= num^2 * |ab|^2 (eps = num/den dyadic), exact.
//    A vertex at distance exactly eps may be kept or removed (ties never alarm).
//  * When the two neighbours coincide (a == b) the line is undefined. RDP: the removed vertex is first
//    required to be within eps of the POINT a; if only that fails the case is counted
//    (rdp_pass_only_with_undefined_line) and not alarmed. SimplifyPath: the vertex is skipped and counted.
//  * SimplifyPath returns inputs of < 4 points unchanged (explicit early return): the "no removable vertex
//    left" clause is evaluated for >= 4 input points only; the < 4 behaviour is an observation counter.
#include "clipper2/clipper.h"
#include "sides/clip_api.hpp"
#include "engine/boards.hpp"
#include <unordered_map>

using namespace vf;
namespace C2 = Clipper2Lib;
using vfc::to64; using vfc::from64;

// ------------------------------------------------------------------------------------------ counters
// cheap local counters (flushed into the Reporter at the end); keyed by literal address, merged by name
static std::unordered_map<const char*, u64> g_ctr;
static inline void cnt(const char* name, u64 v = 1) { g_ctr[name] += v; }
static void flush_counters(Reporter& rep) { for (auto& e : g_ctr) rep.add(e.first, e.second); g_ctr.clear(); }

// ------------------------------------------------------------------------------------------ cases
enum Fn { F_TRIM, F_SIMPLIFY, F_RDP, F_STRIPDUP, F_STRIPNEAR, F_TRANSLATE, F_LENGTH, F_BOUNDS, F_ELLIPSE, F_N };
static const char* FN[F_N] = {"trim", "simplify", "rdp", "stripdup", "stripnear", "translate", "length", "bounds", "ellipse"};

struct CaseP {
  int fn = 0;
  Path p;
  bool closed = false;
  double eps = 0;          // epsilon (simplify, rdp) or max_dist_sqrd (stripnear)
  i64 dx = 0, dy = 0;      // translate (the PathD flavour translates by dx/4, dy/4)
  bool dbl = false;        // PathD flavour (translate, length, bounds, ellipse)
  // ellipse
  i64 cx = 0, cy = 0; double rx = 0, ry = 0; long long steps = 0; bool rect = false;
};

static std::string key_of(const CaseP& c) {
  Case k; k.set("fn", std::string(FN[c.fn]));
  if (c.fn == F_ELLIPSE) {
    k.set("cx", c.cx).set("cy", c.cy).setd("rx", c.rx).setd("ry", c.ry).set("steps", c.steps).set("T", std::string(c.dbl ? "d" : "i")).set("rect", (long long)c.rect);
    return k.s();
  }
  k.set("P", Paths{c.p});
  switch (c.fn) {
    case F_TRIM: case F_STRIPDUP: k.set("closed", (long long)c.closed); break;
    case F_SIMPLIFY: case F_STRIPNEAR: k.set("closed", (long long)c.closed).setd("eps", c.eps); break;
    case F_RDP: k.setd("eps", c.eps); break;
    case F_TRANSLATE: k.set("dx", c.dx).set("dy", c.dy).set("T", std::string(c.dbl ? "d" : "i")); break;
    case F_LENGTH: k.set("closed", (long long)c.closed).set("T", std::string(c.dbl ? "d" : "i")); break;
    case F_BOUNDS: k.set("T", std::string(c.dbl ? "d" : "i")); break;
  }
  return k.s();
}
static bool case_from_key(const std::string& s, CaseP& c) {
  Case k = Case::parse(s);
  std::string fn = k.get("fn");
  c.fn = -1;
  for (int i = 0; i < F_N; ++i) if (fn == FN[i]) c.fn = i;
  if (c.fn < 0) return false;
  Paths pp = k.getp("P"); if (!pp.empty()) c.p = pp[0];
  c.closed = k.geti("closed") != 0; c.eps = k.getd("eps"); c.dx = k.geti("dx"); c.dy = k.geti("dy"); c.dbl = k.get("T") == "d";
  c.cx = k.geti("cx"); c.cy = k.geti("cy"); c.rx = k.getd("rx"); c.ry = k.getd("ry"); c.steps = k.geti("steps"); c.rect = k.geti("rect") != 0;
  return true;
}

struct Ctx {
  Reporter& rep; bool verbose = false; const CaseP* cur = nullptr;
  std::map<std::string, u64> per_tag;
  // every violation is counted (counter "viol_<tag>"); at most VIOL_CAP per tag and shard are handed to the
  // Reporter with their case key (the D7 family alone has 2e6 members in the thorough scope)
  static constexpr u64 VIOL_CAP = 2000;
  void viol(const char* tag, const std::string& detail) {
    u64 k = ++per_tag[tag];
    rep.add(std::string("viol_") + tag);
    if (k <= VIOL_CAP) rep.violation("C20", key_of(*cur), tag, detail);
    else rep.add(std::string("violations_counted_but_not_listed_") + tag);
    if (verbose) printf("  VIOLATION %s: %s\n", tag, detail.c_str());
  }
};

// ------------------------------------------------------------------------------------------ exact helpers
struct Dyadic { i128 num = 0, den = 1; bool ok = false; };   // value = num/den, den a power of two
static Dyadic dyadic(double v) {
  Dyadic d;
  if (!(v >= 0) || v > 1e12) return d;
  for (i64 den = 1; den <= ((i64)1 << 20); den *= 2) {
    double t = v * (double)den;
    if (t == std::floor(t)) { d.num = (i128)(i64)t; d.den = den; d.ok = true; return d; }
  }
  return d;
}
static inline i128 len2(const P& a, const P& b) { i128 x = (i128)b.x - a.x, y = (i128)b.y - a.y; return x * x + y * y; }
// sign of dist(p, line(a,b)) - eps ; requires a != b
static inline int cmp_dist_line(const P& p, const P& a, const P& b, const Dyadic& e) {
  i128 cr = cross128(a, b, p);
  i128 lhs = cr * cr * e.den * e.den, rhs = e.num * e.num * len2(a, b);
  return lhs < rhs ? -1 : (lhs == rhs ? 0 : 1);
}
// sign of |p-a| - eps
static inline int cmp_dist_pt(const P& p, const P& a, const Dyadic& e) {
  i128 lhs = len2(a, p) * e.den * e.den, rhs = e.num * e.num;
  return lhs < rhs ? -1 : (lhs == rhs ? 0 : 1);
}

// Is there an index embedding j_0 < ... < j_{m-1} of `res` into `in` (in[j_k] == res[k]) such that
//   * force_ends: j_0 == 0 and j_{m-1} == n-1 (an empty result is accepted only for an empty input),
//   * gap_ok(j_k, j_{k+1}) holds for all consecutive surviving indices?
template <class G>
static bool embed(const Path& in, const Path& res, bool force_ends, G gap_ok) {
  size_t n = in.size(), m = res.size();
  if (m == 0) return force_ends ? n == 0 : true;
  if (m > n) return false;
  std::vector<char> f(m * n, 0);
  for (size_t k = 0; k < m; ++k)
    for (size_t i = k; i < n; ++i) {
      if (in[i] != res[k]) continue;
      if (k == 0) { f[i] = (!force_ends || i == 0); continue; }
      for (size_t j = k - 1; j < i; ++j)
        if (f[(k - 1) * n + j] && gap_ok(j, i)) { f[k * n + i] = 1; break; }
    }
  if (force_ends) return f[(m - 1) * n + (n - 1)] != 0;
  for (size_t i = 0; i < n; ++i) if (f[(m - 1) * n + i]) return true;
  return false;
}
static inline bool no_gap_rule(size_t, size_t) { return true; }
// subsequence in order; cyclic reading for closed paths. rotated := true when only a proper rotation embeds.
static bool is_subsequence(const Path& in, const Path& res, bool cyclic, bool& rotated) {
  rotated = false;
  if (res == in) return true;
  if (embed(in, res, false, no_gap_rule)) return true;
  if (!cyclic) return false;
  for (size_t r = 1; r < res.size(); ++r) {
    Path q(res.size());
    for (size_t k = 0; k < res.size(); ++k) q[k] = res[(r + k) % res.size()];
    if (embed(in, q, false, no_gap_rule)) { rotated = true; return true; }
  }
  return false;
}
static std::string ps(const Path& p) { return "{" + str(p) + "}"; }
static bool all_distinct(const Path& p) {
  for (size_t i = 0; i < p.size(); ++i) for (size_t j = i + 1; j < p.size(); ++j) if (p[i] == p[j]) return false;
  return true;
}
static u64 hash_path(int fn, const Path& p, u64 salt = 0) { u64 h = hmix(1469598103934665603ULL, (u64)fn * 1315423911ULL + salt); for (auto& q : p) { h = hmix(h, (u64)q.x); h = hmix(h, (u64)q.y); } return hmix(h, p.size()); }

// ------------------------------------------------------------------------------------------ TrimCollinear
static Path lib_trim(const Path& p, bool closed) { cnt("lib_calls"); cnt("calls_trim"); return from64(C2::TrimCollinear(to64(p), !closed)); }

static void check_trim(Ctx& cx, const CaseP& c) {
  const Path& in = c.p; size_t n = in.size();
  Path res = lib_trim(in, c.closed); size_t m = res.size();
  if (cx.verbose) printf("  TrimCollinear(%s, is_open=%d) = %s\n", ps(in).c_str(), !c.closed, ps(res).c_str());
  if (res != in) { cnt("nontrivial"); cnt("changed_trim"); }
  if (res.empty()) cnt("trim_result_empty");
  for (size_t i = 0; i + 1 < m; ++i) if (res[i] == res[i + 1]) { cnt(c.closed ? "trim_closed_result_adjacent_duplicate_observed" : "trim_open_result_adjacent_duplicate_observed"); break; }
  cx.rep.outcome(hash_path(F_TRIM, res, c.closed));
  // the PathD overload (precision 2) on the same integer-valued path scales exactly, so it must return the same vertices
  // (boards with coordinates beyond 2^40 are outside that overload's range and are skipped)
  { i64 mx = 0; for (auto& q : in) mx = std::max(mx, std::max(q.x < 0 ? -q.x : q.x, q.y < 0 ? -q.y : q.y));
    if (mx < ((i64)1 << 40)) {
      C2::PathD pd; for (auto& q : in) pd.emplace_back((double)q.x, (double)q.y);
      C2::PathD rd = C2::TrimCollinear(pd, 2, !c.closed); cnt("lib_calls"); cnt("calls_trimD");
      bool same = rd.size() == res.size(); for (size_t i = 0; same && i < rd.size(); ++i) same = rd[i].x == (double)res[i].x && rd[i].y == (double)res[i].y;
      if (!same) { std::string t; for (auto& q : rd) { char b[64]; snprintf(b, sizeof b, "%g,%g ", q.x, q.y); t += b; } cx.viol("trimD_differs_from_trim64", "TrimCollinear(PathD, 2, is_open=" + std::to_string(!c.closed) + ") = " + t + " but the Path64 overload gives " + ps(res)); }
    } }

  // clause: subsequence of the input in order (cyclic reading for closed paths)
  bool rotated = false;
  if (!is_subsequence(in, res, c.closed, rotated)) { cx.viol("trim_not_subsequence", "result " + ps(res) + " is not a subsequence of the input"); return; }
  if (rotated) cnt("trim_closed_result_rotated");

  if (!c.closed) {
    // clause: end points of open paths are kept (exists an embedding using index 0 and index n-1)
    if (!embed(in, res, true, no_gap_rule)) {
      bool all_eq = n >= 1; for (auto& q : in) if (q != in[0]) all_eq = false;
      if (res.empty() && all_eq) cx.viol("trim_open_degenerate_emptied", "open path " + ps(in) + " (zero length) -> empty result: its end point is not kept");
      else cx.viol("trim_open_endpoints", "open path " + ps(in) + " -> " + ps(res) + ": no embedding keeps both end points");
    }
  } else {
    // clause: signed area preserved exactly
    i128 a0 = area2(in), a1 = area2(res);
    if (a0 != a1) cx.viol("trim_area", "twice signed area " + i128str(a0) + " -> " + i128str(a1) + " result " + ps(res));
    if (a0 != 0) cnt("trim_closed_nonzero_area");
  }

  // clean-input clauses: no repeated points, no 180-degree reversal
  bool clean = all_distinct(in) && (c.closed ? n >= 3 : n >= 2);
  Path corners;
  if (clean) {
    if (c.closed) {
      for (size_t i = 0; i < n && clean; ++i) {
        const P& a = in[(i + n - 1) % n]; const P& b = in[i]; const P& d = in[(i + 1) % n];
        i128 cr = cross128(a, b, d);
        if (cr != 0) corners.push_back(b);
        else if (dot128(b, a, d) > 0) clean = false;          // (a-b).(d-b) > 0 : the path turns back on itself at b
      }
    } else {
      corners.push_back(in[0]);
      for (size_t i = 1; i + 1 < n && clean; ++i) {
        i128 cr = cross128(in[i - 1], in[i], in[i + 1]);
        if (cr != 0) corners.push_back(in[i]);
        else if (dot128(in[i], in[i - 1], in[i + 1]) > 0) clean = false;
      }
      corners.push_back(in[n - 1]);
    }
  }
  Path res2 = lib_trim(res, c.closed);
  if (!clean) { if (res2 != res) cnt("trim_unclean_not_idempotent_observed"); return; }
  cnt(c.closed ? "trim_clean_closed_inputs" : "trim_clean_open_inputs");
  bool same = c.closed ? canon_closed(res) == canon_closed(corners) : res == corners;
  if (!same) cx.viol("trim_corners", "clean input " + ps(in) + ": result " + ps(res) + " != corner vertices " + ps(corners));
  // no three consecutive collinear vertices left
  if (c.closed) { for (size_t i = 0; i < m && m >= 3; ++i) if (cross128(res[(i + m - 1) % m], res[i], res[(i + 1) % m]) == 0) { cx.viol("trim_collinear_left", "clean input: result " + ps(res) + " still has a collinear vertex at index " + std::to_string(i)); break; } }
  else { for (size_t i = 1; i + 1 < m; ++i) if (cross128(res[i - 1], res[i], res[i + 1]) == 0) { cx.viol("trim_collinear_left", "clean input: result " + ps(res) + " still has a collinear vertex at index " + std::to_string(i)); break; } }
  if (res2 != res) cx.viol("trim_not_idempotent", "clean input: Trim(result)=" + ps(res2) + " != result " + ps(res));
}

// ------------------------------------------------------------------------------------------ SimplifyPath
static void check_simplify(Ctx& cx, const CaseP& c) {
  const Path& in = c.p; size_t n = in.size();
  Dyadic e = dyadic(c.eps);
  if (!e.ok) { cnt("skipped_eps_not_dyadic"); return; }
  cnt("lib_calls"); cnt("calls_simplify");
  Path res = from64(C2::SimplifyPath(to64(in), c.eps, c.closed)); size_t m = res.size();
  if (cx.verbose) printf("  SimplifyPath(%s, eps=%g, closed=%d) = %s\n", ps(in).c_str(), c.eps, c.closed, ps(res).c_str());
  if (res != in) { cnt("nontrivial"); cnt("changed_simplify"); }
  cx.rep.outcome(hash_path(F_SIMPLIFY, res, c.closed));

  bool rotated = false;
  if (!is_subsequence(in, res, c.closed, rotated)) { cx.viol("simplify_not_subsequence", "result " + ps(res) + " is not a subsequence of the input"); return; }
  if (rotated) cnt("simplify_closed_result_rotated");
  if (!c.closed && !embed(in, res, true, no_gap_rule)) cx.viol("simplify_open_endpoints", "open path -> " + ps(res) + ": no embedding keeps both end points");

  // clause: no removable vertex left
  bool small = n < 4;
  if (small) { cnt(res == in ? "simplify_lt4_returned_unchanged" : "simplify_lt4_changed"); }
  bool bad = false; size_t badk = 0;
  if (c.closed && m < 3) { if (!small) cnt("simplify_closed_result_lt3_points"); }
  else {
    size_t k0 = c.closed ? 0 : 1, k1 = c.closed ? m : (m >= 1 ? m - 1 : 0);
    for (size_t k = k0; k < k1; ++k) {
      const P& a = res[(k + m - 1) % m]; const P& b = res[(k + 1) % m];
      if (a == b) { if (!small) cnt("simplify_vertex_skipped_neighbours_coincide"); continue; }
      int s = cmp_dist_line(res[k], a, b, e);
      // the statement says "farther than epsilon": a kept vertex at distance exactly epsilon is removable. In these scopes all
      // squared distances are exactly representable in double, so the library's own comparison is exact and ties are judged too.
      if (s <= 0) { if (!bad) { bad = true; badk = k; } if (s == 0 && !small) cnt("simplify_tie_vertex_kept_at_exactly_eps"); }
    }
  }
  if (small) { if (bad) cnt("simplify_lt4_removable_vertex_left_observed"); return; }
  cnt("simplify_ge4_clause_evaluated");
  if (bad) cx.viol("simplify_removable_left", "result " + ps(res) + ": vertex " + std::to_string(badk) + " (" + std::to_string(res[badk].x) + "," + std::to_string(res[badk].y) + ") is not farther than eps from the line through its neighbours");
}

// ------------------------------------------------------------------------------------------ RamerDouglasPeucker
static void check_rdp(Ctx& cx, const CaseP& c) {
  const Path& in = c.p; size_t n = in.size();
  Dyadic e = dyadic(c.eps);
  if (!e.ok) { cnt("skipped_eps_not_dyadic"); return; }
  cnt("lib_calls"); cnt("calls_rdp");
  Path res = from64(C2::RamerDouglasPeucker(to64(in), c.eps));
  if (cx.verbose) printf("  RamerDouglasPeucker(%s, eps=%g) = %s\n", ps(in).c_str(), c.eps, ps(res).c_str());
  if (res != in) { cnt("nontrivial"); cnt("changed_rdp"); }
  cx.rep.outcome(hash_path(F_RDP, res));
  bool fel = n >= 2 && in[0] == in[n - 1];
  if (fel) cnt("rdp_inputs_first_equals_last");
  if (res == in) return;                                  // identity embedding, nothing removed
  auto V = [&](const char* tag, const std::string& d) { cx.viol(fel ? "rdp_first_equals_last" : tag, std::string(fel ? std::string("[") + tag + "] " : std::string()) + d); };

  if (!embed(in, res, false, no_gap_rule)) { V("rdp_not_subsequence", "result " + ps(res) + " is not a subsequence of the input"); return; }
  if (!embed(in, res, true, no_gap_rule)) { V("rdp_endpoints", "result " + ps(res) + ": no embedding keeps both end points"); return; }
  // every removed vertex within eps of the line through its two surviving neighbours
  auto gap_strict = [&](size_t a, size_t b) {
    bool degenerate = in[a] == in[b];
    for (size_t i = a + 1; i < b; ++i) {
      int s = degenerate ? cmp_dist_pt(in[i], in[a], e) : cmp_dist_line(in[i], in[a], in[b], e);
      if (s > 0) return false;
    }
    return true;
  };
  if (embed(in, res, true, gap_strict)) { cnt("rdp_removed_clause_evaluated"); return; }
  auto gap_lenient = [&](size_t a, size_t b) {
    if (in[a] == in[b]) return true;
    for (size_t i = a + 1; i < b; ++i) if (cmp_dist_line(in[i], in[a], in[b], e) > 0) return false;
    return true;
  };
  if (embed(in, res, true, gap_lenient)) { cnt("rdp_pass_only_with_undefined_line"); return; }
  V("rdp_removed_far", "result " + ps(res) + ": under every embedding some removed vertex is farther than eps from the line through its surviving neighbours");
}

// ------------------------------------------------------------------------------------------ StripDuplicates / StripNearEqual
static void check_stripdup(Ctx& cx, const CaseP& c) {
  const Path& in = c.p;
  C2::Path64 q = to64(in);
  cnt("lib_calls"); cnt("calls_stripdup");
  C2::StripDuplicates(q, c.closed);
  Path res = from64(q); size_t m = res.size();
  if (cx.verbose) printf("  StripDuplicates(%s, closed=%d) = %s\n", ps(in).c_str(), c.closed, ps(res).c_str());
  if (res != in) { cnt("nontrivial"); cnt("changed_stripdup"); }
  cx.rep.outcome(hash_path(F_STRIPDUP, res, c.closed));
  // defining equation: collapse runs of equal points; closed: drop trailing points equal to the first
  Path ref;
  for (auto& p : in) if (ref.empty() || ref.back() != p) ref.push_back(p);
  if (c.closed) while (ref.size() > 1 && ref.back() == ref.front()) ref.pop_back();
  if (res != ref) { cx.viol("stripdup_equation", "result " + ps(res) + " != expected " + ps(ref)); return; }
  // clauses (independent of the reference): no adjacent duplicates left, no point lost
  for (size_t i = 0; i + 1 < m; ++i) if (res[i] == res[i + 1]) { cx.viol("stripdup_adjacent_left", "result " + ps(res)); return; }
  if (c.closed && m > 1 && res.front() == res.back()) cx.viol("stripdup_adjacent_left", "closed result " + ps(res) + " ends where it starts");
  for (auto& p : in) if (std::find(res.begin(), res.end(), p) == res.end()) { cx.viol("stripdup_point_lost", "result " + ps(res)); return; }
}

static void check_stripnear(Ctx& cx, const CaseP& c) {
  const Path& in = c.p;
  Dyadic t = dyadic(c.eps);                               // eps field carries max_dist_sqrd
  if (!t.ok) { cnt("skipped_eps_not_dyadic"); return; }
  cnt("lib_calls"); cnt("calls_stripnear");
  Path res = from64(C2::StripNearEqual(to64(in), c.eps, c.closed)); size_t m = res.size();
  if (cx.verbose) printf("  StripNearEqual(%s, max_dist_sqrd=%g, closed=%d) = %s\n", ps(in).c_str(), c.eps, c.closed, ps(res).c_str());
  if (res != in) { cnt("nontrivial"); cnt("changed_stripnear"); }
  cx.rep.outcome(hash_path(F_STRIPNEAR, res, c.closed));
  auto near = [&](const P& a, const P& b) { return len2(a, b) * t.den < t.num; };   // |ab|^2 < max_dist_sqrd, exact
  Path ref;
  for (auto& p : in) if (ref.empty() || !near(p, ref.back())) ref.push_back(p);
  if (c.closed) while (ref.size() > 1 && near(ref.back(), in[0])) ref.pop_back();
  if (res != ref) { cx.viol("stripnear_equation", "result " + ps(res) + " != expected " + ps(ref)); return; }
  for (size_t i = 0; i + 1 < m; ++i) if (near(res[i], res[i + 1])) { cx.viol("stripnear_adjacent_left", "result " + ps(res)); return; }
  if (c.closed && m > 1 && near(res.front(), res.back())) cx.viol("stripnear_adjacent_left", "closed result " + ps(res));
}

// ------------------------------------------------------------------------------------------ TranslatePath / Length / GetBounds
static void check_translate(Ctx& cx, const CaseP& c) {
  const Path& in = c.p;
  cnt("lib_calls"); cnt("calls_translate");
  if (!c.dbl) {
    Path res = from64(C2::TranslatePath(to64(in), (int64_t)c.dx, (int64_t)c.dy));
    if (cx.verbose) printf("  TranslatePath(%s, %lld, %lld) = %s\n", ps(in).c_str(), (long long)c.dx, (long long)c.dy, ps(res).c_str());
    if (res != in) { cnt("nontrivial"); cnt("changed_translate"); }
    if (res.size() != in.size()) { cx.viol("translate_size", "result " + ps(res)); return; }
    for (size_t i = 0; i < in.size(); ++i) if (res[i].x != in[i].x + c.dx || res[i].y != in[i].y + c.dy) { cx.viol("translate_equation", "result " + ps(res)); return; }
    cnt("lib_calls");
    Path back = from64(C2::TranslatePath(to64(res), (int64_t)-c.dx, (int64_t)-c.dy));
    if (back != in) cx.viol("translate_inverse", "translate back gives " + ps(back));
  } else {
    C2::PathD pd; for (auto& q : in) pd.emplace_back((double)q.x + 0.5, (double)q.y - 0.25);
    double ddx = (double)c.dx / 4, ddy = (double)c.dy / 4;    // exactly representable, sums exact in this scope
    C2::PathD r = C2::TranslatePath(pd, ddx, ddy);
    bool changed = false;
    if (r.size() != pd.size()) { cx.viol("translate_size", "PathD result size " + std::to_string(r.size())); return; }
    for (size_t i = 0; i < pd.size(); ++i) {
      if (r[i].x != pd[i].x + ddx || r[i].y != pd[i].y + ddy) { cx.viol("translate_equation", "PathD point " + std::to_string(i)); return; }
      if (r[i].x != pd[i].x || r[i].y != pd[i].y) changed = true;
    }
    if (changed) { cnt("nontrivial"); cnt("changed_translate"); }
  }
}

static void check_length(Ctx& cx, const CaseP& c) {
  const Path& in = c.p; size_t n = in.size();
  cnt("lib_calls"); cnt("calls_length");
  double got;
  long double want = 0;   // the PathD flavour is the same path shifted by (0.5, 0.5): same length
  if (!c.dbl) got = C2::Length(to64(in), c.closed);
  else { C2::PathD pd; for (auto& q : in) pd.emplace_back((double)q.x + 0.5, (double)q.y + 0.5); got = C2::Length(pd, c.closed); }
  if (n >= 2) {
    for (size_t i = 0; i + 1 < n; ++i) want += sqrtl((long double)len2(in[i], in[i + 1]));
    if (c.closed) want += sqrtl((long double)len2(in[n - 1], in[0]));
  }
  if (cx.verbose) printf("  Length(%s, closed=%d) = %.17g, expected %.21Lg\n", ps(in).c_str(), c.closed, got, want);
  if (got != 0) { cnt("nontrivial"); cnt("length_nonzero"); }
  long double tol = 1e-12L * (1 + want) * (long double)(n + 1);   // n square roots and n additions in double: error < n * 2^-52 * value
  if (!(fabsl((long double)got - want) <= tol)) cx.viol("length_equation", "Length=" + std::to_string(got) + " expected " + std::to_string((double)want));
}

static void check_bounds(Ctx& cx, const CaseP& c) {
  const Path& in = c.p;
  cnt("lib_calls"); cnt("calls_bounds");
  i64 x0 = 0, y0 = 0, x1 = 0, y1 = 0;
  for (size_t i = 0; i < in.size(); ++i) {
    if (i == 0) { x0 = x1 = in[0].x; y0 = y1 = in[0].y; }
    x0 = std::min(x0, in[i].x); x1 = std::max(x1, in[i].x); y0 = std::min(y0, in[i].y); y1 = std::max(y1, in[i].y);
  }
  if (!c.dbl) {
    C2::Path64 q = to64(in);
    C2::Rect64 r = C2::GetBounds(q);
    if (cx.verbose) printf("  GetBounds(%s) = (%lld,%lld,%lld,%lld)\n", ps(in).c_str(), (long long)r.left, (long long)r.top, (long long)r.right, (long long)r.bottom);
    if (in.empty()) { cnt(r.IsValid() ? "bounds_empty_input_valid_rect_observed" : "bounds_empty_input_invalid_rect_observed"); return; }
    if (r.left != x0 || r.top != y0 || r.right != x1 || r.bottom != y1) { cx.viol("bounds_equation", "GetBounds(Path64) wrong"); return; }
    if (x1 > x0 || y1 > y0) { cnt("nontrivial"); cnt("bounds_nondegenerate"); }
    // the Paths overload over {path, reversed path shifted by (1,2)}
    C2::Paths64 two; two.push_back(q); two.push_back(C2::TranslatePath(q, (int64_t)1, (int64_t)2)); std::reverse(two[1].begin(), two[1].end());
    cnt("lib_calls");
    C2::Rect64 r2 = C2::GetBounds(two);
    if (r2.left != x0 || r2.top != y0 || r2.right != x1 + 1 || r2.bottom != y1 + 2) cx.viol("bounds_equation", "GetBounds(Paths64) wrong");
  } else {
    // converting overload GetBounds<double,int64_t> and the PathD one
    C2::Path64 q = to64(in);
    C2::RectD r = C2::GetBounds<double, int64_t>(q);
    C2::PathD pd; for (auto& p : in) pd.emplace_back((double)p.x + 0.5, (double)p.y - 0.25);
    cnt("lib_calls");
    C2::RectD rd = C2::GetBounds(pd);
    if (in.empty()) { cnt(r.IsValid() ? "bounds_empty_input_valid_rect_observed" : "bounds_empty_input_invalid_rect_observed"); return; }
    if (r.left != (double)x0 || r.top != (double)y0 || r.right != (double)x1 || r.bottom != (double)y1) { cx.viol("bounds_equation", "GetBounds<double,int64_t> wrong"); return; }
    if (rd.left != (double)x0 + 0.5 || rd.top != (double)y0 - 0.25 || rd.right != (double)x1 + 0.5 || rd.bottom != (double)y1 - 0.25) { cx.viol("bounds_equation", "GetBounds(PathD) wrong"); return; }
    if (x1 > x0 || y1 > y0) { cnt("nontrivial"); cnt("bounds_nondegenerate"); }
  }
}

// ------------------------------------------------------------------------------------------ Ellipse
static void check_ellipse(Ctx& cx, const CaseP& c) {
  cnt("lib_calls"); cnt("calls_ellipse");
  std::vector<std::pair<long double, long double>> pts;
  long double ccx, ccy; const long double PIl = 3.141592653589793238462643383279502884L;
  if (!c.rect) {
    if (!c.dbl) { C2::Path64 r = C2::Ellipse(C2::Point64(c.cx, c.cy), c.rx, c.ry, (size_t)c.steps); for (auto& q : r) pts.push_back({(long double)q.x, (long double)q.y}); ccx = c.cx; ccy = c.cy; }
    else { C2::PathD r = C2::Ellipse(C2::PointD((double)c.cx + 0.5, (double)c.cy - 0.25), c.rx, c.ry, (size_t)c.steps); for (auto& q : r) pts.push_back({(long double)q.x, (long double)q.y}); ccx = c.cx + 0.5L; ccy = c.cy - 0.25L; }
  } else {
    // rectangle form: left/top = centre - radius, right/bottom = centre + radius (radii are multiples of 0.5 here)
    if (!c.dbl) {
      C2::Rect64 rc((int64_t)std::floor(c.cx - c.rx), (int64_t)std::floor(c.cy - c.ry), (int64_t)std::floor(c.cx + c.rx), (int64_t)std::floor(c.cy + c.ry));
      C2::Path64 r = C2::Ellipse(rc, (size_t)c.steps); for (auto& q : r) pts.push_back({(long double)q.x, (long double)q.y});
      size_t m = pts.size();
      if (cx.verbose) printf("  Ellipse(Rect64(%lld,%lld,%lld,%lld), steps=%lld) -> %zu points\n", (long long)rc.left, (long long)rc.top, (long long)rc.right, (long long)rc.bottom, c.steps, m);
      if (m) cnt("nontrivial");
      if (rc.right <= rc.left) { if (m) cx.viol("ellipse_empty_rect_nonempty", std::to_string(m) + " points for a rectangle of width <= 0"); return; }
      if (c.steps > 2 && m != (size_t)c.steps) { cx.viol("ellipse_step_count", std::to_string(m) + " points, " + std::to_string(c.steps) + " requested"); return; }
      // inscribed: every point inside the rectangle grown by 1 unit (mid point truncation 0.5 + rounding 0.5)
      for (auto& q : pts) if (q.first < rc.left - 1 || q.first > rc.right + 1 || q.second < rc.top - 1 || q.second > rc.bottom + 1) { cx.viol("ellipse_outside_rect", "point " + std::to_string((double)q.first) + "," + std::to_string((double)q.second)); return; }
      return;
    } else {
      C2::RectD rc(c.cx - c.rx, c.cy - c.ry, c.cx + c.rx, c.cy + c.ry);
      C2::PathD r = C2::Ellipse(rc, (size_t)c.steps); for (auto& q : r) pts.push_back({(long double)q.x, (long double)q.y}); ccx = c.cx; ccy = c.cy;
    }
  }
  size_t m = pts.size();
  if (cx.verbose) { printf("  Ellipse(c=%Lg,%Lg rx=%g ry=%g steps=%lld %s%s) -> %zu points:", ccx, ccy, c.rx, c.ry, c.steps, c.dbl ? "double" : "int64", c.rect ? " rect" : "", m); for (size_t i = 0; i < m && i < 12; ++i) printf(" %Lg,%Lg", pts[i].first, pts[i].second); printf("\n"); }
  if (m) cnt("nontrivial");
  if (c.rx <= 0) { cnt("ellipse_nonpositive_radius"); if (m) cx.viol("ellipse_nonpositive_radius_nonempty", std::to_string(m) + " points for radiusX <= 0"); return; }
  long double rx = c.rx, ry = c.ry > 0 ? c.ry : c.rx;
  size_t nsteps;
  if (c.steps > 2) {
    if (m != (size_t)c.steps) { cx.viol("ellipse_step_count", std::to_string(m) + " points, " + std::to_string(c.steps) + " requested"); return; }
    nsteps = m;
  } else {
    // automatic step count: observation only (the formula pi*sqrt((rx+ry)/2) is not part of the statement)
    long double v = PIl * sqrtl((rx + ry) / 2); size_t formula = (size_t)floorl(v);
    cnt(m == std::max<size_t>(formula, 1) ? "ellipse_auto_count_matches_formula_observed" : "ellipse_auto_count_differs_from_formula_observed");
    if (m < 3) { cnt("ellipse_auto_fewer_than_3_points_observed"); return; }
    nsteps = m;
  }
  long double tol = 1e-9L * (1 + rx + ry) + (c.dbl ? 0.0L : 0.5L);
  for (size_t i = 0; i < m; ++i) {
    long double th = 2 * PIl * (long double)i / (long double)nsteps;
    long double ex = ccx + rx * cosl(th), ey = ccy + ry * sinl(th);
    if (fabsl(pts[i].first - ex) > tol || fabsl(pts[i].second - ey) > tol) {
      cx.viol("ellipse_point_off", "point " + std::to_string(i) + " = " + std::to_string((double)pts[i].first) + "," + std::to_string((double)pts[i].second) + " expected " + std::to_string((double)ex) + "," + std::to_string((double)ey)); return; }
  }
  cnt("ellipse_points_checked", m);
}

// ------------------------------------------------------------------------------------------ dispatch
static void run_case(Ctx& cx, const CaseP& c) {
  cx.cur = &c;
  cnt("cases"); cnt("compared");
  switch (c.fn) {
    case F_TRIM: check_trim(cx, c); break;
    case F_SIMPLIFY: check_simplify(cx, c); break;
    case F_RDP: check_rdp(cx, c); break;
    case F_STRIPDUP: check_stripdup(cx, c); break;
    case F_STRIPNEAR: check_stripnear(cx, c); break;
    case F_TRANSLATE: check_translate(cx, c); break;
    case F_LENGTH: check_length(cx, c); break;
    case F_BOUNDS: check_bounds(cx, c); break;
    case F_ELLIPSE: check_ellipse(cx, c); break;
  }
}

static const double EPS[] = {0, 0.5, 1, 2, 7, 100};

struct Board { std::string name; std::vector<P> pts; bool all_fns, eps_fns, exact_fns; std::vector<double> extra_thr; };

static void run_path(Ctx& cx, const Board& b, const Path& p) {
  CaseP c; c.p = p;
  cnt("paths");
  if (b.all_fns || b.eps_fns || b.exact_fns) for (int cl = 0; cl < 2; ++cl) { c.fn = F_TRIM; c.closed = cl; run_case(cx, c); }
  if (b.all_fns || b.eps_fns) {
    for (double e : EPS) {
      for (int cl = 0; cl < 2; ++cl) { c.fn = F_SIMPLIFY; c.closed = cl; c.eps = e; run_case(cx, c); }
      c.fn = F_RDP; c.closed = false; c.eps = e; run_case(cx, c);
      for (int cl = 0; cl < 2; ++cl) { c.fn = F_STRIPNEAR; c.closed = cl; c.eps = e * e; run_case(cx, c); }
    }
    for (double t : b.extra_thr) for (int cl = 0; cl < 2; ++cl) { c.fn = F_STRIPNEAR; c.closed = cl; c.eps = t; run_case(cx, c); }
    c.eps = 0;
  }
  if (b.all_fns || b.exact_fns) {
    for (int cl = 0; cl < 2; ++cl) { c.fn = F_STRIPDUP; c.closed = cl; run_case(cx, c); }
    static const i64 D[3][2] = {{0, 0}, {5, -3}, {-7, 11}};
    for (auto& d : D) { c.fn = F_TRANSLATE; c.closed = false; c.dbl = false; c.dx = d[0]; c.dy = d[1]; run_case(cx, c); }
    c.dx = c.dy = 0;
    c.fn = F_BOUNDS; c.dbl = false; run_case(cx, c);
  }
  if (b.all_fns) {
    c.fn = F_TRANSLATE; c.dbl = true; c.dx = 5; c.dy = -3; run_case(cx, c); c.dx = c.dy = 0;
    c.fn = F_BOUNDS; c.dbl = true; run_case(cx, c);
    for (int d = 0; d < 2; ++d) for (int cl = 0; cl < 2; ++cl) { c.fn = F_LENGTH; c.dbl = d; c.closed = cl; run_case(cx, c); }
  }
}

static void run_ellipses(Ctx& cx) {
  static const i64 CEN[3][2] = {{0, 0}, {5, -3}, {-7, 11}};
  static const double RX[] = {-1, 0, 0.5, 1, 2.5, 10, 100, 1000};
  static const double RY[] = {-1, 0, 0.5, 3, 10, 250};
  static const long long ST[] = {0, 1, 2, 3, 4, 5, 7, 16, 100, 1000};
  u64 idx = 0;
  for (auto& ce : CEN) for (double rx : RX) for (double ry : RY) for (long long st : ST) for (int d = 0; d < 2; ++d) for (int rc = 0; rc < 2; ++rc) {
    if (!cx.rep.mine(idx++)) continue;
    CaseP c; c.fn = F_ELLIPSE; c.cx = ce[0]; c.cy = ce[1]; c.rx = rx; c.ry = ry; c.steps = st; c.dbl = d; c.rect = rc;
    if (c.rect && c.ry <= 0 && c.rx > 0) continue;   // rectangle of height <= 0: radiusY falls back to radiusX, no longer "the ellipse in the rectangle"
    run_case(cx, c);
  }
}

int main(int argc, char** argv) {
  Args a = parse_args(argc, argv);
  Reporter rep(a);
  install_crash_handler(rep);
  rep.current_prop = "C20";
  Ctx cx{rep};
  rep.current_case = [&cx]() { return cx.cur ? key_of(*cx.cur) : std::string("none"); };

  if (!a.replay.empty()) {
    CaseP c;
    if (!case_from_key(a.replay, c)) { fprintf(stderr, "cannot parse case %s\n", a.replay.c_str()); return 2; }
    cx.verbose = true;
    printf("case: %s\n", key_of(c).c_str());
    run_case(cx, c);
    printf("violations: %llu\n", (unsigned long long)rep.nviol);
    for (auto& v : rep.viols) printf("  %s %s: %s\n", v.prop.c_str(), v.tag.c_str(), v.detail.c_str());
    return rep.nviol ? 1 : 0;
  }

  int nmax = (int)a.opti("nmax", a.thorough() ? 6 : 5);
  int nmax43 = (int)a.opti("nmax43", nmax);
  int nmaxmag = (int)a.opti("nmaxmag", a.thorough() ? nmax : -1);
  std::vector<Board> boards;
  boards.push_back({"L3", lattice(3, 3, 1), true, false, false, {2, 5}});
  boards.push_back({"L43x10", lattice(4, 3, 10), false, true, false, {150, 450, 1050}});
  // the unit lattice far from the origin (beyond 2^53, where a coordinate no longer fits a double exactly): the epsilon
  // functions work on coordinate DIFFERENCES, so every contract must hold there exactly as it does at the origin
  { std::vector<P> pts = lattice(3, 3, 1); for (auto& q : pts) { q.x += ((i64)1 << 55) + 1; q.y -= ((i64)1 << 56) - 3; }
    boards.push_back({"T55", pts, false, true, false, {2, 5}}); }
  for (int sh : {25, 40}) {
    i64 K = (i64)1 << sh; std::vector<P> pts = lattice(3, 3, 1);
    for (auto& q : pts) { q.x = q.x * K - K; q.y = q.y * K - K; }
    boards.push_back({"M" + std::to_string(sh), pts, false, false, true, {}});
  }

  if (a.opti("ellipse", 1)) { run_ellipses(cx); rep.bounds_completed.push_back("ellipse grid"); }

  bool stop = false; u64 polled = 0;
  for (size_t bi = 0; bi < boards.size() && !stop; ++bi) {
    const Board& b = boards[bi];
    int bmax = b.exact_fns ? nmaxmag : (b.eps_fns ? nmax43 : nmax);
    int k = (int)b.pts.size();
    u64 gidx = 0;
    for (int n = 0; n <= bmax && !stop; ++n) {
      u64 total = 1; for (int i = 0; i < n; ++i) total *= (u64)k;
      Path p(n);
      for (u64 t = 0; t < total; ++t, ++gidx) {
        if (!rep.mine(gidx)) continue;
        if ((++polled & 0x3ff) == 0 && rep.out_of_time()) { stop = true; break; }
        u64 v = t;
        for (int i = n - 1; i >= 0; --i) { p[i] = b.pts[v % k]; v /= k; }
        run_path(cx, b, p);
        if (n >= 4 && (t % 997) == 5) rep.sample(b.name + ": " + ps(p));
      }
      if (!stop) rep.bounds_completed.push_back("board " + b.name + " n<=" + std::to_string(n));
    }
  }
  if (stop) rep.notes.push_back("deadline reached before the scope was finished");
  flush_counters(rep);
  rep.write();
  return 0;
}
