// C12 (E-HIST): results depend only on the current inputs, not on an object's history.
// Every sequence of API calls up to depth d over a small operation alphabet is replayed on a
// fresh real object (stateless exploration); the last call of each history is an Execute whose
// result must be bit-identical to that of a freshly constructed object given the abstract state
// (paths added since the last Clear + current options). Object kinds: Clipper64, ClipperD,
// ClipperOffset, RectClip64, RectClipLines64. Plus the independence clause for ClipperOffset:
// far-apart groups / paths in any order are offset exactly as alone.
#include "clipper2/clipper.h"
#include "sides/clip_api.hpp"
#include "engine/exact.hpp"
#include <sys/wait.h>
#include <sys/resource.h>

using namespace vf;
namespace CL = Clipper2Lib;

// ---------------------------------------------------------------- result serialisation (bit-exact)
static void ser(std::string& s, const CL::Paths64& pp) { s += "["; for (auto& p : pp) { s += "("; for (auto& q : p) { s += std::to_string(q.x) + "," + std::to_string(q.y) + " "; } s += ")"; } s += "]"; }
static void ser(std::string& s, const CL::PathsD& pp) { char b[64]; s += "["; for (auto& p : pp) { s += "("; for (auto& q : p) { snprintf(b, sizeof b, "%a,%a ", q.x, q.y); s += b; } s += ")"; } s += "]"; }
static void ser(std::string& s, const CL::PolyPath64& n) { s += "{"; CL::Paths64 one{n.Polygon()}; ser(s, one); for (auto& c : n) ser(s, *c); s += "}"; }
static void ser(std::string& s, const CL::PolyPathD& n) { s += "{"; CL::PathsD one{n.Polygon()}; ser(s, one); for (auto& c : n) ser(s, *c); s += "}"; }

static CL::Path64 mk(std::initializer_list<i64> v) { CL::Path64 p; auto it = v.begin(); while (it != v.end()) { i64 x = *it++; i64 y = *it++; p.emplace_back(x, y); } return p; }
static CL::PathD mkd(std::initializer_list<double> v) { CL::PathD p; auto it = v.begin(); while (it != v.end()) { double x = *it++; double y = *it++; p.emplace_back(x, y); } return p; }

struct Kind {
  std::string name;
  std::vector<std::string> ops;            // operation alphabet (names)
  std::vector<char> is_exec;               // which ops produce a result
  // run a history on one real object and return the serialised result of its LAST op
  std::function<std::string(const std::vector<int>&)> run;
  // abstract model: reduce a history to the call list a fresh object needs (adds since last Clear, final options, last op)
  std::function<std::vector<int>(const std::vector<int>&)> reduce;
  // op enabled after this prefix? (used to keep histories with a documented precondition violation out)
  std::function<bool(const std::vector<int>&, int)> enabled;
};

// ================================================================= Clipper64
namespace k64 {
enum { ADD_A, ADD_B, ADD_C, ADD_O, ADD_R, OTHER_USES_R, PC_F, PC_T, RS_T, RS_F, EX_INT_NZ, EX_XOR_EO, EX_TREE_UNION_POS, EX_TREE_NOCLIP, CLEAR, NOPS };
static const char* names[] = {"AddSubject(A)", "AddSubject(B)", "AddClip(C)", "AddOpenSubject(O)", "AddReuseableData(R)", "OtherClipperUses(R)", "PreserveCollinear(false)", "PreserveCollinear(true)",
                              "ReverseSolution(true)", "ReverseSolution(false)", "Execute(Intersection,NonZero)->paths", "Execute(Xor,EvenOdd)->paths", "Execute(Union,Positive)->tree", "Execute(NoClip,NonZero)->tree", "Clear()"};
static CL::Paths64 A{mk({10, 10, 60, 12, 55, 62, 8, 58})}, B{mk({30, 30, 90, 35, 85, 80, 28, 85}), mk({40, 40, 42, 70, 70, 72, 72, 42})}, C{mk({40, 5, 75, 45, 35, 95, 5, 50}), mk({20, 50, 40, 30, 60, 50, 40, 50})},
    O{mk({0, 40, 100, 45, 50, 100}), mk({15, 5, 15, 95})};
static CL::ReuseableDataContainer64& R() {
  static CL::ReuseableDataContainer64* r = nullptr;
  if (!r) { r = new CL::ReuseableDataContainer64(); r->AddPaths(CL::Paths64{mk({20, 20, 70, 20, 70, 70, 20, 70})}, CL::PathType::Subject, false); r->AddPaths(CL::Paths64{mk({45, 0, 95, 50, 45, 100})}, CL::PathType::Clip, false); }
  return *r;
}
static std::string run(const std::vector<int>& h) {
  CL::Clipper64 c; std::string out;
  // the caller's output containers live as long as the object and are handed to every Execute again (a result must not
  // depend on what an earlier Execute left in them either)
  CL::Paths64 s, o; CL::PolyTree64 t;
  for (size_t i = 0; i < h.size(); ++i) {
    out.clear();
    switch (h[i]) {
      case ADD_A: c.AddSubject(A); break; case ADD_B: c.AddSubject(B); break; case ADD_C: c.AddClip(C); break; case ADD_O: c.AddOpenSubject(O); break;
      case ADD_R: c.AddReuseableData(R()); break;
      case OTHER_USES_R: { CL::Clipper64 c2; c2.AddReuseableData(R()); CL::Paths64 s; c2.Execute(CL::ClipType::Union, CL::FillRule::NonZero, s); break; }
      case PC_F: c.PreserveCollinear(false); break; case PC_T: c.PreserveCollinear(true); break; case RS_T: c.ReverseSolution(true); break; case RS_F: c.ReverseSolution(false); break;
      case EX_INT_NZ: { bool ok = c.Execute(CL::ClipType::Intersection, CL::FillRule::NonZero, s, o); out = ok ? "T" : "F"; ser(out, s); ser(out, o); break; }
      case EX_XOR_EO: { bool ok = c.Execute(CL::ClipType::Xor, CL::FillRule::EvenOdd, s, o); out = ok ? "T" : "F"; ser(out, s); ser(out, o); break; }
      case EX_TREE_UNION_POS: { bool ok = c.Execute(CL::ClipType::Union, CL::FillRule::Positive, t, o); out = ok ? "T" : "F"; ser(out, t); ser(out, o); break; }
      case EX_TREE_NOCLIP: { bool ok = c.Execute(CL::ClipType::NoClip, CL::FillRule::NonZero, t, o); out = ok ? "T" : "F"; ser(out, t); ser(out, o); break; }
      case CLEAR: c.Clear(); break;
    }
  }
  return out;
}
static std::vector<int> reduce(const std::vector<int>& h) {
  std::vector<int> adds; int pc = PC_T, rs = RS_F;
  for (size_t i = 0; i + 1 < h.size(); ++i) {
    int op = h[i];
    if (op <= ADD_R) adds.push_back(op); else if (op == CLEAR) adds.clear(); else if (op == PC_F || op == PC_T) pc = op; else if (op == RS_T || op == RS_F) rs = op;
  }
  std::vector<int> r = adds; r.push_back(pc); r.push_back(rs); r.push_back(h.back()); return r;
}
// documented precondition (known finding D12): a container may be added at most once between Clears
static bool enabled(const std::vector<int>& prefix, int op) {
  if (op != ADD_R) return true;
  for (size_t i = prefix.size(); i-- > 0;) { if (prefix[i] == CLEAR) break; if (prefix[i] == ADD_R) return false; }
  return true;
}
}  // namespace k64

// ================================================================= Clipper64, scanline-sensitive alphabet
// Two quadrilaterals whose long, nearly parallel edges cross at (1,50): at every scanline y in 26..74 both edges round to the
// same x, so ANY additional scanline in that range (left over from paths that were added, executed and cleared before) may move
// the computed crossing. E is a row of 60 far-away slivers with a local minimum on each y in 20..79.
namespace k64s {
enum { ADD_NS, ADD_NC, ADD_E, EX_NOCLIP, EX_INT, EX_UNION, EX_XOR, CLEAR, NOPS };
static const char* names[] = {"AddSubject(Ns)", "AddClip(Nc)", "AddSubject(E)", "Execute(NoClip,NonZero)->paths", "Execute(Intersection,NonZero)->paths", "Execute(Union,NonZero)->paths", "Execute(Xor,NonZero)->paths", "Clear()"};
static CL::Paths64 Ns{mk({-50, 100, 0, 100, 2, 0, -50, 0})}, Nc{mk({2, 100, 50, 100, 50, 0, 0, 0})};
static CL::Paths64& E() { static CL::Paths64 e; if (e.empty()) for (int k = 0; k < 60; ++k) e.push_back(mk({300 + 20 * k, 20 + k, 310 + 20 * k, 20 + k, 305 + 20 * k, 19 + k})); return e; }
static std::string run(const std::vector<int>& h) {
  CL::Clipper64 c; std::string out; CL::Paths64 s, o;
  for (size_t i = 0; i < h.size(); ++i) {
    out.clear();
    switch (h[i]) {
      case ADD_NS: c.AddSubject(Ns); break; case ADD_NC: c.AddClip(Nc); break; case ADD_E: c.AddSubject(E()); break; case CLEAR: c.Clear(); break;
      case EX_NOCLIP: case EX_INT: case EX_UNION: case EX_XOR: {
        CL::ClipType ct = h[i] == EX_NOCLIP ? CL::ClipType::NoClip : h[i] == EX_INT ? CL::ClipType::Intersection : h[i] == EX_UNION ? CL::ClipType::Union : CL::ClipType::Xor;
        bool ok = c.Execute(ct, CL::FillRule::NonZero, s, o); out = ok ? "T" : "F"; ser(out, s); ser(out, o); break; }
    }
  }
  return out;
}
static std::vector<int> reduce(const std::vector<int>& h) {
  std::vector<int> adds;
  for (size_t i = 0; i + 1 < h.size(); ++i) { int op = h[i]; if (op <= ADD_E) adds.push_back(op); else if (op == CLEAR) adds.clear(); }
  adds.push_back(h.back()); return adds;
}
}  // namespace k64s

// ================================================================= ClipperD
namespace kD {
enum { ADD_A, ADD_C, ADD_O, PC_F, RS_T, RS_F, EX_INT_NZ, EX_TREE_UNION_EO, EX_DIFF_POS, EX_NOCLIP, CLEAR, NOPS };
static const char* names[] = {"AddSubject(A)", "AddClip(C)", "AddOpenSubject(O)", "PreserveCollinear(false)", "ReverseSolution(true)", "ReverseSolution(false)", "Execute(Intersection,NonZero)->pathsD", "Execute(Union,EvenOdd)->treeD",
                              "Execute(Difference,Positive)->pathsD", "Execute(NoClip,EvenOdd)->pathsD", "Clear()"};
static CL::PathsD A{mkd({1.0, 1.0, 6.05, 1.2, 5.5, 6.25, 0.8, 5.8})}, C{mkd({4.0, 0.5, 7.5, 4.5, 3.5, 9.5, 0.5, 5.0}), mkd({2.0, 5.0, 4.0, 3.0, 6.0, 5.0, 4.0, 5.0})}, O{mkd({0, 4.0, 10.0, 4.5, 5.0, 10.0})};
static std::string run(const std::vector<int>& h) {
  CL::ClipperD c(2); std::string out;
  CL::PathsD s, o; CL::PolyTreeD t;   // output containers reused by every Execute of the history
  for (size_t i = 0; i < h.size(); ++i) {
    out.clear();
    switch (h[i]) {
      case ADD_A: c.AddSubject(A); break; case ADD_C: c.AddClip(C); break; case ADD_O: c.AddOpenSubject(O); break;
      case PC_F: c.PreserveCollinear(false); break; case RS_T: c.ReverseSolution(true); break; case RS_F: c.ReverseSolution(false); break;
      case EX_INT_NZ: { bool ok = c.Execute(CL::ClipType::Intersection, CL::FillRule::NonZero, s, o); out = ok ? "T" : "F"; ser(out, s); ser(out, o); break; }
      case EX_DIFF_POS: { bool ok = c.Execute(CL::ClipType::Difference, CL::FillRule::Positive, s, o); out = ok ? "T" : "F"; ser(out, s); ser(out, o); break; }
      case EX_NOCLIP: { bool ok = c.Execute(CL::ClipType::NoClip, CL::FillRule::EvenOdd, s, o); out = ok ? "T" : "F"; ser(out, s); ser(out, o); break; }
      case EX_TREE_UNION_EO: { bool ok = c.Execute(CL::ClipType::Union, CL::FillRule::EvenOdd, t, o); out = ok ? "T" : "F"; ser(out, t); ser(out, o); break; }
      case CLEAR: c.Clear(); break;
    }
  }
  return out;
}
static std::vector<int> reduce(const std::vector<int>& h) {
  std::vector<int> adds; int pc = -1, rs = RS_F;
  for (size_t i = 0; i + 1 < h.size(); ++i) { int op = h[i]; if (op <= ADD_O) adds.push_back(op); else if (op == CLEAR) adds.clear(); else if (op == PC_F) pc = op; else if (op == RS_T || op == RS_F) rs = op; }
  std::vector<int> r = adds; if (pc >= 0) r.push_back(pc); r.push_back(rs); r.push_back(h.back()); return r;
}
}  // namespace kD

// ================================================================= ClipperOffset
namespace kO {
enum { ADD_G1, ADD_G2, ADD_EMPTY, ADD_P, ML_3, ARC_1, RS_T, EX_P10, EX_M10, EX_TREE_P5, EX_CB7, CLEAR, NOPS };
static const char* names[] = {"AddPaths(G1,Round,Polygon)", "AddPaths(G2{2pt,1pt,3pt},Miter,Joined)", "AddPaths({{},{}},Miter,Polygon)", "AddPath(P,Square,Butt)", "MiterLimit(3)", "ArcTolerance(1)", "ReverseSolution(true)",
                              "Execute(+10)->paths", "Execute(-10)->paths", "Execute(+5)->tree", "Execute(callback=7)->paths", "Clear()"};
static CL::Paths64 G1{mk({0, 0, 100, 0, 100, 100, 0, 100}), mk({30, 30, 30, 70, 70, 70, 70, 30})};
static CL::Paths64 G2{mk({1000, 0, 1100, 0}), mk({1000, 300}), mk({1000, 600, 1100, 600, 1040, 670})};
static CL::Paths64 GE{CL::Path64(), CL::Path64()};
static CL::Path64 P = mk({2000, 0, 2100, 10, 2050, 90});
static std::string run(const std::vector<int>& h) {
  CL::ClipperOffset c; std::string out;
  CL::Paths64 s; CL::PolyTree64 t;   // output containers reused by every Execute of the history
  for (size_t i = 0; i < h.size(); ++i) {
    out.clear();
    switch (h[i]) {
      case ADD_G1: c.AddPaths(G1, CL::JoinType::Round, CL::EndType::Polygon); break;
      case ADD_G2: c.AddPaths(G2, CL::JoinType::Miter, CL::EndType::Joined); break;
      case ADD_EMPTY: c.AddPaths(GE, CL::JoinType::Miter, CL::EndType::Polygon); break;
      case ADD_P: c.AddPath(P, CL::JoinType::Square, CL::EndType::Butt); break;
      case ML_3: c.MiterLimit(3.0); break; case ARC_1: c.ArcTolerance(1.0); break; case RS_T: c.ReverseSolution(true); break;
      case EX_P10: { c.Execute(10.0, s); ser(out, s); break; }
      case EX_M10: { c.Execute(-10.0, s); ser(out, s); break; }
      case EX_TREE_P5: { c.Execute(5.0, t); ser(out, t); break; }
      case EX_CB7: { c.Execute([](const CL::Path64&, const CL::PathD&, size_t, size_t) { return 7.0; }, s); ser(out, s); break; }
      case CLEAR: c.Clear(); break;
    }
  }
  return out;
}
static std::vector<int> reduce(const std::vector<int>& h) {
  std::vector<int> adds; bool ml = false, arc = false, rs = false;
  for (size_t i = 0; i + 1 < h.size(); ++i) { int op = h[i]; if (op <= ADD_P) adds.push_back(op); else if (op == CLEAR) adds.clear(); else if (op == ML_3) ml = true; else if (op == ARC_1) arc = true; else if (op == RS_T) rs = true; }
  std::vector<int> r = adds; if (ml) r.push_back(ML_3); if (arc) r.push_back(ARC_1); if (rs) r.push_back(RS_T); r.push_back(h.back()); return r;
}
}  // namespace kO

// ================================================================= RectClip64 / RectClipLines64
namespace kR {
enum { EX_P1, EX_P2, EX_P12, EX_P3, EX_OUT, EX_COVER, EX_PT, EX_ENTER, NOPS };
static const char* names[] = {"Execute(P1)", "Execute(P2)", "Execute(P1+P2)", "Execute(P3 around the rectangle)", "Execute(path wholly outside, round a corner)", "Execute(path covering the rectangle)",
                              "Execute(one-point path inside)", "Execute(path entering through one side)"};
static CL::Rect64 rect(20, 20, 80, 80);
static CL::Paths64 P1{mk({0, 50, 50, 0, 100, 50, 50, 100})}, P2{mk({30, 30, 60, 35, 50, 60}), mk({70, 10, 95, 40, 60, 90, 10, 95})}, P3{mk({-10, -10, 110, -10, 110, 110, 50, 50, -10, 110})},
    POUT{mk({-30, 50, 50, -30, -40, -40, -40, 30})}, PCOVER{mk({0, 0, 100, 0, 100, 100, 0, 100})}, PPT{mk({50, 50})}, PENTER{mk({40, 130, 50, 50, 60, 130}), mk({130, 40, 50, 45, 130, 60})};
template <class RC> static std::string run_t(const std::vector<int>& h) {
  RC c(rect); std::string out;
  for (size_t i = 0; i < h.size(); ++i) {
    out.clear(); CL::Paths64 in;
    switch (h[i]) { case EX_P1: in = P1; break; case EX_P2: in = P2; break; case EX_P12: in = P1; in.insert(in.end(), P2.begin(), P2.end()); break; case EX_P3: in = P3; break;
      case EX_OUT: in = POUT; break; case EX_COVER: in = PCOVER; break; case EX_PT: in = PPT; break; case EX_ENTER: in = PENTER; break; }
    CL::Paths64 s = c.Execute(in); ser(out, s);
  }
  return out;
}
static std::vector<int> reduce(const std::vector<int>& h) { return {h.back()}; }
}  // namespace kR

// ---------------------------------------------------------------- explorer
static std::string hist_str(const Kind& k, const std::vector<int>& h) { std::string s; for (size_t i = 0; i < h.size(); ++i) { if (i) s += " ; "; s += k.ops[h[i]]; } return s; }
static std::string hist_ids(const std::vector<int>& h) { std::string s; for (size_t i = 0; i < h.size(); ++i) { if (i) s += ","; s += std::to_string(h[i]); } return s; }
static std::vector<int> parse_ids(const std::string& s) { std::vector<int> v; size_t i = 0; while (i < s.size()) { v.push_back(atoi(s.c_str() + i)); size_t j = s.find(',', i); if (j == std::string::npos) break; i = j + 1; } return v; }

static void explore(Reporter& rep, const Kind& k, int depth) {
  int K = (int)k.ops.size();
  std::unordered_set<u64> abstract_states;
  std::map<std::vector<int>, std::string> fresh_cache;  // reduced call list -> result of a fresh object
  u64 idx = 0; bool done = true;
  for (int d = 1; d <= depth && done; ++d) {
    std::vector<int> h(d, 0);
    // enumerate all histories of length d whose last op is an Execute
    std::function<void(int)> rec = [&](int pos) {
      if (!done) return;
      if (pos == d) {
        rep.add("cases"); rep.add("histories_" + k.name);
        std::vector<int> red = k.reduce(h);
        rep.current_case = [&]() { Case c; c.set("kind", k.name).set("hist", hist_ids(h)); return c.s(); };
        arm_watchdog(20.0);   // a history of microsecond-scale calls that burns 20 s of CPU is a hang
        std::string used = k.run(h);
        rep.add("lib_calls", h.size());
        auto it = fresh_cache.find(red);
        if (it == fresh_cache.end()) { it = fresh_cache.emplace(red, k.run(red)).first; rep.add("lib_calls", red.size()); rep.add("fresh_objects_" + k.name); }
        rep.add("compared");
        abstract_states.insert(hash_str(hist_ids(red)));
        rep.outcome(hash_str(it->second, hash_str(k.name)));
        if (red.size() + 0 < h.size() || red != h) rep.add("nontrivial");   // the history is not already its own minimal form
        if (used != it->second) {
          Case c; c.set("kind", k.name).set("hist", hist_ids(h));
          // tag: which earlier call is still visible?
          std::string tag = "history_dependence_" + k.name;
          rep.violation("C12", c.s(), tag, "history: " + hist_str(k, h) + " || fresh-object calls: " + hist_str(k, red) + " || used-object result " + used.substr(0, 300) + " || fresh result " + it->second.substr(0, 300));
        }
        rep.current_case = nullptr; arm_watchdog(0);
        return;
      }
      for (int op = 0; op < K; ++op) {
        if (pos == d - 1 && !k.is_exec[op]) continue;
        if (k.enabled) { std::vector<int> pre(h.begin(), h.begin() + pos); if (!k.enabled(pre, op)) { rep.add("histories_pruned_by_precondition"); continue; } }
        h[pos] = op;
        if (pos == 0) { if (!rep.mine(idx++)) continue; if (rep.out_of_time()) { done = false; return; } }
        rec(pos + 1);
      }
    };
    rec(0);
    if (done) rep.bounds_completed.push_back(k.name + " depth " + std::to_string(d));
  }
  rep.add("distinct_abstract_states_" + k.name, abstract_states.size());
  rep.sample(k.name + ": " + hist_str(k, std::vector<int>{0, (int)(std::find(k.is_exec.begin(), k.is_exec.end(), 1) - k.is_exec.begin())}));
}

// ---------------------------------------------------------------- independence clause for ClipperOffset
struct Grp { std::string name; CL::Paths64 paths; CL::JoinType jt; CL::EndType et; bool reversed_polygon; bool open; };
static CL::Paths64 shifted(const CL::Paths64& pp, i64 dx, i64 dy) { CL::Paths64 r = pp; for (auto& p : r) for (auto& q : p) { q.x += dx; q.y += dy; } return r; }
static Paths canon_of(const CL::Paths64& s) { return canon_closed(vfc::from64(s)); }

static void independence(Reporter& rep) {
  std::vector<Grp> G = {
      {"square_ccw", {mk({0, 0, 100, 0, 100, 100, 0, 100})}, CL::JoinType::Miter, CL::EndType::Polygon, false, false},
      {"square_cw", {mk({0, 100, 100, 100, 100, 0, 0, 0})}, CL::JoinType::Miter, CL::EndType::Polygon, true, false},
      {"ring_ccw_with_hole", {mk({0, 0, 120, 0, 120, 120, 0, 120}), mk({40, 40, 40, 80, 80, 80, 80, 40})}, CL::JoinType::Round, CL::EndType::Polygon, false, false},
      {"open_butt", {mk({0, 0, 100, 0, 100, 80})}, CL::JoinType::Square, CL::EndType::Butt, false, true},
      {"open_round_two_paths", {mk({0, 0, 90, 30}), mk({0, 200, 60, 260, 120, 200})}, CL::JoinType::Round, CL::EndType::Round, false, true},
      {"joined_2pt_then_3pt", {mk({0, 0, 100, 0}), mk({0, 300, 100, 300, 40, 370})}, CL::JoinType::Miter, CL::EndType::Joined, false, true},
      {"empty_paths_polygon", {CL::Path64(), CL::Path64()}, CL::JoinType::Miter, CL::EndType::Polygon, false, false},
      {"single_points_round", {mk({0, 0}), mk({300, 0})}, CL::JoinType::Round, CL::EndType::Round, false, true},
  };
  const double deltas[] = {10.0, -10.0};
  int n = (int)G.size(); u64 idx = 0;
  auto alone = [&](const Grp& g, i64 dx, i64 dy, double delta) {
    CL::Paths64 all;
    // each path of the group offset in its own ClipperOffset (paths of one group are far apart too)... except polygon groups with holes, which belong together
    bool together = g.et == CL::EndType::Polygon;
    if (together) { CL::ClipperOffset co; co.AddPaths(shifted(g.paths, dx, dy), g.jt, g.et); CL::Paths64 s; co.Execute(delta, s); all = s; rep.add("lib_calls"); }
    else for (auto& p : g.paths) { CL::ClipperOffset co; co.AddPaths(shifted(CL::Paths64{p}, dx, dy), g.jt, g.et); CL::Paths64 s; co.Execute(delta, s); all.insert(all.end(), s.begin(), s.end()); rep.add("lib_calls"); }
    return all;
  };
  // ordered selections of 2 and 3 distinct groups
  std::vector<std::vector<int>> sels;
  for (int a = 0; a < n; ++a) for (int b = 0; b < n; ++b) { if (a == b) continue; sels.push_back({a, b}); for (int c = 0; c < n; ++c) if (c != a && c != b) sels.push_back({a, b, c}); }
  for (auto& sel : sels) {
    if (!rep.mine(idx++)) continue;
    for (double delta : deltas) {
      // group i of the selection is translated by (3000*i, 1500*i): far beyond any interaction
      CL::ClipperOffset co; CL::Paths64 expect;
      bool has_rev = false, has_other = false;
      for (size_t i = 0; i < sel.size(); ++i) {
        const Grp& g = G[sel[i]]; i64 dx = 3000 * (i64)i, dy = 1500 * (i64)i;
        co.AddPaths(shifted(g.paths, dx, dy), g.jt, g.et);
        CL::Paths64 a = alone(g, dx, dy, delta); expect.insert(expect.end(), a.begin(), a.end());
        if (g.reversed_polygon) has_rev = true; else if (g.name != "empty_paths_polygon") has_other = true;
      }
      CL::Paths64 got; co.Execute(delta, got); rep.add("lib_calls");
      rep.add("cases"); rep.add("compared"); rep.add("independence_cases"); if (!got.empty()) rep.add("nontrivial");
      Case c; std::string gs; for (size_t i = 0; i < sel.size(); ++i) { if (i) gs += ","; gs += G[sel[i]].name; }
      c.set("kind", "offset_independence").set("groups", gs).setd("delta", delta);
      if (canon_of(got) != canon_of(expect)) {
        // known design limitation (D9): a negatively oriented polygon group together with groups of the other orientation / open paths
        std::string tag = (has_rev && has_other) ? "offset_groups_mixed_orientation" : "offset_groups_not_independent";
        std::string s1, s2; ser(s1, got); ser(s2, expect);
        rep.violation("C12", c.s(), tag, "groups offset together: " + s1.substr(0, 400) + " || each offset alone: " + s2.substr(0, 400));
      }
    }
  }
  rep.bounds_completed.push_back("offset independence: ordered selections of 2-3 of " + std::to_string(n) + " groups x delta +-10");
}

// D12 probe: the same container added twice, in a forked child (it crashes the process)
static void probe_double_container(Reporter& rep) {
  if (rep.args.shard != 0) return;
  fflush(stdout); fflush(stderr);
  pid_t pid = fork();
  if (pid == 0) {
    signal(SIGSEGV, SIG_DFL); signal(SIGABRT, SIG_DFL); signal(SIGBUS, SIG_DFL);
    struct rlimit rl; rl.rlim_cur = rl.rlim_max = (rlim_t)512 << 20; setrlimit(RLIMIT_AS, &rl);   // bounded memory and time for the probe
    { struct rlimit rt; rt.rlim_cur = 10; rt.rlim_max = 11; setrlimit(RLIMIT_CPU, &rt); } alarm(300);
    CL::Clipper64 c; c.AddReuseableData(k64::R()); c.AddReuseableData(k64::R()); CL::Paths64 s;
    c.Execute(CL::ClipType::Intersection, CL::FillRule::NonZero, s);
    // compare with a clipper that got the container's paths once... (two copies of every path => winding doubles; any defined result is accepted here)
    _exit(0);
  }
  int st = 0; waitpid(pid, &st, 0);
  rep.add("cases"); rep.add("compared"); rep.add("lib_calls", 3);
  if (!(WIFEXITED(st) && WEXITSTATUS(st) == 0)) {
    Case c; c.set("kind", "Clipper64").set("hist", "4,4,10");
    rep.violation("C12", c.s(), "reuse_container_added_twice", "AddReuseableData(R); AddReuseableData(R); Execute(Intersection,NonZero) terminated the process (status " + std::to_string(st) + ")");
  }
}

int main(int argc, char** argv) {
  Args a = parse_args(argc, argv);
  Reporter rep(a); install_crash_handler(rep);
  std::vector<Kind> kinds(6);
  kinds[5].name = "Clipper64_scanlines"; for (int i = 0; i < k64s::NOPS; ++i) { kinds[5].ops.push_back(k64s::names[i]); kinds[5].is_exec.push_back(i >= k64s::EX_NOCLIP && i <= k64s::EX_XOR); }
  kinds[5].run = k64s::run; kinds[5].reduce = k64s::reduce;
  kinds[0].name = "Clipper64"; for (int i = 0; i < k64::NOPS; ++i) { kinds[0].ops.push_back(k64::names[i]); kinds[0].is_exec.push_back(i == k64::EX_INT_NZ || i == k64::EX_XOR_EO || i == k64::EX_TREE_UNION_POS || i == k64::EX_TREE_NOCLIP); }
  kinds[0].run = k64::run; kinds[0].reduce = k64::reduce; kinds[0].enabled = k64::enabled;
  kinds[1].name = "ClipperD"; for (int i = 0; i < kD::NOPS; ++i) { kinds[1].ops.push_back(kD::names[i]); kinds[1].is_exec.push_back(i == kD::EX_INT_NZ || i == kD::EX_TREE_UNION_EO || i == kD::EX_DIFF_POS || i == kD::EX_NOCLIP); }
  kinds[1].run = kD::run; kinds[1].reduce = kD::reduce;
  kinds[2].name = "ClipperOffset"; for (int i = 0; i < kO::NOPS; ++i) { kinds[2].ops.push_back(kO::names[i]); kinds[2].is_exec.push_back(i == kO::EX_P10 || i == kO::EX_M10 || i == kO::EX_TREE_P5 || i == kO::EX_CB7); }
  kinds[2].run = kO::run; kinds[2].reduce = kO::reduce;
  kinds[3].name = "RectClip64"; kinds[4].name = "RectClipLines64";
  for (int kk = 3; kk <= 4; ++kk) { for (int i = 0; i < kR::NOPS; ++i) { kinds[kk].ops.push_back(kR::names[i]); kinds[kk].is_exec.push_back(1); } kinds[kk].reduce = kR::reduce; }
  kinds[3].run = kR::run_t<CL::RectClip64>; kinds[4].run = kR::run_t<CL::RectClipLines64>;

  if (!a.replay.empty()) {
    Case c = Case::parse(a.replay);
    std::string kind = c.get("kind");
    if (kind == "offset_independence") { Args b = a; Reporter r2(b); independence(r2); for (auto& v : r2.viols) if (v.key == a.replay) { printf("VIOLATES: %s\n", v.detail.c_str()); return 1; } printf("ok\n"); return 0; }
    for (auto& k : kinds) if (k.name == kind) {
      std::vector<int> h = parse_ids(c.get("hist")); std::vector<int> red = k.reduce(h);
      printf("history      : %s\nfresh object : %s\n", hist_str(k, h).c_str(), hist_str(k, red).c_str());
      if (k.enabled) for (size_t i = 0; i < h.size(); ++i) if (!k.enabled(std::vector<int>(h.begin(), h.begin() + i), h[i])) { printf("(history violates the documented precondition of %s; running it in this process)\n", k.ops[h[i]].c_str()); }
      std::string u = k.run(h), f = k.run(red);
      printf("used  result : %s\nfresh result : %s\n%s\n", u.substr(0, 600).c_str(), f.substr(0, 600).c_str(), u == f ? "identical" : "DIFFERENT");
      return u == f ? 0 : 1;
    }
    return 2;
  }
  std::string what = a.opt("what", "all");
  int depth = (int)a.opti("depth", 4);
  if (what == "all" || what == "Clipper64") { explore(rep, kinds[0], depth); probe_double_container(rep); }
  if (what == "all" || what == "Clipper64" || what == "Clipper64_scanlines") explore(rep, kinds[5], std::min(depth, 6));
  if (what == "all" || what == "ClipperD") explore(rep, kinds[1], depth);
  if (what == "all" || what == "ClipperOffset") explore(rep, kinds[2], depth);
  if (what == "all" || what == "RectClip") { explore(rep, kinds[3], std::min(depth, 5)); explore(rep, kinds[4], std::min(depth, 5)); }
  if (what == "all" || what == "independence") independence(rep);
  rep.write();
  return 0;
}
