// C11 (reporting part): invalid arguments are reported, never silently accepted.
//
// One source, two binaries: harness "errors" (normal build) and "errors_nx" (the whole
// binary, library included, compiled with -fno-exceptions in namespace Clipper2Lib_nx).
//
// Enumerated scope (complete, no sampling):
//  A  every C++ entry point taking a decimal precision x precision -12..12 x coordinate
//     magnitude alphabet x which coordinate carries the magnitude (+x,-x,+y,-y) x which argument
//     carries it (subject/open/clip, pattern/path, paths/rect) x the API's own options
//  B  ScalePath / ScalePaths, 4 type combinations, (scale_x,scale_y) in {0,1,1e-300}^2 and the
//     single-scale overload, x magnitude alphabet x direction
//  C  MakePath(vector<int>/vector<int64_t>), MakePathD(vector<double>/vector<int>) lengths 0..7
//  D  C export layer: BooleanOp64 / BooleanOp_PolyTree64 cliptype 0..255 x fillrule 0..255;
//     BooleanOpD / BooleanOp_PolyTreeD the same grid x precision -12..12
//  E  C export layer, all six functions taking a precision: precision -12..12 x magnitude
//     alphabet x direction x argument
//
// Magnitude alphabet for an API that scales by s: {1, 1e10, 1e15, lo, (boundary), hi, 1e19} where
// lo = largest double whose scaled value fl(x*s) is < 2^61, hi = smallest double whose scaled value
// is > 2^61 (found with nextafter from 2^61/s) and "boundary" are the doubles in between
// (fl(x*s) == 2^61 == (double)MAX_COORD == MAX_COORD+1: neither outcome is judged there).
//
// Oracle: see judge(). Nothing is written outside --out.
#include "clipper2/clipper.h"
#include "clipper2/clipper.export.h"   // extern "C" definitions: this is the only TU including it
#include "engine/common.hpp"
#include <cmath>
#include <cfloat>
#include <new>
#include <sys/resource.h>
#include <fcntl.h>
#include <sys/wait.h>

namespace C2 = Clipper2Lib;
using namespace vf;

#if defined(__cpp_exceptions)
static const bool EXC = true;
static const char* BUILD = "std";
#else
static const bool EXC = false;
static const char* BUILD = "nx";
#endif

static std::string g_what;
// returns 0 = returned normally, 1 = Clipper2Exception, 2 = any other exception, 3 = std::bad_alloc
template <class F> static int guarded(F&& f) {
#if defined(__cpp_exceptions)
  try { f(); return 0; }
  catch (const C2::Clipper2Exception& e) { g_what = e.what(); return 1; }
  catch (const std::bad_alloc& e) { g_what = e.what(); return 3; }
  catch (const std::exception& e) { g_what = e.what(); return 2; }
  catch (...) { g_what = "(non-std exception)"; return 2; }
#else
  f(); return 0;
#endif
}

// ------------------------------------------------------------------ API table
enum ScaleKind { SK_NONE, SK_POW10, SK_POW2, SK_EXPLICIT };
enum Use { U_P = 1, U_M = 2, U_SLOT = 4, U_AUX = 8, U_CT = 16, U_FR = 32, U_SXY = 64, U_LEN = 128 };

enum Api {
  A_CLIPPERD, A_BOOLEANOP, A_BOOLEANOP_TREE, A_INTERSECT, A_UNION2, A_DIFFERENCE, A_XOR, A_UNION1,
  A_INFLATE, A_RECTCLIP_PATHS, A_RECTCLIP_PATH, A_RECTCLIPLINES_PATHS, A_RECTCLIPLINES_PATH,
  A_TRIM, A_MINK_SUM, A_MINK_DIFF,
  A_SCALEPATH_ID, A_SCALEPATH_DI, A_SCALEPATH_II, A_SCALEPATH_DD,
  A_SCALEPATHS_ID, A_SCALEPATHS_DI, A_SCALEPATHS_II, A_SCALEPATHS_DD,
  A_MAKEPATH_INT, A_MAKEPATH_I64, A_MAKEPATHD_DBL, A_MAKEPATHD_INT,
  XG_BOOLEANOP64, XG_TREE64, XG_BOOLEANOPD, XG_TREED,
  XR_BOOLEANOPD, XR_TREED, XR_INFLATEPATHSD, XR_INFLATEPATHD, XR_RECTCLIPD, XR_RECTCLIPLINESD,
  API_COUNT
};

struct ApiInfo {
  const char* name;     // entry point (case key, counters)
  const char* family;   // tag prefix
  ScaleKind sk;
  bool int_target;      // coordinates are converted to int64 (range clause applies)
  bool has_ec;          // the API exposes an error code (ErrorCode() or int& out-parameter)
  bool is_export;
  bool rc_export;       // export returning int
  int uses;
};

static const ApiInfo APIS[API_COUNT] = {
  {"ClipperD", "clipperD", SK_POW2, true, true, false, false, U_P | U_M | U_SLOT | U_AUX},
  {"BooleanOp_PathsD", "booleanopD", SK_POW2, true, false, false, false, U_P | U_M | U_SLOT | U_CT | U_FR},
  {"BooleanOp_PolyTreeD", "booleanopD", SK_POW2, true, false, false, false, U_P | U_M | U_SLOT | U_CT | U_FR},
  {"Intersect_PathsD", "booleanopD", SK_POW2, true, false, false, false, U_P | U_M | U_SLOT | U_FR},
  {"Union_PathsD_PathsD", "booleanopD", SK_POW2, true, false, false, false, U_P | U_M | U_SLOT | U_FR},
  {"Difference_PathsD", "booleanopD", SK_POW2, true, false, false, false, U_P | U_M | U_SLOT | U_FR},
  {"Xor_PathsD", "booleanopD", SK_POW2, true, false, false, false, U_P | U_M | U_SLOT | U_FR},
  {"Union_PathsD", "booleanopD", SK_POW2, true, false, false, false, U_P | U_M | U_FR},
  {"InflatePaths_PathsD", "inflatepathsD", SK_POW10, true, false, false, false, U_P | U_M | U_AUX},
  {"RectClip_PathsD", "rectclipD", SK_POW10, true, false, false, false, U_P | U_M | U_SLOT},
  {"RectClip_PathD", "rectclipD", SK_POW10, true, false, false, false, U_P | U_M | U_SLOT},
  {"RectClipLines_PathsD", "rectcliplinesD", SK_POW10, true, false, false, false, U_P | U_M | U_SLOT},
  {"RectClipLines_PathD", "rectcliplinesD", SK_POW10, true, false, false, false, U_P | U_M | U_SLOT},
  {"TrimCollinear_PathD", "trimcollinearD", SK_POW10, true, false, false, false, U_P | U_M | U_AUX},
  {"MinkowskiSum_PathD", "minkowskiD", SK_POW10, true, false, false, false, U_P | U_M | U_SLOT | U_AUX},
  {"MinkowskiDiff_PathD", "minkowskiD", SK_POW10, true, false, false, false, U_P | U_M | U_SLOT | U_AUX},
  {"ScalePath_int64_double", "scalepath", SK_EXPLICIT, true, true, false, false, U_M | U_SXY | U_AUX},
  {"ScalePath_double_int64", "scalepath", SK_EXPLICIT, false, true, false, false, U_M | U_SXY | U_AUX},
  {"ScalePath_int64_int64", "scalepath", SK_EXPLICIT, true, true, false, false, U_M | U_SXY | U_AUX},
  {"ScalePath_double_double", "scalepath", SK_EXPLICIT, false, true, false, false, U_M | U_SXY | U_AUX},
  {"ScalePaths_int64_double", "scalepaths", SK_EXPLICIT, true, true, false, false, U_M | U_SXY | U_AUX},
  {"ScalePaths_double_int64", "scalepaths", SK_EXPLICIT, false, true, false, false, U_M | U_SXY | U_AUX},
  {"ScalePaths_int64_int64", "scalepaths", SK_EXPLICIT, true, true, false, false, U_M | U_SXY | U_AUX},
  {"ScalePaths_double_double", "scalepaths", SK_EXPLICIT, false, true, false, false, U_M | U_SXY | U_AUX},
  {"MakePath_vector_int", "makepath", SK_NONE, false, false, false, false, U_LEN},
  {"MakePath_vector_int64", "makepath", SK_NONE, false, false, false, false, U_LEN},
  {"MakePathD_vector_double", "makepath", SK_NONE, false, false, false, false, U_LEN},
  {"MakePathD_vector_int", "makepath", SK_NONE, false, false, false, false, U_LEN},
  {"export_BooleanOp64", "export_booleanop64", SK_NONE, false, false, true, true, U_CT | U_FR},
  {"export_BooleanOp_PolyTree64", "export_booleanop64", SK_NONE, false, false, true, true, U_CT | U_FR},
  {"export_BooleanOpD", "export_booleanopD", SK_POW2, true, false, true, true, U_P | U_CT | U_FR},
  {"export_BooleanOp_PolyTreeD", "export_booleanopD", SK_POW2, true, false, true, true, U_P | U_CT | U_FR},
  {"export_BooleanOpD_range", "export_booleanopD", SK_POW2, true, false, true, true, U_P | U_M | U_SLOT},
  {"export_BooleanOp_PolyTreeD_range", "export_booleanopD", SK_POW2, true, false, true, true, U_P | U_M | U_SLOT},
  {"export_InflatePathsD", "export_inflateD", SK_POW10, true, false, true, false, U_P | U_M},
  {"export_InflatePathD", "export_inflateD", SK_POW10, true, false, true, false, U_P | U_M},
  {"export_RectClipD", "export_rectclipD", SK_POW10, true, false, true, false, U_P | U_M | U_SLOT},
  {"export_RectClipLinesD", "export_rectclipD", SK_POW10, true, false, true, false, U_P | U_M | U_SLOT},
};

struct Spec {
  int api = 0;
  int p = 0;          // precision
  double m = 1;       // coordinate magnitude
  int dir = 0;        // 0:+x 1:-x 2:+y 3:-y in a later vertex, 4..7 the same in the FIRST vertex (which coordinate of the triangle / rectangle carries m)
  int slot = 0;       // which argument carries the magnitude
  int aux = 0;        // API-specific option
  int ct = 2, fr = 1;
  double sx = 1, sy = 1;
  int len = 0;
};

static std::string key_of(const Spec& s) {
  const ApiInfo& a = APIS[s.api];
  Case c;
  c.set("api", a.name).set("build", BUILD);
  if (a.uses & U_P) c.set("p", s.p);
  if (a.uses & U_M) { c.setd("m", s.m); c.set("dir", s.dir); }
  if (a.uses & U_SLOT) c.set("slot", s.slot);
  if (a.uses & U_AUX) c.set("aux", s.aux);
  if (a.uses & U_CT) c.set("ct", s.ct);
  if (a.uses & U_FR) c.set("fr", s.fr);
  if (a.uses & U_SXY) { c.setd("sx", s.sx); c.setd("sy", s.sy); }
  if (a.uses & U_LEN) c.set("len", s.len);
  return c.s();
}

static bool parse_spec(const std::string& k, Spec& s, std::string& err) {
  Case c = Case::parse(k);
  std::string nm = c.get("api");
  s.api = -1;
  for (int i = 0; i < API_COUNT; ++i) if (nm == APIS[i].name) s.api = i;
  if (s.api < 0) { err = "unknown api '" + nm + "'"; return false; }
  if (c.has("build") && c.get("build") != BUILD) { err = "case was recorded for build=" + c.get("build") + " but this binary is build=" + BUILD; return false; }
  s.p = (int)c.geti("p", 0); s.m = c.getd("m", 1); s.dir = (int)c.geti("dir", 0); s.slot = (int)c.geti("slot", 0);
  s.aux = (int)c.geti("aux", 0); s.ct = (int)c.geti("ct", 2); s.fr = (int)c.geti("fr", 1);
  s.sx = c.getd("sx", 1); s.sy = c.getd("sy", 1); s.len = (int)c.geti("len", 0);
  return true;
}

// ------------------------------------------------------------------ scales, magnitudes, classification
static const double TWO61 = 2305843009213693952.0;  // 2^61 = (double)MAX_COORD = MAX_COORD + 1

static double scale_of(ScaleKind sk, int p) {
  if (sk == SK_POW10) return std::pow(10, p);
  if (sk == SK_POW2) return std::pow(2.0, std::ilogb(std::pow(10, p)) + 1);  // ClipperD: power of two >= 10^p
  return 1.0;
}
// 0: scaled value strictly inside the range, 1: exactly 2^61 (boundary, not judged), 2: outside
static int range_class(double m, double scale) {
  volatile double v = m * scale;
  double a = std::fabs(v);
  if (a < TWO61) return 0;
  if (a > TWO61) return 2;
  return 1;
}
static std::vector<double> mags_for(double scale) {
  std::vector<double> r{1, 1e10, 1e15, 1e19};
  double t = TWO61 / scale;
  if (scale > 0 && std::isfinite(t)) {
    double lo = t; while (range_class(lo, scale) != 0) lo = std::nextafter(lo, 0.0);
    double hi = t; while (range_class(hi, scale) != 2) hi = std::nextafter(hi, INFINITY);
    r.push_back(lo); r.push_back(hi);
    int k = 0;
    for (double x = std::nextafter(lo, INFINITY); x < hi && k < 8; x = std::nextafter(x, INFINITY), ++k) r.push_back(x);
  }
  std::sort(r.begin(), r.end());
  r.erase(std::unique(r.begin(), r.end()), r.end());
  return r;
}

enum Kind { K_NONE, K_PREC, K_CT, K_FR, K_SCALE, K_RANGE, K_RECT_RANGE, K_ODD };
static const char* KIND_NAME[] = {"none", "precision", "cliptype", "fillrule", "scale", "range", "rect_range", "odd"};

struct Cls {
  bool prec = false, ct = false, fr = false, scale = false, range = false, rect_range = false, odd = false, boundary = false;
  bool invalid() const { return prec || ct || fr || scale || range || rect_range || odd; }
  Kind kind() const { return prec ? K_PREC : ct ? K_CT : fr ? K_FR : scale ? K_SCALE : range ? K_RANGE : rect_range ? K_RECT_RANGE : odd ? K_ODD : K_NONE; }
  int count() const { return prec + ct + fr + scale + range + rect_range + odd; }
};

static bool is_rect_api(int api) { return api == A_RECTCLIP_PATHS || api == A_RECTCLIP_PATH || api == A_RECTCLIPLINES_PATHS || api == A_RECTCLIPLINES_PATH || api == XR_RECTCLIPD || api == XR_RECTCLIPLINESD; }

static Cls classify(const Spec& s) {
  const ApiInfo& a = APIS[s.api];
  Cls c;
  if (a.uses & U_P) c.prec = s.p < -8 || s.p > 8;
  if (a.is_export && (a.uses & U_CT)) c.ct = s.ct > 4;
  if (a.is_export && (a.uses & U_FR)) c.fr = s.fr > 3;
  if (a.uses & U_SXY) c.scale = (s.sx == 0 || s.sy == 0);
  if (a.uses & U_LEN) c.odd = (s.len % 2) != 0;
  if ((a.uses & U_M) && a.int_target && !c.prec) {
    bool scaled = !(s.api == A_INFLATE && s.aux == 1);  // InflatePaths with delta == 0 returns its input without scaling anything
    if (scaled) {
      double sc = a.sk == SK_EXPLICIT ? ((s.dir >= 8 ? s.dir < 10 : (s.dir % 4) < 2) ? s.sx : s.sy) : scale_of(a.sk, s.p);
      int rc = range_class(s.m, sc);
      bool rect = is_rect_api(s.api) && s.slot == 1;
      if (rc == 2) (rect ? c.rect_range : c.range) = true;
      else if (rc == 1) c.boundary = true;
    }
  }
  return c;
}

// ------------------------------------------------------------------ inputs
static C2::PathD triD(int dir, double m) {
  C2::PathD t{C2::PointD(0.0, 0.0), C2::PointD(10.0, 0.0), C2::PointD(0.0, 10.0)};
  // dir 4..7: the oversized coordinate sits in the very FIRST vertex of the path (+x, -x, +y, -y)
  // dir 8..11: a FLAT path (all vertices on one horizontal / vertical line: bounds of zero area) carrying the oversized coordinate
  if (dir >= 8) { bool horiz = dir < 10; double v = (dir % 2) ? -m : m; return horiz ? C2::PathD{C2::PointD(0.0, 0.0), C2::PointD(v, 0.0), C2::PointD(5.0, 0.0)} : C2::PathD{C2::PointD(0.0, 0.0), C2::PointD(0.0, v), C2::PointD(0.0, 5.0)}; }
  switch (dir) { case 0: t[1].x = m; break; case 1: t[1].x = -m; break; case 2: t[2].y = m; break; case 3: t[2].y = -m; break;
                 case 4: t[0].x = m; break; case 5: t[0].x = -m; break; case 6: t[0].y = m; break; default: t[0].y = -m; }
  return t;
}
static C2::Path64 tri64(int dir, double m) {
  int64_t v = (int64_t)m;
  C2::Path64 t{C2::Point64((int64_t)0, (int64_t)0), C2::Point64((int64_t)10, (int64_t)0), C2::Point64((int64_t)0, (int64_t)10)};
  if (dir >= 8) { bool horiz = dir < 10; int64_t w = (dir % 2) ? -v : v; return horiz ? C2::Path64{C2::Point64((int64_t)0, (int64_t)0), C2::Point64(w, (int64_t)0), C2::Point64((int64_t)5, (int64_t)0)} : C2::Path64{C2::Point64((int64_t)0, (int64_t)0), C2::Point64((int64_t)0, w), C2::Point64((int64_t)0, (int64_t)5)}; }
  switch (dir) { case 0: t[1].x = v; break; case 1: t[1].x = -v; break; case 2: t[2].y = v; break; case 3: t[2].y = -v; break;
                 case 4: t[0].x = v; break; case 5: t[0].x = -v; break; case 6: t[0].y = v; break; default: t[0].y = -v; }
  return t;
}
static C2::PathD squareD() { return C2::PathD{C2::PointD(0.0, 0.0), C2::PointD(5.0, 0.0), C2::PointD(5.0, 5.0), C2::PointD(0.0, 5.0)}; }
static C2::RectD rectD(int dir, double m, bool big) {
  C2::RectD r(-2.0, -2.0, 3.0, 3.0);
  if (big) switch (dir % 4) { case 0: r.right = m; break; case 1: r.left = -m; break; case 2: r.bottom = m; break; default: r.top = -m; }
  return r;
}
static std::vector<double> cpathsD(const std::vector<C2::PathD>& pp) {
  size_t A = 2; for (auto& p : pp) A += 2 + 2 * p.size();
  std::vector<double> v; v.reserve(A);
  v.push_back((double)A); v.push_back((double)pp.size());
  for (auto& p : pp) { v.push_back((double)p.size()); v.push_back(0); for (auto& q : p) { v.push_back(q.x); v.push_back(q.y); } }
  return v;
}
static std::vector<double> cpathD(const C2::PathD& p) {
  std::vector<double> v; v.push_back((double)p.size()); v.push_back(0);
  for (auto& q : p) { v.push_back(q.x); v.push_back(q.y); }
  return v;
}
static std::vector<int64_t> cpaths64(const std::vector<C2::Path64>& pp) {
  size_t A = 2; for (auto& p : pp) A += 2 + 2 * p.size();
  std::vector<int64_t> v; v.reserve(A);
  v.push_back((int64_t)A); v.push_back((int64_t)pp.size());
  for (auto& p : pp) { v.push_back((int64_t)p.size()); v.push_back(0); for (auto& q : p) { v.push_back(q.x); v.push_back(q.y); } }
  return v;
}

// ------------------------------------------------------------------ observation
struct Obs {
  int threw = 0;
  int ec = 0;            // meaningful when the API has an error code
  bool nonempty = false; // a normal-looking non-empty result came back
  long rc = 0;           // export return code
  bool exec_ok = true;   // Execute() returned true
  bool outputs_set = true;
  bool content_ok = true;
  int calls = 0;
  int died = 0;          // isolated child was killed by this signal (SIGALRM = no answer within 30 s)
  bool isolated = false;
  std::string desc;
};

static std::string fmtD(const C2::PathsD& pp) {
  std::string s; char b[80];
  for (size_t i = 0; i < pp.size() && i < 3; ++i) { if (i) s += ';'; for (size_t j = 0; j < pp[i].size() && j < 6; ++j) { snprintf(b, sizeof b, "%s%.17g,%.17g", j ? " " : "", pp[i][j].x, pp[i][j].y); s += b; } }
  return "[" + std::to_string(pp.size()) + " path(s): " + s + "]";
}

static double sentD[2]; static int64_t sent64[2];
static bool neD(double* p) { return p && p != sentD && p[1] > 0; }
static bool ne64(int64_t* p) { return p && p != sent64 && p[1] > 0; }
static void freeD(double*& p) { if (p && p != sentD) C2::DisposeArrayD(p); p = nullptr; }
static void free64(int64_t*& p) { if (p && p != sent64) C2::DisposeArray64(p); p = nullptr; }

template <class T1, class T2> static void do_scale(const Spec& s, Obs& o, bool paths_variant) {
  C2::Path<T2> in;
  if constexpr (std::is_integral_v<T2>) in = tri64(s.dir, s.m); else in = triD(s.dir, s.m);
  o.ec = 0;
  size_t n = 0;
  o.threw = guarded([&] {
    if (paths_variant) {
      C2::Paths<T2> pin{in};
      C2::Paths<T1> r = s.aux ? C2::ScalePaths<T1, T2>(pin, s.sx, o.ec) : C2::ScalePaths<T1, T2>(pin, s.sx, s.sy, o.ec);
      for (auto& p : r) n += p.size();
    } else {
      C2::Path<T1> r = s.aux ? C2::ScalePath<T1, T2>(in, s.sx, o.ec) : C2::ScalePath<T1, T2>(in, s.sx, s.sy, o.ec);
      n = r.size();
    }
  });
  o.calls = 1;
  o.nonempty = n > 0;
  o.desc = "result points=" + std::to_string(n);
}

template <class T, bool D> static void do_makepath(const Spec& s, Obs& o) {
  std::vector<T> v((size_t)s.len);
  for (int i = 0; i < s.len; ++i) v[i] = (T)((i + 1) * 3);
  size_t n = 0; bool good = true;
  o.threw = guarded([&] {
    if constexpr (D) { C2::PathD r = C2::MakePathD(v); n = r.size(); if (s.len % 2 == 0) { good = n == (size_t)s.len / 2; for (size_t i = 0; good && i < n; ++i) good = r[i].x == (double)v[2 * i] && r[i].y == (double)v[2 * i + 1]; } }
    else { C2::Path64 r = C2::MakePath(v); n = r.size(); if (s.len % 2 == 0) { good = n == (size_t)s.len / 2; for (size_t i = 0; good && i < n; ++i) good = r[i].x == (int64_t)v[2 * i] && r[i].y == (int64_t)v[2 * i + 1]; } }
  });
  o.calls = 1; o.nonempty = n > 0; o.content_ok = good;
  o.desc = "vector length " + std::to_string(s.len) + " -> " + std::to_string(n) + " point(s)";
}

static Obs execute(const Spec& s) {
  Obs o;
  const C2::ClipType CT = (C2::ClipType)s.ct; const C2::FillRule FR = (C2::FillRule)s.fr;
  switch (s.api) {
    case A_CLIPPERD: {
      o.threw = guarded([&] {
        C2::ClipperD c(s.p);
        C2::PathsD big{triD(s.dir, s.m)}, sq{squareD()};
        if (s.slot == 0) { c.AddSubject(big); c.AddClip(sq); }
        else if (s.slot == 1) { c.AddOpenSubject(big); c.AddSubject(sq); }
        else { c.AddSubject(sq); c.AddClip(big); }
        C2::PathsD closed, open;
        if (s.aux == 0) { o.exec_ok = c.Execute(C2::ClipType::Union, C2::FillRule::NonZero, closed, open); o.nonempty = !closed.empty() || !open.empty(); o.desc = "closed=" + fmtD(closed) + " open=" + fmtD(open); }
        else { C2::PolyTreeD t; o.exec_ok = c.Execute(C2::ClipType::Union, C2::FillRule::NonZero, t, open); o.nonempty = t.Count() > 0 || !open.empty(); o.desc = "tree children=" + std::to_string(t.Count()) + " open=" + fmtD(open); }
        o.ec = c.ErrorCode();
      });
      o.calls = 4; break;
    }
    case A_BOOLEANOP: case A_BOOLEANOP_TREE: case A_INTERSECT: case A_UNION2: case A_DIFFERENCE: case A_XOR: case A_UNION1: {
      C2::PathsD big{triD(s.dir, s.m)}, sq{squareD()};
      const C2::PathsD& subj = s.slot == 0 ? big : sq; const C2::PathsD& clip = s.slot == 0 ? sq : big;
      o.threw = guarded([&] {
        C2::PathsD r;
        switch (s.api) {
          case A_BOOLEANOP: r = C2::BooleanOp(CT, FR, subj, clip, s.p); break;
          case A_BOOLEANOP_TREE: { C2::PolyTreeD t; C2::BooleanOp(CT, FR, subj, clip, t, s.p); r = C2::PolyTreeToPathsD(t); break; }
          case A_INTERSECT: r = C2::Intersect(subj, clip, FR, s.p); break;
          case A_UNION2: r = C2::Union(subj, clip, FR, s.p); break;
          case A_DIFFERENCE: r = C2::Difference(subj, clip, FR, s.p); break;
          case A_XOR: r = C2::Xor(subj, clip, FR, s.p); break;
          default: { C2::PathsD both{big[0], sq[0]}; r = C2::Union(both, FR, s.p); }
        }
        o.nonempty = !r.empty(); o.desc = "result=" + fmtD(r);
      });
      o.calls = 1; break;
    }
    case A_INFLATE: {
      C2::PathsD in{triD(s.dir, s.m)};
      o.threw = guarded([&] { C2::PathsD r = C2::InflatePaths(in, s.aux ? 0.0 : 1.0, C2::JoinType::Miter, C2::EndType::Polygon, 2.0, s.p, 0.0); o.nonempty = !r.empty(); o.desc = "result=" + fmtD(r); });
      o.calls = 1; break;
    }
    case A_RECTCLIP_PATHS: case A_RECTCLIP_PATH: case A_RECTCLIPLINES_PATHS: case A_RECTCLIPLINES_PATH: {
      bool rect_big = s.slot == 1;
      C2::RectD rc = rectD(s.dir, s.m, rect_big);
      C2::PathD path = rect_big ? triD(0, 10.0) : triD(s.dir, s.m);
      o.threw = guarded([&] {
        C2::PathsD r;
        if (s.api == A_RECTCLIP_PATHS) r = C2::RectClip(rc, C2::PathsD{path}, s.p);
        else if (s.api == A_RECTCLIP_PATH) r = C2::RectClip(rc, path, s.p);
        else if (s.api == A_RECTCLIPLINES_PATHS) r = C2::RectClipLines(rc, C2::PathsD{path}, s.p);
        else r = C2::RectClipLines(rc, path, s.p);
        o.nonempty = !r.empty(); o.desc = "result=" + fmtD(r);
      });
      o.calls = 1; break;
    }
    case A_TRIM: {
      C2::PathD in = triD(s.dir, s.m);
      o.threw = guarded([&] { C2::PathD r = C2::TrimCollinear(in, s.p, s.aux != 0); o.nonempty = !r.empty(); o.desc = r.empty() ? std::string("result=empty path") : "result=" + fmtD(C2::PathsD{r}); });
      o.calls = 1; break;
    }
    case A_MINK_SUM: case A_MINK_DIFF: {
      C2::PathD big = triD(s.dir, s.m), sq = squareD();
      const C2::PathD& pattern = s.slot == 0 ? big : sq; const C2::PathD& path = s.slot == 0 ? sq : big;
      o.threw = guarded([&] {
        C2::PathsD r = s.api == A_MINK_SUM ? C2::MinkowskiSum(pattern, path, s.aux != 0, s.p) : C2::MinkowskiDiff(pattern, path, s.aux != 0, s.p);
        o.nonempty = !r.empty(); o.desc = "result=" + fmtD(r);
      });
      o.calls = 1; break;
    }
    case A_SCALEPATH_ID: do_scale<int64_t, double>(s, o, false); break;
    case A_SCALEPATH_DI: do_scale<double, int64_t>(s, o, false); break;
    case A_SCALEPATH_II: do_scale<int64_t, int64_t>(s, o, false); break;
    case A_SCALEPATH_DD: do_scale<double, double>(s, o, false); break;
    case A_SCALEPATHS_ID: do_scale<int64_t, double>(s, o, true); break;
    case A_SCALEPATHS_DI: do_scale<double, int64_t>(s, o, true); break;
    case A_SCALEPATHS_II: do_scale<int64_t, int64_t>(s, o, true); break;
    case A_SCALEPATHS_DD: do_scale<double, double>(s, o, true); break;
    case A_MAKEPATH_INT: do_makepath<int, false>(s, o); break;
    case A_MAKEPATH_I64: do_makepath<int64_t, false>(s, o); break;
    case A_MAKEPATHD_DBL: do_makepath<double, true>(s, o); break;
    case A_MAKEPATHD_INT: do_makepath<int, true>(s, o); break;

    case XG_BOOLEANOP64: case XG_TREE64: {
      static const std::vector<int64_t> subj = cpaths64({C2::Path64{C2::Point64((int64_t)0, (int64_t)0), C2::Point64((int64_t)10, (int64_t)0), C2::Point64((int64_t)10, (int64_t)10), C2::Point64((int64_t)0, (int64_t)10)}});
      static const std::vector<int64_t> clip = cpaths64({C2::Path64{C2::Point64((int64_t)5, (int64_t)5), C2::Point64((int64_t)15, (int64_t)5), C2::Point64((int64_t)15, (int64_t)15), C2::Point64((int64_t)5, (int64_t)15)}});
      static const std::vector<int64_t> open = cpaths64({C2::Path64{C2::Point64((int64_t)-5, (int64_t)7), C2::Point64((int64_t)20, (int64_t)7)}});
      int64_t* sol = sent64; int64_t* sol_open = sent64;
      o.threw = guarded([&] {
        if (s.api == XG_BOOLEANOP64) o.rc = C2::BooleanOp64((uint8_t)s.ct, (uint8_t)s.fr, const_cast<int64_t*>(subj.data()), const_cast<int64_t*>(open.data()), const_cast<int64_t*>(clip.data()), sol, sol_open, true, false);
        else o.rc = C2::BooleanOp_PolyTree64((uint8_t)s.ct, (uint8_t)s.fr, const_cast<int64_t*>(subj.data()), const_cast<int64_t*>(open.data()), const_cast<int64_t*>(clip.data()), sol, sol_open, true, false);
      });
      o.outputs_set = sol != sent64 && sol_open != sent64;
      o.nonempty = ne64(sol) || ne64(sol_open);
      if (o.rc == 0 && !o.threw) o.desc = "rc=0 closed_count=" + std::to_string(sol && sol != sent64 ? (long long)sol[1] : -1LL) + " open_count=" + std::to_string(sol_open && sol_open != sent64 ? (long long)sol_open[1] : -1LL);
      else o.desc = "rc=" + std::to_string(o.rc);
      free64(sol); free64(sol_open);
      o.calls = 1; break;
    }
    case XG_BOOLEANOPD: case XG_TREED: case XR_BOOLEANOPD: case XR_TREED: {
      std::vector<double> subj, clip, open;
      bool grid = s.api == XG_BOOLEANOPD || s.api == XG_TREED;
      if (grid) {
        subj = cpathsD({C2::PathD{C2::PointD(0.0, 0.0), C2::PointD(10.0, 0.0), C2::PointD(10.0, 10.0), C2::PointD(0.0, 10.0)}});
        clip = cpathsD({C2::PathD{C2::PointD(5.0, 5.0), C2::PointD(15.0, 5.0), C2::PointD(15.0, 15.0), C2::PointD(5.0, 15.0)}});
        open = cpathsD({C2::PathD{C2::PointD(-5.0, 7.0), C2::PointD(20.0, 7.0)}});
      } else {
        C2::PathD big = triD(s.dir, s.m), sq = squareD();
        subj = cpathsD({s.slot == 0 ? big : sq});
        if (s.slot == 1) open = cpathsD({big});
        clip = cpathsD({s.slot == 2 ? big : sq});
      }
      double* sol = sentD; double* sol_open = sentD;
      bool tree = s.api == XG_TREED || s.api == XR_TREED;
      o.threw = guarded([&] {
        if (!tree) o.rc = C2::BooleanOpD((uint8_t)s.ct, (uint8_t)s.fr, subj.data(), open.empty() ? nullptr : open.data(), clip.data(), sol, sol_open, s.p, true, false);
        else o.rc = C2::BooleanOp_PolyTreeD((uint8_t)s.ct, (uint8_t)s.fr, subj.data(), open.empty() ? nullptr : open.data(), clip.data(), sol, sol_open, s.p, true, false);
      });
      o.outputs_set = sol != sentD && sol_open != sentD;
      o.nonempty = neD(sol) || neD(sol_open);
      o.desc = "rc=" + std::to_string(o.rc) + (o.nonempty ? " non-empty solution" : " empty solution");
      if (neD(sol) && !tree) { char b[200]; snprintf(b, sizeof b, " first path: n=%g first vertex %.17g,%.17g", sol[2], sol[4], sol[5]); o.desc += b; }
      freeD(sol); freeD(sol_open);
      o.calls = 1; break;
    }
    case XR_INFLATEPATHSD: case XR_INFLATEPATHD: {
      C2::PathD big = triD(s.dir, s.m);
      std::vector<double> in = s.api == XR_INFLATEPATHSD ? cpathsD({big}) : cpathD(big);
      double* r = nullptr;
      o.threw = guarded([&] {
        r = s.api == XR_INFLATEPATHSD ? C2::InflatePathsD(in.data(), 1.0, 3, 0, s.p, 2.0, 0.0, false) : C2::InflatePathD(in.data(), 1.0, 3, 0, s.p, 2.0, 0.0, false);
      });
      o.nonempty = r && r[1] > 0; o.rc = r ? 0 : -1;
      o.desc = r ? "non-null result, paths=" + std::to_string((long long)r[1]) : "nullptr";
      if (r) C2::DisposeArrayD(r);
      o.calls = 1; break;
    }
    case XR_RECTCLIPD: case XR_RECTCLIPLINESD: {
      bool rect_big = s.slot == 1;
      C2::RectD rr = rectD(s.dir, s.m, rect_big);
      C2::CRectD rc{rr.left, rr.top, rr.right, rr.bottom};
      std::vector<double> in = cpathsD({rect_big ? triD(0, 10.0) : triD(s.dir, s.m)});
      double* r = nullptr;
      o.threw = guarded([&] { r = s.api == XR_RECTCLIPD ? C2::RectClipD(rc, in.data(), s.p) : C2::RectClipLinesD(rc, in.data(), s.p); });
      o.nonempty = r && r[1] > 0; o.rc = r ? 0 : -1;
      o.desc = r ? "non-null result, paths=" + std::to_string((long long)r[1]) : "nullptr";
      if (r) C2::DisposeArrayD(r);
      o.calls = 1; break;
    }
    default: break;
  }
  return o;
}

// ------------------------------------------------------------------ isolation
// A scaled value of 2^62 or more can reach a double -> int64 conversion that overflows when the API
// does not check the range first; what follows is then arbitrary (observed on the unchanged tree:
// RectClip allocating without bound). Such cases run in a forked child with a 256 MB address-space
// limit and a 30 s alarm, so that the consequence is attributed to the case and the shard goes on.
static bool needs_isolation(const Spec& s) {
  const ApiInfo& a = APIS[s.api];
  if (!(a.uses & U_M) || !a.int_target) return false;
  double sc = a.sk == SK_EXPLICIT ? std::max(std::fabs(s.sx) == 0 ? 1.0 : std::fabs(s.sx), std::fabs(s.sy) == 0 ? 1.0 : std::fabs(s.sy)) : scale_of(a.sk, s.p);
  return std::fabs(s.m * sc) >= 4611686018427387904.0;
}

static Obs execute_isolated(const Spec& s) {
  int fd[2];
  if (pipe(fd) != 0) { perror("pipe"); exit(2); }
  fflush(stdout); fflush(stderr);
  pid_t pid = fork();
  if (pid < 0) { perror("fork"); exit(2); }
  if (pid == 0) {
    close(fd[0]);
    for (int sg : {SIGSEGV, SIGBUS, SIGFPE, SIGILL, SIGABRT}) signal(sg, SIG_DFL);
    struct rlimit rl; rl.rlim_cur = rl.rlim_max = (rlim_t)256 << 20; setrlimit(RLIMIT_AS, &rl);
    struct rlimit rc; rc.rlim_cur = rc.rlim_max = 0; setrlimit(RLIMIT_CORE, &rc);
    int dn = open("/dev/null", O_WRONLY); if (dn >= 0) dup2(dn, 2);  // "terminate called ..." of a dying child is noise in the shard log
    { struct rlimit rt; rt.rlim_cur = 30; rt.rlim_max = 31; setrlimit(RLIMIT_CPU, &rt); }   // 30 s of CPU time (SIGXCPU), load-independent;
    alarm(600);                                                                             // the wall-clock alarm is only a backstop
    Obs o = execute(s);
    char head[160];
    snprintf(head, sizeof head, "%d %d %d %ld %d %d %d %d\n", o.threw, o.ec, (int)o.nonempty, o.rc, (int)o.exec_ok, (int)o.outputs_set, (int)o.content_ok, o.calls);
    std::string msg = std::string(head) + o.desc + "\n" + g_what;
    size_t off = 0;
    while (off < msg.size()) { ssize_t w = write(fd[1], msg.data() + off, msg.size() - off); if (w <= 0) break; off += (size_t)w; }
    _exit(0);
  }
  close(fd[1]);
  std::string msg; char buf[4096]; ssize_t n;
  while ((n = read(fd[0], buf, sizeof buf)) > 0) msg.append(buf, (size_t)n);
  close(fd[0]);
  int st = 0; waitpid(pid, &st, 0);
  Obs o; o.isolated = true; o.calls = 1;
  if (WIFSIGNALED(st)) { o.died = WTERMSIG(st); o.desc = "the call did not return: process killed by signal " + std::to_string(o.died) + (o.died == SIGABRT ? " (abort, e.g. std::terminate after bad_alloc under a 256 MB limit)" : (o.died == SIGALRM || o.died == SIGXCPU || o.died == SIGKILL) ? " (no answer within 30 s of CPU time)" : ""); return o; }
  int ne = 0, ok = 1, os = 1, co = 1;
  size_t nl = msg.find('\n');
  if (nl == std::string::npos || sscanf(msg.c_str(), "%d %d %d %ld %d %d %d %d", &o.threw, &o.ec, &ne, &o.rc, &ok, &os, &co, &o.calls) != 8) { fprintf(stderr, "isolated child gave no parsable answer for %s\n", key_of(s).c_str()); exit(2); }
  o.nonempty = ne; o.exec_ok = ok; o.outputs_set = os; o.content_ok = co;
  size_t nl2 = msg.find('\n', nl + 1);
  o.desc = msg.substr(nl + 1, nl2 == std::string::npos ? std::string::npos : nl2 - nl - 1);
  if (nl2 != std::string::npos) g_what = msg.substr(nl2 + 1);
  return o;
}

// ------------------------------------------------------------------ judgement
struct Verdict { bool judged = false; bool violated = false; std::string tag, detail; };

static std::string nx_tag(const ApiInfo& a, const Spec& s, Kind k) {
  std::string fam = a.family;
  // the defects main triages under fixed names
  if (fam == "minkowskiD" && k == K_PREC) return "minkowskiD_precision_unchecked";
  if (fam == "minkowskiD" && k == K_RANGE) return "minkowskiD_range_unchecked";
  if (fam == "booleanopD" && k == K_RANGE) return "booleanopD_range_error_ignored_nx";
  if (fam == "makepath" && k == K_ODD) return "makepath_odd_silent_nx";
  if (s.api == A_INFLATE && s.aux == 1 && k == K_PREC) return "inflatepathsD_delta0_precision_ignored_nx";
  // no check exists in either build for these: same tag as in the exception build
  if (k == K_RANGE && (fam == "trimcollinearD" || fam == "scalepath" || fam == "export_inflateD" || fam == "export_rectclipD")) return fam + "_range_unchecked";
  if (k == K_RECT_RANGE) return fam + "_rect_range_unchecked";
  if (fam == "export_booleanopD" && k == K_RANGE) return "export_booleanopD_range_error_ignored_nx";
  return fam + "_" + KIND_NAME[k] + (a.has_ec ? "_error_not_set_nx" : "_silent_nx");
}

struct Tally {
  u64 cases[API_COUNT] = {}, invalid[API_COUNT] = {}, valid[API_COUNT] = {}, boundary[API_COUNT] = {}, viol[API_COUNT] = {};
  std::map<std::string, u64> c;
  void add(const std::string& k, u64 n = 1) { c[k] += n; }
};

static Verdict judge(const Spec& s, const Cls& cls, const Obs& o, Tally& T) {
  const ApiInfo& a = APIS[s.api];
  Verdict v;
  std::string what = std::string(a.name) + ": ";
  if (!cls.invalid() && cls.boundary) {
    // scaled coordinate is exactly 2^61 = (double)MAX_COORD = MAX_COORD+1: neither acceptance nor rejection is judged
    bool reported = o.threw || (a.has_ec && o.ec) || (!a.has_ec && !o.nonempty);
    T.add(reported ? "boundary_2p61_reported_or_empty" : "boundary_2p61_accepted");
    return v;
  }
  v.judged = true;
  if (o.died || o.threw == 3) {
    // neither a report nor a result: the call ran out of memory / crashed / did not come back
    v.violated = true;
    v.tag = std::string(a.family) + "_" + (cls.invalid() ? std::string(KIND_NAME[cls.kind()]) + "_unchecked_crash" : std::string("valid_crash"));
    v.detail = what + (cls.invalid() ? std::string("invalid ") + KIND_NAME[cls.kind()] + " not reported; " : std::string("valid arguments; ")) +
               (o.died ? o.desc : "std::bad_alloc under a 256 MB address-space limit (" + g_what + ")");
    return v;
  }
  if (cls.invalid()) {
    Kind k = cls.kind();
    bool reported = false; std::string how;
    if (a.is_export) {
      if (k == K_PREC || k == K_CT || k == K_FR) {
        if (o.threw) { v.violated = true; v.tag = std::string(a.family) + "_threw_across_c_boundary"; v.detail = what + "invalid " + KIND_NAME[k] + " raised an exception (" + g_what + ") instead of being rejected by the return value"; return v; }
        if (a.rc_export) {
          bool allowed = (o.rc == -5 && cls.prec) || (o.rc == -4 && cls.ct) || (o.rc == -3 && cls.fr);
          if (o.rc < 0 && !allowed) { v.violated = true; v.tag = std::string(a.family) + "_wrong_code"; v.detail = what + "returned " + std::to_string(o.rc) + " which does not name an argument that is invalid here"; return v; }
          reported = o.rc < 0; how = "return_code";
          if (reported) { T.add("export_rc_" + std::to_string(-o.rc)); if (cls.count() > 1) T.add("export_multi_invalid_cases"); if (!o.outputs_set) T.add("export_rejected_outputs_untouched"); }
        } else { reported = o.rc != 0 && !o.nonempty; how = "nullptr"; }
      } else {
        // coordinate range at the C boundary: an exception, a negative code / nullptr or an empty solution all count as reported
        reported = o.threw || o.rc < 0 || !o.nonempty;
        how = o.threw ? "exception" : o.rc < 0 ? "return_code_or_nullptr" : "empty_result";
      }
    } else if (EXC) {
      reported = o.threw != 0; how = "exception";
      if (o.threw == 2) T.add("obs_reported_by_non_Clipper2Exception");
    } else if (a.has_ec) {
      reported = o.ec != 0; how = "error_code";
      if (reported && o.nonempty) T.add(std::string("obs_") + a.family + "_" + KIND_NAME[k] + "_error_code_set_but_result_nonempty_nx");
      if (reported && !o.nonempty) T.add("reported_by_error_code_and_empty_result");
    } else {
      reported = !o.nonempty; how = "empty_result";
    }
    if (reported) { T.add("reported_by_" + how); return v; }
    v.violated = true;
    bool arg_check_kind = a.is_export && (k == K_PREC || k == K_CT || k == K_FR);
    v.tag = (EXC || arg_check_kind) ? std::string(a.family) + "_" + KIND_NAME[k] + "_unchecked" : nx_tag(a, s, k);
    v.detail = what + "invalid " + KIND_NAME[k] + " silently accepted (" + (EXC ? "no exception" : a.has_ec ? "error code 0" : "no error channel, result not empty") + "); observed: " + o.desc + (a.has_ec ? " ec=" + std::to_string(o.ec) : "");
    return v;
  }
  // ---- valid arguments: must not be reported as errors
  if (o.threw) { v.violated = true; v.tag = std::string(a.family) + "_valid_threw"; v.detail = what + "valid arguments raised: " + g_what; return v; }
  if (a.has_ec && o.ec) { v.violated = true; v.tag = std::string(a.family) + "_valid_error_code"; v.detail = what + "valid arguments set error code " + std::to_string(o.ec); return v; }
  if (!o.exec_ok) { v.violated = true; v.tag = "execute_false"; v.detail = what + "Execute returned false on valid input"; return v; }
  if (a.rc_export) {
    if (o.rc != 0) { v.violated = true; v.tag = std::string(a.family) + "_valid_rejected"; v.detail = what + "valid arguments returned " + std::to_string(o.rc); return v; }
    if (!o.outputs_set) { v.violated = true; v.tag = std::string(a.family) + "_outputs_not_set"; v.detail = what + "returned 0 but left a solution pointer untouched"; return v; }
    if ((a.uses & U_CT) && s.ct == 0) { T.add("noclip_checked"); if (o.nonempty) { v.violated = true; v.tag = "noclip_nonempty"; v.detail = what + "NoClip gave a non-empty solution"; return v; } }
  }
  if (!o.content_ok) { v.violated = true; v.tag = std::string(a.family) + "_even_wrong_content"; v.detail = what + o.desc; return v; }
  if (o.nonempty) T.add("valid_nonempty_result");
  return v;
}

// ------------------------------------------------------------------ one case
struct Ctx { Reporter& rep; Tally T; };

static bool run_case(Ctx& cx, const Spec& s, bool verbose) {
  Reporter& rep = cx.rep;
  const Spec* sp = &s;
  rep.current_case = [sp]() { return key_of(*sp); };
  Cls cls = classify(s);
  double t_before = rep.elapsed();
  Obs o = needs_isolation(s) ? execute_isolated(s) : execute(s);
  double t_case = rep.elapsed() - t_before;
  rep.maxi("slowest_case_ms", (u64)(t_case * 1000));
  if (t_case > 0.25) { rep.ctr["slow_cases_over_250ms"]++; if (getenv("C11_SLOW")) fprintf(stderr, "slow %.2fs %s\n", t_case, key_of(s).c_str()); }
  rep.current_case = nullptr;
  Tally& T = cx.T;
  if (o.isolated) rep.ctr["isolated_cases"]++;
  T.cases[s.api]++;
  rep.ctr["cases"]++; rep.ctr["lib_calls"] += o.calls;
  Verdict v = judge(s, cls, o, T);
  if (v.judged) { rep.ctr["compared"]++; if (cls.invalid()) { rep.ctr["nontrivial"]++; T.invalid[s.api]++; } else { rep.ctr["valid_cases"]++; T.valid[s.api]++; } }
  else { rep.ctr["boundary_cases"]++; T.boundary[s.api]++; }
  u64 h = hmix(hmix(hmix(hmix(hmix(hmix(1, s.api), cls.kind()), (u64)o.threw), (u64)o.ec), (u64)o.nonempty), (u64)(o.rc + 16));
  rep.outcome(hmix(h, cls.boundary));
  if (verbose) {
    printf("case: %s\n", key_of(s).c_str());
    printf("classification: %s%s (prec=%d ct=%d fr=%d scale=%d range=%d rect_range=%d odd=%d)\n", cls.invalid() ? "INVALID kind=" : (cls.boundary ? "BOUNDARY" : "valid"), cls.invalid() ? KIND_NAME[cls.kind()] : "",
           cls.prec, cls.ct, cls.fr, cls.scale, cls.range, cls.rect_range, cls.odd);
    if (o.isolated) printf("(executed in a forked child: 256 MB address-space limit, 30 s alarm)\n");
    printf("observed: threw=%d%s%s ec=%d nonempty=%d rc=%ld exec_ok=%d | %s\n", o.threw, o.threw ? " what=" : "", o.threw ? g_what.c_str() : "", o.ec, (int)o.nonempty, o.rc, (int)o.exec_ok, o.desc.c_str());
    printf("verdict: %s %s %s\n", !v.judged ? "not judged (boundary)" : v.violated ? "VIOLATION" : "ok", v.tag.c_str(), v.detail.c_str());
  }
  if (v.violated) { T.viol[s.api]++; rep.violation(rep.args.prop.empty() ? "C11" : rep.args.prop, key_of(s), v.tag, v.detail); }
  return v.violated;
}

// ------------------------------------------------------------------ enumeration
int main(int argc, char** argv) {
  Args a = parse_args(argc, argv);
  Reporter rep(a);
  install_crash_handler(rep);
  Ctx cx{rep, Tally()};
  rep.current_prop = "C11";

  if (!a.replay.empty()) {
    Spec s; std::string err;
    if (!parse_spec(a.replay, s, err)) { fprintf(stderr, "replay: %s\n", err.c_str()); return 2; }
    bool bad = run_case(cx, s, true);
    printf("violations: %llu\n", (unsigned long long)rep.nviol);
    return bad ? 1 : 0;
  }

  u64 idx = 0; bool stop = false;
  auto emit = [&](const Spec& s) {
    if (stop) return;
    u64 i = idx++;
    if ((i & 0xFFF) == 0 && rep.out_of_time()) { stop = true; return; }
    if (!rep.mine(hmix(0x5eed, i) >> 7)) return;  // scrambled so that the 4 directions (innermost loop) do not line up with the shard count
    run_case(cx, s, false);
    if (cx.rep.samples.size() < 4 && (i % 9973) == 0) rep.sample(key_of(s));
  };
  std::map<std::pair<int, int>, std::vector<double>> mag_cache;
  auto mags = [&](ScaleKind sk, int p) -> const std::vector<double>& {
    auto k = std::make_pair((int)sk, p);
    auto it = mag_cache.find(k);
    if (it == mag_cache.end()) it = mag_cache.emplace(k, mags_for(scale_of(sk, p))).first;
    return it->second;
  };

  // ---- A: C++ entry points taking a precision
  for (int api = A_CLIPPERD; api <= A_MINK_DIFF && !stop; ++api) {
    const ApiInfo& ai = APIS[api];
    int nslot = 1, naux = 1, ct0 = 2, ct1 = 2, fr0 = 1, fr1 = 1;
    if (api == A_CLIPPERD) { nslot = 3; naux = 2; }
    if (api == A_BOOLEANOP || api == A_BOOLEANOP_TREE) { nslot = 2; ct0 = 0; ct1 = 4; fr0 = 0; fr1 = 3; }
    if (api == A_INTERSECT || api == A_UNION2 || api == A_DIFFERENCE || api == A_XOR) { nslot = 2; fr0 = 0; fr1 = 3; }
    if (api == A_UNION1) { fr0 = 0; fr1 = 3; }
    if (api == A_INFLATE || api == A_TRIM) naux = 2;
    if (is_rect_api(api)) nslot = 2;
    if (api == A_MINK_SUM || api == A_MINK_DIFF) { nslot = 2; naux = 2; }
    for (int p = -12; p <= 12; ++p)
      for (int slot = 0; slot < nslot; ++slot)
        for (int aux = 0; aux < naux; ++aux)
          for (int ct = ct0; ct <= ct1; ++ct)
            for (int fr = fr0; fr <= fr1; ++fr)
              for (double m : mags(ai.sk, p))
                for (int dir = 0; dir < 12; ++dir) {
                  Spec s; s.api = api; s.p = p; s.slot = slot; s.aux = aux; s.ct = ct; s.fr = fr; s.m = m; s.dir = dir;
                  emit(s);
                }
  }
  if (!stop) rep.bounds_completed.push_back("A: C++ precision entry points x precision -12..12 x magnitudes x 12 positions/directions/shapes x argument slots x options");

  // ---- B: ScalePath / ScalePaths
  {
    const double SC[3] = {0.0, 1.0, 1e-300};
    std::vector<double> mm = mags_for(1.0);
    for (int api = A_SCALEPATH_ID; api <= A_SCALEPATHS_DD && !stop; ++api) {
      bool int_src = api == A_SCALEPATH_DI || api == A_SCALEPATH_II || api == A_SCALEPATHS_DI || api == A_SCALEPATHS_II;
      for (int aux = 0; aux < 2; ++aux)
        for (int ix = 0; ix < 3; ++ix)
          for (int iy = 0; iy < 3; ++iy) {
            if (aux == 1 && ix != iy) continue;  // single-scale overload
            for (double m : mm) {
              if (int_src && m >= 9223372036854775808.0) continue;  // not an int64 value
              for (int dir = 0; dir < 12; ++dir) {
                Spec s; s.api = api; s.aux = aux; s.sx = SC[ix]; s.sy = SC[iy]; s.m = m; s.dir = dir;
                emit(s);
              }
            }
          }
    }
  }
  if (!stop) rep.bounds_completed.push_back("B: ScalePath/ScalePaths x 4 type pairs x scales {0,1,1e-300}^2 + single-scale overload x magnitudes x 4 directions");

  // ---- C: MakePath / MakePathD
  for (int api = A_MAKEPATH_INT; api <= A_MAKEPATHD_INT && !stop; ++api)
    for (int len = 0; len <= 7; ++len) { Spec s; s.api = api; s.len = len; emit(s); }
  if (!stop) rep.bounds_completed.push_back("C: MakePath/MakePathD vector lengths 0..7 x 4 element types");

  // ---- D: export grid
  for (int api = XG_BOOLEANOP64; api <= XG_TREED && !stop; ++api) {
    bool hasp = api == XG_BOOLEANOPD || api == XG_TREED;
    for (int p = hasp ? -12 : 0; p <= (hasp ? 12 : 0) && !stop; ++p)
      for (int ct = 0; ct < 256; ++ct)
        for (int fr = 0; fr < 256; ++fr) { Spec s; s.api = api; s.p = p; s.ct = ct; s.fr = fr; emit(s); }
  }
  if (!stop) rep.bounds_completed.push_back("D: export BooleanOp64/PolyTree64 cliptype 0..255 x fillrule 0..255; BooleanOpD/PolyTreeD the same x precision -12..12");

  // ---- E: export functions taking a precision x magnitudes
  for (int api = XR_BOOLEANOPD; api <= XR_RECTCLIPLINESD && !stop; ++api) {
    const ApiInfo& ai = APIS[api];
    int nslot = (api == XR_BOOLEANOPD || api == XR_TREED) ? 3 : is_rect_api(api) ? 2 : 1;
    for (int p = -12; p <= 12; ++p)
      for (int slot = 0; slot < nslot; ++slot)
        for (double m : mags(ai.sk, p))
          for (int dir = 0; dir < 12; ++dir) { Spec s; s.api = api; s.p = p; s.slot = slot; s.m = m; s.dir = dir; s.ct = 2; s.fr = 1; emit(s); }
  }
  if (!stop) rep.bounds_completed.push_back("E: export D functions x precision -12..12 x magnitudes x 12 positions/directions/shapes x argument slots");

  // ---- counters
  for (int i = 0; i < API_COUNT; ++i) {
    std::string n = APIS[i].name;
    if (cx.T.cases[i]) rep.add("ep_" + n + "_cases", cx.T.cases[i]);
    if (cx.T.invalid[i]) rep.add("ep_" + n + "_invalid", cx.T.invalid[i]);
    if (cx.T.valid[i]) rep.add("ep_" + n + "_valid", cx.T.valid[i]);
    if (cx.T.boundary[i]) rep.add("ep_" + n + "_boundary", cx.T.boundary[i]);
    if (cx.T.viol[i]) rep.add("ep_" + n + "_violations", cx.T.viol[i]);
  }
  for (auto& e : cx.T.c) rep.add(e.first, e.second);
  for (auto& v : rep.viols) rep.add("viol_" + v.tag + "_" + BUILD);
  rep.notes.push_back(std::string("build=") + BUILD + ": exceptions " + (EXC ? "enabled: an invalid argument must raise an exception" : "disabled: an invalid argument must set the error code where one exists, otherwise give an empty result"));
  rep.notes.push_back("obs_* counters: error code set but a non-empty result computed with a clamped precision / scale 1 came back (statement says 'together with an empty result'); recorded, not raised (DESIGN.md section 2/C11)");
  rep.notes.push_back("boundary_* counters: scaled coordinate exactly 2^61 = (double)MAX_COORD = MAX_COORD+1; the library's double comparison cannot separate it from MAX_COORD, not judged");
  rep.write();
  return 0;
}
