// C14: thread bodies (compiled WITH -finstrument-functions, like the library itself, so that every
// entry of a function defined in Clipper2 sources is a scheduling point). Each body works on its own
// objects and its own distinct data; bodies 0 and 1 are two Clipper64 objects that share one read-only
// ReuseableDataContainer64. Results are serialised into strings owned by the caller.
#include "clipper2/clipper.h"
#include <string>
#include <cstdio>

#include <functional>
namespace CL = Clipper2Lib;

static void ser(std::string& s, const CL::Paths64& pp) { for (auto& p : pp) { s += "("; for (auto& q : p) { s += std::to_string(q.x); s += ","; s += std::to_string(q.y); s += " "; } s += ")"; } }
static void serD(std::string& s, const CL::PathsD& pp) { char b[64]; for (auto& p : pp) { s += "("; for (auto& q : p) { snprintf(b, sizeof b, "%a,%a ", q.x, q.y); s += b; } s += ")"; } }
static void serT(std::string& s, const CL::PolyPath64& n) { s += "{"; CL::Paths64 one{n.Polygon()}; ser(s, one); for (auto& c : n) serT(s, *c); s += "}"; }
static CL::Path64 mk(std::initializer_list<int64_t> v) { CL::Path64 p; auto it = v.begin(); while (it != v.end()) { int64_t x = *it++; int64_t y = *it++; p.emplace_back(x, y); } return p; }

static CL::ReuseableDataContainer64* g_shared = nullptr;

extern "C" {
void sched_log_allocs(int on);   // provided by the (uninstrumented) scheduler TU: records heap blocks allocated while the shared container is filled
}

// (re)creates the shared container, so that every schedule starts with a container that no clipper has used yet: a lazily
// built cache inside the "read-only" container would be written by its first concurrent users
void bodies_setup_shared() {
  delete g_shared; g_shared = nullptr;
  sched_log_allocs(1);
  g_shared = new CL::ReuseableDataContainer64();
  g_shared->AddPaths(CL::Paths64{mk({10, 10, 60, 12, 55, 62, 8, 58}), mk({30, 30, 90, 35, 85, 80, 28, 85})}, CL::PathType::Subject, false);
  g_shared->AddPaths(CL::Paths64{mk({40, 5, 75, 45, 35, 95, 5, 50})}, CL::PathType::Clip, false);
  g_shared->AddPaths(CL::Paths64{mk({0, 40, 100, 45, 50, 100})}, CL::PathType::Subject, true);
  sched_log_allocs(0);
}

int bodies_count() { return 14; }
const char* bodies_name(int b) {
  static const char* n[] = {"B1 Clipper64+shared container (Intersection->paths)", "B2 Clipper64+shared container (Xor->tree)", "B3 ClipperD", "B4 ClipperOffset round/joined", "B5 RectClip+RectClipLines", "B6 MinkowskiSum", "B7 utilities",
                           "B8 ClipperOffset delta callback, round joins", "B9 Clipper64->PolyTree, island inscribed in its hole",
                           "B10 PathsD free functions (RectClip, InflatePaths, Union, TrimCollinear, MinkowskiSum)", "B11 PathsD free functions called with an invalid precision / out-of-range coordinates (error path)",
                           "B12 ClipperD->PolyTreeD (precision 2 / 5), nested children",
                           "B13 ClipperOffset on one-point paths (circles / squares), different delta and arc tolerance per variant",
                           "B14 MinkowskiDiff (Path64 and PathD) and open MinkowskiSum, a different pattern per variant"};
  return n[b];
}

// variant: 0 or 1, selects different data so that a body paired with itself works on distinct inputs
void bodies_run(int body, int variant, std::string& out) {
  int64_t d = variant ? 7 : 0;
  switch (body) {
    case 0: { CL::Clipper64 c; c.AddReuseableData(*g_shared); if (variant) c.AddClip(CL::Paths64{mk({20, 20, 50, 25, 40, 60})}); CL::Paths64 s, o; bool ok = c.Execute(CL::ClipType::Intersection, CL::FillRule::NonZero, s, o); out += ok ? "T" : "F"; ser(out, s); ser(out, o); break; }
    case 1: { CL::Clipper64 c; c.AddReuseableData(*g_shared); if (variant) c.AddSubject(CL::Paths64{mk({5, 70, 95, 72, 50, 98})}); CL::PolyTree64 t; CL::Paths64 o; bool ok = c.Execute(CL::ClipType::Xor, CL::FillRule::EvenOdd, t, o); out += ok ? "T" : "F"; serT(out, t); ser(out, o); break; }
    case 2: { CL::ClipperD c(2); CL::PathsD s{{{1.0 + d, 1.0}, {6.05 + d, 1.2}, {5.5 + d, 6.25}, {0.8 + d, 5.8}}}, k{{{4.0 + d, 0.5}, {7.5 + d, 4.5}, {3.5 + d, 9.5}, {0.5 + d, 5.0}}}; c.AddSubject(s); c.AddClip(k); CL::PathsD r; c.Execute(CL::ClipType::Union, CL::FillRule::NonZero, r); serD(out, r); break; }
    case 3: { CL::ClipperOffset co(2.0, 0.5); co.AddPaths(CL::Paths64{mk({0 + d, 0, 40 + d, 5, 20 + d, 30}), mk({60 + d, 0, 90 + d, 10})}, CL::JoinType::Round, CL::EndType::Joined); CL::Paths64 s; co.Execute(4.0 + d, s); ser(out, s); break; }
    case 4: { CL::Rect64 r(20 + d, 20, 70 + d, 70); CL::Paths64 in{mk({0, 50, 50, 0, 100, 50, 50, 100}), mk({30, 30, 60, 35, 50, 60})}; CL::Paths64 a = CL::RectClip(r, in); ser(out, a); CL::Paths64 b = CL::RectClipLines(r, CL::Paths64{mk({0, 40, 100, 45, 50, 100})}); ser(out, b); break; }
    case 5: { CL::Paths64 r = CL::MinkowskiSum(mk({-3, -2, 4 + d, -1, 1, 5}), mk({10, 10, 60, 12, 55, 62 + d}), true); ser(out, r); break; }
    case 6: { CL::Path64 p; for (int i = 0; i < 24; ++i) p.emplace_back((int64_t)(i * 5 + d), (int64_t)((i % 7) * (i % 3) + (i % 2)));
      CL::Path64 a = CL::TrimCollinear(p, false), b = CL::SimplifyPath(p, 2.0, true), c = CL::RamerDouglasPeucker(p, 2.0), e = CL::Ellipse(CL::Point64(0, 0), 20.0 + d, 10.0, 0);
      CL::Paths64 all{a, b, c, e}; ser(out, all); auto pip = CL::PointInPolygon(CL::Point64((int64_t)(12 + d), (int64_t)3), p); out += std::to_string((int)pip); out += std::to_string(CL::Area(p)); break; }
    case 7: { // per-vertex deltas through the callback API, round joins; the two variants use different arc tolerances and deltas
      CL::ClipperOffset co(2.0, variant ? 0.4 : 0.1);
      co.AddPaths(CL::Paths64{mk({0 + d, 0, 60 + d, 5, 50 + d, 50, 10 + d, 40}), mk({100 + d, 0, 140 + d, 0, 140 + d, 40, 100 + d, 40})}, CL::JoinType::Round, CL::EndType::Polygon);
      double dl = variant ? 3.0 : 6.0;
      CL::Paths64 s2; co.Execute([dl](const CL::Path64&, const CL::PathD&, size_t curr, size_t) { return dl + (double)(curr % 2); }, s2); ser(out, s2); break; }
    case 8: { // a frame, a 12-gon hole and an island whose vertices all lie on the hole's outline (every third vertex): PolyTree owner
      // resolution has to fall back to its "equivocal" path for the island
      static const int64_t HX[12] = {40, 35, 20, 0, -20, -35, -40, -35, -20, 0, 20, 35}, HY[12] = {0, 20, 35, 40, 35, 20, 0, -20, -35, -40, -35, -20};
      CL::Path64 hole, island; for (int i = 0; i < 12; ++i) { hole.emplace_back(HX[i] + 50 + d, HY[i] + 50); if (i % 3 == 0) island.emplace_back(HX[i] + 50 + d, HY[i] + 50); }
      CL::Clipper64 c; c.AddSubject(CL::Paths64{mk({0 + d, 0, 100 + d, 0, 100 + d, 100, 0 + d, 100}), hole, island});
      CL::PolyTree64 t; CL::Paths64 o; bool ok = c.Execute(CL::ClipType::Union, CL::FillRule::EvenOdd, t, o); out += ok ? "T" : "F"; serT(out, t); break; }
    case 9: { // the floating-point convenience functions (each has its own local error code)
      double e = (double)d; int prec = variant ? 3 : 1;
      CL::PathsD in{{{0.5 + e, 50.25}, {50.0 + e, 0.75}, {100.5 + e, 50.0}, {50.25 + e, 100.0}}, {{30.0 + e, 30.5}, {60.5 + e, 35.0}, {50.0 + e, 60.25}}};
      serD(out, CL::RectClip(CL::RectD(20.5 + e, 20.0, 70.0 + e, 70.5), in, prec));
      serD(out, CL::InflatePaths(in, 2.5 + e, CL::JoinType::Round, CL::EndType::Polygon, 2.0, prec, 0.0));
      serD(out, CL::Union(in, CL::PathsD{{{10.0 + e, 10.0}, {40.5 + e, 12.0}, {20.0 + e, 45.5}}}, CL::FillRule::NonZero, prec));
      serD(out, CL::PathsD{CL::TrimCollinear(CL::PathD{{0.0 + e, 0.0}, {5.0 + e, 0.0}, {10.0 + e, 0.0}, {10.0 + e, 10.0}, {0.0 + e, 10.0}}, prec)});
      serD(out, CL::MinkowskiSum(CL::PathD{{-1.5, -1.0}, {2.0 + e, -0.5}, {0.5, 2.5}}, in[1], true, prec));
      break; }
    case 10: { // the error path of the same functions: invalid precision and coordinates outside the permitted range
      CL::PathsD in{{{0.5, 50.25}, {50.0, 0.75}, {100.5, 50.0}}};
      for (int k = 0; k < 3; ++k) {
        try {
          if (k == 0) serD(out, CL::RectClip(CL::RectD(20.5, 20.0, 70.0, 70.5), in, variant ? -12 : 12));
          else if (k == 1) serD(out, CL::InflatePaths(CL::PathsD{{{1e18, 0.0}, {2e18, 5.0}, {1.5e18, 4e18}}}, 2.5, CL::JoinType::Miter, CL::EndType::Polygon, 2.0, variant ? 4 : 6, 0.0));
          else serD(out, CL::Union(in, CL::PathsD(), CL::FillRule::NonZero, variant ? 9 : -9));
          out += "|returned|";
        } catch (const std::exception& ex) { out += "|threw:"; out += ex.what(); out += "|"; }
      }
      break; }
    case 11: { // ClipperD into a PolyTreeD: every node de-scales its polygon with the tree's own scale
      CL::ClipperD c(variant ? 5 : 2); double e = (double)d;
      CL::PathsD s{{{0.0 + e, 0.0}, {100.25 + e, 0.0}, {100.0 + e, 100.5}, {0.0 + e, 100.0}}, {{10.0 + e, 10.0}, {10.0 + e, 90.125}, {90.0 + e, 90.0}, {90.5 + e, 10.0}},
                   {{20.0 + e, 20.0}, {40.0 + e, 20.5}, {40.25 + e, 40.0}, {20.0 + e, 40.0}}, {{50.0 + e, 50.0}, {80.0 + e, 50.5}, {80.25 + e, 80.0}, {50.0 + e, 80.0}}, {{55.0 + e, 55.0}, {55.0 + e, 75.5}, {75.0 + e, 75.0}, {75.5 + e, 55.0}}};
      c.AddSubject(s); CL::PolyTreeD t; CL::PathsD o; bool ok = c.Execute(CL::ClipType::Union, CL::FillRule::EvenOdd, t, o); out += ok ? "T" : "F";
      std::function<void(const CL::PolyPathD&)> walk = [&](const CL::PolyPathD& n) { out += "{"; serD(out, CL::PathsD{n.Polygon()}); for (auto& ch : n) walk(*ch); out += "}"; };
      walk(t); break; }
    case 12: { // one-point paths become circles (round joins) or squares; the two variants use different radii and arc tolerances
      for (int jt = 0; jt < 3; jt += 2) {
        CL::ClipperOffset co(2.0, variant ? 0.5 : 0.05);
        co.AddPaths(CL::Paths64{mk({10 + d, 10}), mk({300 + d, 40}), mk({600, 80 + d})}, jt ? CL::JoinType::Round : CL::JoinType::Square, CL::EndType::Round);
        CL::Paths64 s3; co.Execute(variant ? 9.0 : 5.0, s3); ser(out, s3);
      }
      break; }
    case 13: { // MinkowskiDiff subtracts (reflects) the pattern: both variants use patterns of the same length but different points
      CL::Path64 pat = variant ? mk({-9, -2, 6, -5, 8, 7}) : mk({-3, -2, 4, -1, 1, 5});
      CL::Path64 path = mk({10 + d, 10, 60 + d, 12, 55 + d, 62});
      ser(out, CL::MinkowskiDiff(pat, path, true));
      CL::PathD patD, pathD; for (auto& q : pat) patD.emplace_back(q.x * 0.25, q.y * 0.25); for (auto& q : path) pathD.emplace_back(q.x * 0.5, q.y * 0.5);
      serD(out, CL::MinkowskiDiff(patD, pathD, false, variant ? 3 : 2)); break; }
  }
}
