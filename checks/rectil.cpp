// C02 (and the rectilinear part of C03 / success part of C11): axis-parallel inputs,
// exact per-cell oracle. Scopes: all rectangle pairs / triples on a g-line lattice and all
// axis-parallel closed walks up to n vertices against every rectangle, under several
// lattice spacings (unit, non-uniform, huge).
#include "clipper2/clipper.h"
#include "sides/clip_api.hpp"
#include "engine/boards.hpp"
#include "checks/wellformed.hpp"
#include "checks/cells_family.hpp"

using namespace vf;

struct Spacing { const char* name; std::vector<i64> xs, ys; };
static std::vector<Spacing> spacings(int g) {
  std::vector<Spacing> v(3);
  v[0].name = "unit"; v[1].name = "nonuniform"; v[2].name = "huge";
  i64 nx[] = {0, 3, 4, 9, 11, 18, 19}, ny[] = {-5, -3, 4, 5, 10, 12, 20};
  for (int i = 0; i < g; ++i) {
    v[0].xs.push_back(i); v[0].ys.push_back(i);
    v[1].xs.push_back(nx[i]); v[1].ys.push_back(ny[i]);
    v[2].xs.push_back(nx[i] * ((i64)1 << 30) - ((i64)1 << 33)); v[2].ys.push_back(ny[i] * ((i64)1 << 29) + 12345);
  }
  return v;
}
static Path map_path(const Path& p, const Spacing& s) { Path r(p.size()); for (size_t i = 0; i < p.size(); ++i) r[i] = {s.xs[p[i].x], s.ys[p[i].y]}; return r; }
static Paths map_paths(const Paths& pp, const Spacing& s) { Paths r; for (auto& p : pp) r.push_back(map_path(p, s)); return r; }

// all rectangles on lattice indices [0,g), both orientations
static std::vector<Path> all_rects(int g) {
  std::vector<Path> v;
  for (int x0 = 0; x0 < g; ++x0) for (int x1 = x0 + 1; x1 < g; ++x1)
    for (int y0 = 0; y0 < g; ++y0) for (int y1 = y0 + 1; y1 < g; ++y1) {
      Path r = {{x0, y0}, {x1, y0}, {x1, y1}, {x0, y1}};
      v.push_back(r); v.push_back(reversed(r));
    }
  return v;
}
// all closed axis-parallel walks with n vertices on the g x g index lattice; consecutive vertices differ in exactly
// one coordinate (closing step included); the first vertex has the smallest (y*g+x) index of the walk (rotation class
// representative, ties allowed); alt: steps must alternate horizontal / vertical.
static void enum_walks(int g, int n, bool alt, std::vector<Path>& out) {
  Path cur;
  std::function<void()> rec = [&]() {
    if ((int)cur.size() == n) {
      const P& a = cur.back(); const P& b = cur[0];
      bool ok = (a.x == b.x) != (a.y == b.y);
      if (ok && alt && n >= 2) {
        bool lastH = a.y == b.y; const P& c = cur[1]; bool firstH = b.y == c.y;
        const P& z = cur[n - 2]; bool prevH = z.y == a.y;
        if (lastH == firstH || lastH == prevH) ok = false;
      }
      if (ok) out.push_back(cur);
      return;
    }
    const P& a = cur.back();
    i64 first = cur[0].y * g + cur[0].x;
    for (int y = 0; y < g; ++y) for (int x = 0; x < g; ++x) {
      if ((x == a.x) == (y == a.y)) continue;  // must move along exactly one axis
      if ((i64)y * g + x < first) continue;
      if (alt && cur.size() >= 2) { const P& z = cur[cur.size() - 2]; bool prevH = z.y == a.y; bool thisH = y == a.y; if (prevH == thisH) continue; }
      cur.push_back({x, y}); rec(); cur.pop_back();
    }
  };
  for (int y = 0; y < g; ++y) for (int x = 0; x < g; ++x) { cur = {{x, y}}; rec(); }
}

struct Ctx { Reporter& rep; bool doC02, doC03, doC11; };

static std::string ckey(const Paths& S, const Paths& C, int ct, int fr, bool pc) {
  Case c; c.set("S", S).set("C", C).set("ct", ct).set("fr", fr).set("pc", pc); return c.s();
}

// S, C in real coordinates; xs, ys = sorted lattice line coordinates
static void check_input(Ctx& cx, const Paths& S, const Paths& C, const std::vector<i64>& xs, const std::vector<i64>& ys, bool verbose = false, int only_ct = 0, int only_fr = -1, int only_pc = -1) {
  Reporter& rep = cx.rep;
  int gx = (int)xs.size(), gy = (int)ys.size();
  Paths S2 = scaled(S, 2), C2 = scaled(C, 2);
  // cell centres in doubled coordinates + input windings
  std::vector<int> ws((gx - 1) * (gy - 1)), wc(ws.size());
  for (int j = 0; j + 1 < gy; ++j) for (int i = 0; i + 1 < gx; ++i) {
    P c{xs[i] + xs[i + 1], ys[j] + ys[j + 1]}; bool on = false;
    ws[j * (gx - 1) + i] = winding(S2, c, on); wc[j * (gx - 1) + i] = winding(C2, c, on);
    if (on) { fprintf(stderr, "internal: cell centre on input edge\n"); abort(); }
  }
  Paths all = S; all.insert(all.end(), C.begin(), C.end());
  Box bb = bbox(all); i64 mabs = 0; for (auto& p : all) for (auto& q : p) { mabs = std::max(mabs, std::max(q.x < 0 ? -q.x : q.x, q.y < 0 ? -q.y : q.y)); }
  WfInput wf{all, bb, mabs};
  std::vector<i64> inx, iny; for (auto& p : all) for (auto& q : p) { inx.push_back(q.x); iny.push_back(q.y); }
  std::sort(inx.begin(), inx.end()); std::sort(iny.begin(), iny.end());
  Paths canS = canon_closed(S), canC = canon_closed(C);
  struct Cur { int ct = 0, fr = 0, pc = 0; } cur;
  arm_watchdog(60);   // CPU-time limit per input: a library call that does not return is attributed to this case (crash_signal_26)
  rep.current_case = [&]() { return ckey(S, C, cur.ct, cur.fr, cur.pc); };
  for (int ct = 1; ct <= 4; ++ct) for (int fr = 0; fr < 4; ++fr) {
    if (only_ct && ct != only_ct) continue;
    if (only_fr >= 0 && fr != only_fr) continue;
    i128 exp_area2 = 0; bool any = false;
    std::vector<char> want(ws.size());
    for (size_t k = 0; k < ws.size(); ++k) {
      want[k] = setop(ct, fill(fr, ws[k]), fill(fr, wc[k]));
      if (want[k]) { int i = (int)(k % (gx - 1)), j = (int)(k / (gx - 1)); exp_area2 += (i128)2 * (xs[i + 1] - xs[i]) * (i128)(ys[j + 1] - ys[j]); any = true; }
    }
    Paths prev; bool have_prev = false;
    for (int pc = 1; pc >= 0; --pc) {
      if (only_pc >= 0 && pc != only_pc) continue;
      cur = Cur{ct, fr, pc};
      BoolOut o = vfc::boolop(ct, fr, S, C, Paths(), pc, false);
      rep.add("lib_calls"); rep.add("cases"); rep.add("compared");
      if (verbose) printf("ct=%d fr=%d pc=%d ok=%d solution: %s\n", ct, fr, pc, (int)o.ok, pstr(o.closed).c_str());
      if (!o.ok) { rep.violation(cx.doC11 ? "C11" : rep.args.prop, ckey(S, C, ct, fr, pc), "execute_false", "Execute returned false"); continue; }
      if (cx.doC11) continue;
      Paths can = canon_closed(o.closed);
      if (!can.empty() && can != canS && can != canC) rep.add("nontrivial");
      if (any) rep.add("nonempty_expected");
      rep.outcome(hash_paths(can));
      if (have_prev && can == prev) { rep.add("memo_hits"); continue; }
      prev = can; have_prev = true;
      std::string why;
      if (cx.doC02) {
        Paths O2 = scaled(o.closed, 2);
        for (size_t k = 0; k < ws.size() && why.empty(); ++k) {
          int i = (int)(k % (gx - 1)), j = (int)(k / (gx - 1));
          P c{xs[i] + xs[i + 1], ys[j] + ys[j + 1]}; bool on = false;
          int w = winding(O2, c, on);
          if (on) why = "cell_centre_on_solution_edge: cell " + std::to_string(i) + "," + std::to_string(j);
          else if (w != (want[k] ? 1 : 0)) why = "cell_winding: cell " + std::to_string(i) + "," + std::to_string(j) + " winding " + std::to_string(w) + " expected " + std::to_string((int)want[k]);
        }
        if (why.empty() && area2(o.closed) != exp_area2) why = "area: twice-area " + i128str(area2(o.closed)) + " expected " + i128str(exp_area2);
        if (why.empty())
          for (auto& p : o.closed) {
            for (size_t i = 0; i < p.size() && why.empty(); ++i) {
              const P& q = p[i]; const P& r = p[(i + 1) % p.size()];
              if (!std::binary_search(inx.begin(), inx.end(), q.x) || !std::binary_search(iny.begin(), iny.end(), q.y))
                why = "vertex_not_on_input_lines: " + std::to_string(q.x) + "," + std::to_string(q.y);
              else if (q.x != r.x && q.y != r.y) why = "diagonal_edge: " + str(Path{q, r});
            }
          }
        // Area() as the library reports it must equal the exact area (to double rounding)
        if (why.empty()) {
          double a = Clipper2Lib::Area(vfc::to64(o.closed)); rep.add("lib_calls");
          long double ex = (long double)exp_area2 / 2;
          if (fabsl((long double)a - ex) > 1e-9L * (1 + fabsl(ex))) why = "Area_function: " + std::to_string(a);
        }
        if (!why.empty()) rep.violation("C02", ckey(S, C, ct, fr, pc), why.substr(0, why.find(':')), why + " solution=" + pstr(o.closed));
      }
      if (cx.doC03) {
        why = wellformed_general(wf, o.closed, pc, false, 2.0L);
        if (why.empty()) {
          BoolOut u = vfc::boolop(2, 1, o.closed, Paths(), Paths(), pc, false); rep.add("lib_calls");
          if (canon_closed(u.closed) != can) why = union_tag(o.closed) + ": Union(solution,NonZero)=" + pstr(u.closed);
        }
        if (!why.empty()) rep.violation("C03", ckey(S, C, ct, fr, pc), why.substr(0, why.find(':')), why + " solution=" + pstr(o.closed));
      }
      if (verbose) printf("   verdict: %s\n", why.empty() ? "ok" : why.c_str());
    }
  }
  arm_watchdog(0); rep.current_case = nullptr;
}

int main(int argc, char** argv) {
  Args a = parse_args(argc, argv);
  Reporter rep(a); install_crash_handler(rep);
  Ctx cx{rep, a.prop == "C02" || a.prop.empty(), a.prop == "C03" || a.prop.empty(), a.prop == "C11"};
  if (!a.replay.empty()) {
    Case c = Case::parse(a.replay);
    Paths S = c.getp("S"), C = c.getp("C");
    std::vector<i64> xs, ys; for (auto* pp : {&S, &C}) for (auto& p : *pp) for (auto& q : p) { xs.push_back(q.x); ys.push_back(q.y); }
    std::sort(xs.begin(), xs.end()); xs.erase(std::unique(xs.begin(), xs.end()), xs.end());
    std::sort(ys.begin(), ys.end()); ys.erase(std::unique(ys.begin(), ys.end()), ys.end());
    cx.doC02 = cx.doC03 = true; cx.doC11 = false;
    check_input(cx, S, C, xs, ys, true, (int)c.geti("ct"), (int)c.geti("fr", -1), (int)c.geti("pc", -1));
    printf("violations: %llu\n", (unsigned long long)rep.nviol);
    for (auto& v : rep.viols) printf("  %s %s: %s\n", v.prop.c_str(), v.tag.c_str(), v.detail.c_str());
    return rep.nviol ? 1 : 0;
  }
  std::string scope = a.opt("scope", "pairs");
  int g = (int)a.opti("g", 5), nmax = (int)a.opti("nmax", 6); bool alt = a.opti("alt", 0) != 0;
  int sp_lo = (int)a.opti("sp_lo", 0), sp_hi = (int)a.opti("sp_hi", 2);
  auto SP = spacings(g);
  std::vector<Path> rects = all_rects(g);
  u64 idx = 0; bool done = true;
  auto run = [&](const Paths& Si, const Paths& Ci) {
    for (int sp = sp_lo; sp <= sp_hi; ++sp) check_input(cx, map_paths(Si, SP[sp]), map_paths(Ci, SP[sp]), SP[sp].xs, SP[sp].ys);
    rep.add("inputs");
    rep.sample("S=" + pstr(map_paths(Si, SP[sp_lo])) + " C=" + pstr(map_paths(Ci, SP[sp_lo])));
  };
  if (scope == "pairs") {
    for (auto& s : rects) { if (!rep.mine(idx++)) continue; if (rep.out_of_time()) { done = false; break; }
      for (auto& c : rects) run(Paths{s}, Paths{c}); }
  } else if (scope == "triples") {
    for (auto& s1 : rects) for (auto& s2 : rects) { if (!rep.mine(idx++)) continue; if (rep.out_of_time()) { done = false; goto out; }
      for (auto& c : rects) run(Paths{s1, s2}, Paths{c}); }
  } else if (scope == "walks") {
    for (int n = 2; n <= nmax && done; ++n) {
      std::vector<Path> walks; enum_walks(g, n, alt, walks);
      rep.add("walks_enumerated_n" + std::to_string(n), rep.args.shard == 0 ? walks.size() : 0);
      for (auto& w : walks) { if (!rep.mine(idx++)) continue; if ((idx & 15) == 0 && rep.out_of_time()) { done = false; break; }
        for (auto& c : rects) run(Paths{w}, Paths{c});
        run(Paths{w}, Paths()); }
      if (done) rep.bounds_completed.push_back("walks g=" + std::to_string(g) + " n=" + std::to_string(n) + (alt ? " alternating" : " any-steps"));
    }
  } else if (scope == "cells") {
    // the C04 "cells" family (a ring of cells round a w x h grid + every subset of the interior cells, as rectangles in many
    // decompositions: dozens of rectangles meeting in edge and corner contacts), alone and against the interior square
    int w = (int)a.opti("w", 6), h = (int)a.opti("h", 5); int nin = (w - 2) * (h - 2); bool frames = a.opti("frames", 0) != 0;
    for (u64 code = 0; code < ((u64)1 << nin); ++code) {
      if (!rep.mine(code)) continue;
      if ((code & 63) == 0 && rep.out_of_time()) { done = false; break; }
      for (int decomp : cells_decomps(frames, code, w - 2)) {
        Paths Si = cells_shape(w, h, code, decomp);
        for (int withclip = 0; withclip < 2; ++withclip) {
          Paths Ci; if (withclip) Ci.push_back(cell_rect(1, 1, w - 1, h - 1));
          if (withclip && frames && (decomp % 9)) continue;   // frames: the clip variant for every ninth frame only
          std::vector<i64> xs, ys; for (auto* pp : {&Si, &Ci}) for (auto& p : *pp) for (auto& q : p) { xs.push_back(q.x); ys.push_back(q.y); }
          std::sort(xs.begin(), xs.end()); xs.erase(std::unique(xs.begin(), xs.end()), xs.end());
          std::sort(ys.begin(), ys.end()); ys.erase(std::unique(ys.begin(), ys.end()), ys.end());
          check_input(cx, Si, Ci, xs, ys); rep.add("inputs");
        }
      }
      if (code % 1021 == 1) rep.sample("cells " + std::to_string(w) + "x" + std::to_string(h) + " code " + std::to_string(code) + ": S=" + pstr(cells_shape(w, h, code, 1)));
    }
    if (done) rep.bounds_completed.push_back("cells " + std::to_string(w) + "x" + std::to_string(h) + (frames ? " four-bar frames" : " ten decompositions") + ", alone and against the interior square");
  } else { fprintf(stderr, "unknown scope\n"); return 2; }
out:
  if (done && scope != "walks" && scope != "cells") rep.bounds_completed.push_back(scope + " g=" + std::to_string(g) + " spacings " + std::to_string(sp_lo) + ".." + std::to_string(sp_hi));
  rep.write();
  return 0;
}
