// C07: open-path offsetting produces the stroke of the requested width and caps.
// Piece-form oracle: the expected stroke is bracketed by an inner and an outer union of convex
// pieces (rectangles, discs); the region engine compares the real result with it at every point
// outside the tolerance band. Also: result(+delta) == result(-delta), mixtures of distant paths
// (one group / separate groups) equal the union of the members' strokes.
#include "clipper2/clipper.h"
#include "sides/clip_api.hpp"
#include "checks/offset_oracle.hpp"

using namespace vf;
namespace CL = Clipper2Lib;

enum { JT_SQUARE = 0, JT_BEVEL = 1, JT_ROUND = 2, JT_MITER = 3 };
enum { ET_POLYGON = 0, ET_JOINED = 1, ET_BUTT = 2, ET_SQUARE = 3, ET_ROUND = 4 };

struct Params { double delta; int jt, et; double ml, arc; bool rs; int groups; };  // groups: 1 = all paths in one AddPaths call, 2 = one AddPaths call per path

static std::string ckey(const Paths& in, const Params& q) {
  Case c; c.set("P", in).setd("delta", q.delta).set("jt", q.jt).set("et", q.et).setd("ml", q.ml).setd("arc", q.arc).set("rs", q.rs).set("groups", q.groups); return c.s();
}

static Paths run_offset(const Paths& in, const Params& q, double delta) {
  CL::ClipperOffset co(q.ml, q.arc, false, q.rs);
  if (q.groups == 1) co.AddPaths(vfc::to64(in), (CL::JoinType)q.jt, (CL::EndType)q.et);
  else for (auto& p : in) co.AddPaths(vfc::to64(Paths{p}), (CL::JoinType)q.jt, (CL::EndType)q.et);
  CL::Paths64 sol; co.Execute(delta, sol);
  return vfc::from64(sol);
}

// expected stroke of one path, appended to the inner set I and the outer set U
static void add_pieces(const Path& p_in, const Params& q, ld delta, PieceSet& I, PieceSet& U) {
  // a repeated vertex does not change the polyline as a point set: the expected stroke is that of the path without it
  Path p; for (auto& v : p_in) if (p.empty() || !(p.back().x == v.x && p.back().y == v.y)) p.push_back(v);
  ld k = q.jt == JT_ROUND ? 1.0L : q.jt == JT_MITER ? std::max((ld)q.ml, sqrtl(2.0L)) : sqrtl(2.0L);
  size_t n = p.size();
  if (n == 0) return;
  if (n == 1) {
    if (delta < 1) return;  // documented: single points are skipped when the offset is below one unit
    ld x = p[0].x, y = p[0].y;
    if (q.jt == JT_ROUND) { I.discs.push_back({x, y, delta}); U.discs.push_back({x, y, delta}); }
    else { Convex c; c.pts = {{x - delta, y - delta}, {x + delta, y - delta}, {x + delta, y + delta}, {x - delta, y + delta}}; I.convex.push_back(c); U.convex.push_back(c); }
    return;
  }
  int et = q.et;
  if (n == 2 && et == ET_JOINED) et = (q.jt == JT_ROUND) ? ET_ROUND : ET_SQUARE;  // documented behaviour for 2-point joined paths
  bool closed = (et == ET_JOINED);
  size_t nseg = closed ? n : n - 1;
  for (size_t i = 0; i < nseg; ++i) {
    const P& a = p[i]; const P& b = p[(i + 1) % n];
    ld ea = 0, eb = 0;
    if (et == ET_SQUARE) { if (i == 0) ea = delta; if (i + 1 == nseg) eb = delta; }
    Convex r = seg_rect((ld)a.x, (ld)a.y, (ld)b.x, (ld)b.y, delta, ea, eb);
    I.convex.push_back(r); U.convex.push_back(r);
  }
  for (size_t i = 0; i < n; ++i) {
    bool is_end = !closed && (i == 0 || i + 1 == n);
    ld x = p[i].x, y = p[i].y;
    if (is_end) { if (et == ET_ROUND) { I.discs.push_back({x, y, delta}); U.discs.push_back({x, y, delta}); } continue; }
    if (q.jt == JT_ROUND) I.discs.push_back({x, y, delta});
    U.discs.push_back({x, y, k * delta});
  }
}

static std::string judge(Reporter& rep, const Paths& in, const Params& q, const Paths& sol, i64 S, bool verbose, ld extra_tol = 0) {
  ld delta = std::fabs(q.delta);
  bool uses_arcs = (q.jt == JT_ROUND || q.et == ET_ROUND);
  ld arc_eff = q.arc > 1e-12 ? (ld)q.arc : delta * 0.002L;
  ld tol = (uses_arcs ? arc_eff : 0) + 2.0L + 0.001L * delta + extra_tol;
  PieceSet I, U;
  for (auto& p : in) add_pieces(p, q, delta, I, U);
  int sgn = q.rs ? -1 : 1;
  auto classify = [&](const P& c, ld& m_in, ld& m_out) {
    ld x = (ld)c.x / S, y = (ld)c.y / S;
    m_in = I.empty() ? -1 : I.depth(x, y) - tol;
    m_out = U.empty() ? 1e9L : -U.depth(x, y) - tol;
  };
  auto margin = [&](const P& c) -> ld { ld a, b; classify(c, a, b); return std::max(a, b); };
  auto payload = [&](const P& c, int& a, int& b, bool& skip) { ld mi, mo; classify(c, mi, mo); a = mi > 0 ? 1 : 0; b = 0; skip = (mi <= 0 && mo <= 0); };
  Box g = bbox(in); if (g.empty()) { g.x0 = g.y0 = 0; g.x1 = g.y1 = 1; }
  i64 growby = (i64)std::ceil((double)(std::max((ld)q.ml, 2.0L) * delta + tol)) + 6;
  g.x0 -= growby; g.y0 -= growby; g.x1 += growby; g.y1 += growby;
  RTree tree = rtree_build(g, S, 1, margin, payload);
  RWitness w; RStats st;
  bool good = rtree_check(tree, scaled(sol, S), [&](const RCell& c) { return c.a ? sgn : 0; }, margin, payload, w, st);
  rep.add("tree_cells", tree.cells.size()); rep.add("exact_point_evals", st.evals); rep.add("free_cells_decided", st.decided_free); rep.add("cells_refined", st.refined);
  if (verbose) printf("   tol=%.4Lf cells=%zu verdict=%s\n", tol, tree.cells.size(), good ? "ok" : wit_str(w).c_str());
  if (!good) return std::string(w.want == 0 ? "stroke_covers_forbidden_point: " : (w.got == 0 ? "stroke_misses_required_point: " : "stroke_wrong_winding: ")) + wit_str(w);
  return "";
}

static void check_case(Reporter& rep, const Paths& in, const Params& q, i64 S, bool verbose = false) {
  rep.current_case = [&]() { return ckey(in, q); };
  Paths sol = run_offset(in, q, q.delta), neg = run_offset(in, q, -q.delta);
  rep.add("lib_calls", 2); rep.add("cases"); rep.add("compared");
  if (!sol.empty()) rep.add("nontrivial");
  rep.outcome(hash_paths(canon_closed(sol)));
  if (verbose) printf("P=%s delta=%g jt=%d et=%d ml=%g arc=%g rs=%d groups=%d\n   solution=%s\n", pstr(in).c_str(), q.delta, q.jt, q.et, q.ml, q.arc, (int)q.rs, q.groups, pstr(sol).c_str());
  std::string why;
  if (canon_closed(sol) != canon_closed(neg)) why = "plus_minus_delta_differ: +delta " + pstr(sol) + " -delta " + pstr(neg);
  // mixtures of distant paths: when the result is exactly the members' results side by side, the mixture's region is the
  // union of the members' regions (each member alone is judged by the single-path scope); otherwise judge the region itself
  bool decided = false;
  if (why.empty() && in.size() > 1) {
    Paths side_by_side;
    for (auto& p : in) { Params q1 = q; q1.groups = 1; Paths alone = run_offset(Paths{p}, q1, q.delta); rep.add("lib_calls"); side_by_side.insert(side_by_side.end(), alone.begin(), alone.end()); }
    if (canon_closed(side_by_side) == canon_closed(sol)) { decided = true; rep.add("mixtures_equal_to_members_side_by_side"); }
    else rep.add("mixtures_differing_from_members_side_by_side");
    if (verbose) printf("   members alone, side by side: %s -> %s\n", pstr(side_by_side).c_str(), decided ? "identical" : "DIFFERENT");
  }
  if (why.empty() && !decided) {
    why = judge(rep, in, q, sol, S, verbose);
    // mechanical condition of a known finding: the clause fails with the stated tolerance but holds with one more unit
    // (the clean-up union merges an intersection vertex with a neighbouring arc vertex and moves a long edge by up to a unit)
    if (!why.empty() && judge(rep, in, q, sol, S, false, 1.0L).empty()) why = "stroke_tolerance_exceeded_by_under_1_unit: " + why;
  }
  if (!why.empty()) {
    std::string tag = why.substr(0, why.find(':'));
    // mechanical conditions used by known findings / fixed defects
    bool has_empty = false; for (auto& p : in) if (p.empty()) has_empty = true;
    rep.violation("C07", ckey(in, q), tag, why + " solution=" + pstr(sol));
  }
  rep.current_case = nullptr;
}

int main(int argc, char** argv) {
  Args a = parse_args(argc, argv);
  Reporter rep(a); install_crash_handler(rep);
  i64 S = a.opti("S", a.thorough() ? 4 : 2);
  if (!a.replay.empty()) {
    Case c = Case::parse(a.replay);
    Params q{c.getd("delta"), (int)c.geti("jt"), (int)c.geti("et"), c.getd("ml", 2), c.getd("arc", 0), c.geti("rs") != 0, (int)c.geti("groups", 1)};
    check_case(rep, c.getp("P"), q, S, true);
    printf("violations: %llu\n", (unsigned long long)rep.nviol);
    for (auto& x : rep.viols) printf("  %s %s: %s\n", x.prop.c_str(), x.tag.c_str(), x.detail.c_str());
    return rep.nviol ? 1 : 0;
  }
  int ko = (int)a.opti("ko", 5), omax = (int)a.opti("omax", 3), mix = (int)a.opti("mix", 1);
  auto PO = board_PO(a.seed);
  std::vector<Path> lines;
  for (int n = 1; n <= omax; ++n) { std::vector<std::vector<int>> t; enum_tuples(ko, n, false, t);
    for (auto& idx : t) { Path p; for (int i : idx) p.push_back(PO[i]); if (!angles_ok(p, false)) { rep.add("skipped_angle_filter"); continue; }
      // joined paths close the polyline: the closing joins must pass the angle filter too
      lines.push_back(p); } }
  std::vector<Params> full, brief;
  for (int et = ET_JOINED; et <= ET_ROUND; ++et)
    for (double d : {3.5, 10.0}) {
      for (double arc : {0.0, 0.5}) full.push_back({d, JT_ROUND, et, 2.0, arc, false, 1});
      for (double ml : {1.5, 3.0}) full.push_back({d, JT_MITER, et, ml, 0.0, false, 1});
      full.push_back({d, JT_SQUARE, et, 2.0, 0.0, false, 1}); full.push_back({d, JT_BEVEL, et, 2.0, 0.0, false, 1});
      full.push_back({d, JT_ROUND, et, 2.0, 0.0, true, 1});
    }
  for (int et = ET_JOINED; et <= ET_ROUND; ++et) for (int jt = 0; jt < 4; ++jt) for (int g = 1; g <= 2; ++g) brief.push_back({10.0, jt, et, 2.0, 0.0, false, g});
  auto joined_ok = [&](const Path& p, const Params& q) { return q.et != ET_JOINED || p.size() < 3 || angles_ok(p, true); };
  u64 idx = 0; bool done = true;
  if (mix == 1) {
    for (auto& l : lines) { if (!rep.mine(idx++)) continue; if (rep.out_of_time()) { done = false; break; }
      for (auto& q : full) { if (!joined_ok(l, q)) { rep.add("skipped_angle_filter_joined"); continue; } check_case(rep, Paths{l}, q, S); }
      // the same polyline with one vertex given twice in a row (first, inner or last position; a single point given twice)
      for (size_t di = 0; di < l.size(); ++di) { Path ld2 = l; ld2.insert(ld2.begin() + di, l[di]);
        for (auto& q : brief) { if (q.groups != 1) continue; if (!joined_ok(l, q)) { rep.add("skipped_angle_filter_joined"); continue; } check_case(rep, Paths{ld2}, q, S); rep.add("cases_with_repeated_vertex"); } }
      rep.sample("P=" + pstr(Paths{l})); }
  } else {
    // mixtures of `mix` paths, the later ones translated far away (no interaction)
    std::vector<size_t> sel(mix, 0);
    std::function<void(int)> rec = [&](int kx) {
      if (!done) return;
      if (kx == mix) {
        Paths in; for (int i = 0; i < mix; ++i) { Path p = lines[sel[i]]; for (auto& v : p) { v.x += 400 * i; v.y += 150 * i; } in.push_back(p); }
        for (auto& q : brief) { bool ok = true; for (auto& p : in) ok = ok && joined_ok(p, q); if (!ok) { rep.add("skipped_angle_filter_joined"); continue; } check_case(rep, in, q, S); }
        rep.sample("P=" + pstr(in));
        return;
      }
      for (size_t i = 0; i < lines.size(); ++i) { sel[kx] = i; if (kx == 0) { if (!rep.mine(idx++)) continue; if (rep.out_of_time()) { done = false; return; } } rec(kx + 1); }
    };
    rec(0);
  }
  if (done) rep.bounds_completed.push_back("polylines ko=" + std::to_string(ko) + " n<=" + std::to_string(omax) + " mixtures of " + std::to_string(mix));
  rep.write();
  return 0;
}
