// C01 / C03 (general-position part): boolean operations on every input of the
// general-position scopes, judged by the region engine (C01) and by the exact
// well-formedness clauses (C03). Both library precision configurations are linked in.
#include "clipper2/clipper.h"
#include "sides/clip_api.hpp"
#include "sides/side.hpp"
#include "engine/region.hpp"
#include "checks/gp_scopes.hpp"
#include "checks/wellformed.hpp"

VF_SIDE(hp)

using namespace vf;

static BoolOut run_cfg(int cfg, int ct, int fr, const Paths& S, const Paths& C, bool pc, bool rs) {
  if (cfg == 0) return vfc::boolop(ct, fr, S, C, Paths(), pc, rs);
  if (cfg == 2) return vfc::boolop_reuse(ct, fr, S, C, pc, rs);   // loaded through a ReuseableDataContainer64
  return side_hp_boolop(ct, fr, S, C, Paths(), pc, rs);
}

struct Ctx { Reporter& rep; bool doC01, doC03; i64 Sdef; };

static std::string case_key(const GpInput& in, int ct, int fr, int cfg, bool pc, bool rs) {
  Case c; c.set("S", in.subj).set("C", in.clip).set("ct", ct).set("fr", fr).set("cfg", cfg == 2 ? "reuse" : cfg ? "hp" : "std").set("pc", pc).set("rs", rs);
  return c.s();
}

static i64 max_abs(const Paths& pp) { i64 m = 0; for (auto& p : pp) for (auto& q : p) { m = std::max(m, q.x < 0 ? -q.x : q.x); m = std::max(m, q.y < 0 ? -q.y : q.y); } return m; }

static void check_input(Ctx& cx, const GpInput& in, bool verbose = false, int only_ct = 0, int only_fr = -1, int only_cfg = -1, int only_pc = -1, int only_rs = -1) {
  Reporter& rep = cx.rep;
  Paths all = in.subj; all.insert(all.end(), in.clip.begin(), in.clip.end());
  Box bb = bbox(all);
  i64 mabs = max_abs(all);
  ld tol = 2.0L + (ld)mabs * ldexpl(1.0L, -42);
  // engine resolution
  i64 S = (mabs > ((i64)1 << 40)) ? 2 : cx.Sdef;
  i128 ext = std::max((i128)bb.x1 - bb.x0, (i128)bb.y1 - bb.y0) * S;
  i64 Hmin = 1; while ((i128)Hmin * 2048 < ext) Hmin *= 2;
  ld eps = 1e-6L + (ld)mabs * (ld)S * ldexpl(1.0L, -55);
  Paths Ss = scaled(in.subj, S), Cs = scaled(in.clip, S), As = scaled(all, S);
  auto margin = [&](const P& c) -> ld { return dist_to_edges(c, As) / (ld)S - tol; };
  auto payload = [&](const P& c, int& a, int& b, bool& skip) { bool on = false; a = winding(Ss, c, on); b = winding(Cs, c, on); skip = on; };
  RTree tree; bool have_tree = false;
  auto get_tree = [&]() -> RTree& {
    if (!have_tree) {
      Box g = bb; i64 grow_by = (i64)std::min<ld>((ld)((i64)1 << 60), tol * 3 + 4);
      g.x0 -= grow_by; g.y0 -= grow_by; g.x1 += grow_by; g.y1 += grow_by;
      tree = rtree_build(g, S, Hmin, margin, payload, eps); have_tree = true;
      rep.add("tree_cells", tree.cells.size()); rep.add("tree_free_cells", tree.n_free); rep.add("trees");
      rep.maxi("r_leaf_milli_units", (u64)(tree.r_leaf() * 1000));
    }
    return tree;
  };
  Paths canS = canon_closed(in.subj), canC = canon_closed(in.clip);
  WfInput wf{all, bb, mabs};
  struct Cur { int ct = 0, fr = 0, cfg = 0, pc = 0, rs = 0; } cur;
  arm_watchdog(600);   // CPU-time limit per input: a library call that does not return is attributed to this case (crash_signal_26)
  rep.current_case = [&in, &cur]() { return case_key(in, cur.ct, cur.fr, cur.cfg, cur.pc, cur.rs); };

  for (int ct = 1; ct <= 4; ++ct)
    for (int fr = 0; fr < 4; ++fr) {
      if (only_ct && ct != only_ct) continue;
      if (only_fr >= 0 && fr != only_fr) continue;
      std::vector<Paths> verified;  // canonical solutions (rs=false form) already judged for this (ct,fr)
      for (int cfg = 0; cfg < 3; ++cfg)
        for (int pc = 1; pc >= 0; --pc) {
          if (cfg == 2 && pc == 0) continue;   // the container route is exercised with the default setting only
          if (only_cfg >= 0 && cfg != only_cfg) continue;
          if (only_pc >= 0 && pc != only_pc) continue;
          Paths can_fwd;
          for (int rs = 0; rs < 2; ++rs) {
            if (only_rs >= 0 && rs != only_rs) continue;
            cur = Cur{ct, fr, cfg, pc, rs};
            BoolOut o = run_cfg(cfg, ct, fr, in.subj, in.clip, pc, rs);
            rep.add("lib_calls"); rep.add("cases"); rep.add("compared");
            std::string key;
            auto K = [&]() -> const std::string& { if (key.empty()) key = case_key(in, ct, fr, cfg, pc, rs); return key; };
            if (verbose) printf("ct=%d fr=%d cfg=%d pc=%d rs=%d ok=%d solution: %s\n", ct, fr, cfg, pc, rs, (int)o.ok, pstr(o.closed).c_str());
            if (!o.ok) { rep.violation(rep.args.prop, K(), "execute_false", "Execute returned false"); continue; }
            Paths can = canon_closed(rs ? reversed(o.closed) : o.closed);
            if (!rs) can_fwd = can;
            bool nontrivial = !can.empty() && can != canS && can != canC;
            if (nontrivial) rep.add("nontrivial");
            rep.outcome(hash_paths(can));
            bool seen = false;
            for (auto& v : verified) if (v == can) { seen = true; break; }
            if (seen) { rep.add("memo_hits"); if (!verbose) continue; }
            // ---- C01: region engine
            if (cx.doC01) {
              RTree& t = get_tree();
              Paths sol = scaled(rs ? reversed(o.closed) : o.closed, S);  // judged in forward form; rs=true must be its exact reversal
              auto expect = [&](const RCell& c) -> int { return setop(ct, fill(fr, c.a), fill(fr, c.b)) ? 1 : 0; };
              RWitness w; RStats st;
              bool good = rtree_check(t, sol, expect, margin, payload, w, st, eps);
              rep.add("region_checks"); rep.add("exact_point_evals", st.evals); rep.add("free_cells_decided", st.decided_free); rep.add("cells_refined", st.refined); rep.add("points_on_solution_edge_skipped", st.on_edge_skipped);
              if (verbose) printf("   C01 region: %s (%llu evals)\n", good ? "ok" : wit_str(w).c_str(), (unsigned long long)st.evals);
              if (!good) rep.violation("C01", K(), "region", wit_str(w) + (rs ? " (solution un-reversed before comparison)" : "") + " solution=" + pstr(o.closed));
            }
            // ---- C03: structural + geometric clauses
            if (cx.doC03) {
              std::string why = wellformed_general(wf, o.closed, pc, rs, tol);
              if (why.empty()) {
                // feeding the solution back through Union returns the same set of paths
                BoolOut u = run_cfg(cfg, 2, 1, o.closed, Paths(), pc, false);
                rep.add("lib_calls");
                Paths cu = canon_closed(u.closed);
                Paths want = canon_closed(rs ? reversed(o.closed) : o.closed);
                if (cu != want) why = union_tag(o.closed) + ": Union(solution,NonZero)=" + pstr(u.closed);
              }
              rep.add("wellformed_checks");
              if (verbose) printf("   C03: %s\n", why.empty() ? "ok" : why.c_str());
              if (!why.empty()) rep.violation("C03", K(), why.substr(0, why.find(':')), why + " solution=" + pstr(o.closed));
            }
            if (!seen) verified.push_back(can);
          }
        }
    }
  arm_watchdog(0); rep.current_case = nullptr;
  rep.sample("S=" + pstr(in.subj) + " C=" + pstr(in.clip) + (in.mag ? std::string(" mag=") + in.mag->name : std::string()));
}

int main(int argc, char** argv) {
  Args a = parse_args(argc, argv);
  Reporter rep(a);
  install_crash_handler(rep);
  Ctx cx{rep, a.prop == "C01" || a.prop.empty(), a.prop == "C03" || a.prop.empty(), a.thorough() ? 4 : 2};
  if (a.extra.count("S")) cx.Sdef = a.opti("S", 2);
  if (!a.replay.empty()) {
    Case c = Case::parse(a.replay);
    GpInput in{c.getp("S"), c.getp("C"), nullptr, "replay"};
    cx.doC01 = cx.doC03 = true;
    check_input(cx, in, true, (int)c.geti("ct"), (int)c.geti("fr", -1), c.has("cfg") ? (c.get("cfg") == "hp" ? 1 : c.get("cfg") == "reuse" ? 2 : 0) : -1, (int)c.geti("pc", -1), (int)c.geti("rs", -1));
    printf("violations: %llu\n", (unsigned long long)rep.nviol);
    for (auto& v : rep.viols) printf("  %s %s: %s\n", v.prop.c_str(), v.tag.c_str(), v.detail.c_str());
    return rep.nviol ? 1 : 0;
  }
  for_each_gp(a, rep, [&](const GpInput& in) { check_input(cx, in); });
  rep.write();
  return 0;
}
