// C14 (E-SCHED): schedule explorer. Real threads, serialised by a hand-off scheduler; a scheduling
// point at every entry of a function compiled from Clipper2 sources (-finstrument-functions on the
// library TUs and on checks/sched_bodies.cpp; this TU is NOT instrumented). Iterative context
// bounding: every schedule of a scenario with at most p preemptions is executed; every schedule runs
// to completion. Oracle per schedule: each thread's result equals its sequential result, and at
// every scheduling point the hash of all writable static storage of the Clipper2 TUs and of the heap
// blocks of the shared container equals its value after the sequential warm-up.
// mode tsan: the same bodies free-running from a barrier under ThreadSanitizer (separate binary).
#include "engine/common.hpp"
#include "engine/forkbatch.hpp"
#include <thread>
#include <mutex>
#include <condition_variable>
#include <atomic>
#include <fstream>

void bodies_setup_shared(); int bodies_count(); const char* bodies_name(int); void bodies_run(int body, int variant, std::string& out);

using namespace vf;

// ---------------------------------------------------------------- allocation log for the shared container
static int g_logging = 0; static void* g_blk[256]; static size_t g_blksz[256]; static int g_nblk = 0;
extern "C" void sched_log_allocs(int on) { g_logging = on; }
#ifndef SCHED_TSAN
void* operator new(std::size_t n) { void* p = std::malloc(n ? n : 1); if (!p) throw std::bad_alloc(); if (g_logging && g_nblk < 256) { g_blk[g_nblk] = p; g_blksz[g_nblk++] = n; } return p; }
void* operator new[](std::size_t n) { return operator new(n); }
// a block freed again (a temporary of the filling code) is not part of the container: forget it
static inline void forget(void* p) { if (g_logging) for (int i = 0; i < g_nblk; ++i) if (g_blk[i] == p) { g_blk[i] = g_blk[g_nblk - 1]; g_blksz[i] = g_blksz[g_nblk - 1]; --g_nblk; break; } }
void operator delete(void* p) noexcept { forget(p); std::free(p); }
void operator delete[](void* p) noexcept { forget(p); std::free(p); }
void operator delete(void* p, std::size_t) noexcept { forget(p); std::free(p); }
void operator delete[](void* p, std::size_t) noexcept { forget(p); std::free(p); }
#endif

// ---------------------------------------------------------------- static storage map (written by bin/check next to the executable)
struct Range { uintptr_t addr; size_t size; std::string name; };
static std::vector<Range> g_statics;
static inline u64 hash_bytes(u64 h, const unsigned char* p, size_t n) {
  size_t i = 0;
  for (; i + 8 <= n; i += 8) { u64 w; memcpy(&w, p + i, 8); h = (h ^ w) * 0x9E3779B97F4A7C15ULL; h ^= h >> 29; }
  for (; i < n; ++i) { h = (h ^ p[i]) * 1099511628211ULL; }
  return h;
}
static u64 hash_state() {
  u64 h = 1469598103934665603ULL;
  for (auto& r : g_statics) h = hash_bytes(h, (const unsigned char*)r.addr, r.size);
  for (int b = 0; b < g_nblk; ++b) h = hash_bytes(h, (const unsigned char*)g_blk[b], g_blksz[b]);
  return h;
}
static std::string which_changed(const std::vector<std::vector<unsigned char>>& snap) {
  for (size_t k = 0; k < g_statics.size(); ++k) if (memcmp(snap[k].data(), (const void*)g_statics[k].addr, g_statics[k].size)) return "static object " + g_statics[k].name;
  return "a heap block of the shared ReuseableDataContainer64";
}

// ---------------------------------------------------------------- serialising scheduler
struct Seg { int thread; u64 budget; };
static struct Sched {
  std::mutex m; std::condition_variable cv;
  int turn = -1; int nthreads = 0; bool finished[8]; u64 steps[8]; u64 total_points = 0;
  std::vector<Seg> plan; size_t pos = 0; u64 used = 0;
  bool active = false; u64 baseline = 0; bool state_changed = false; u64 changed_at = 0; int changed_thread = -1;
  int preemptions = 0;
} S;
static thread_local int tl_id = -1;

static int pick_next_unfinished(int except) { for (int t = 0; t < S.nthreads; ++t) if (t != except && !S.finished[t]) return t; return -1; }
static void hand_off(std::unique_lock<std::mutex>& lk, int to, int me, bool wait_back) {
  S.turn = to; S.cv.notify_all();
  if (wait_back) S.cv.wait(lk, [&] { return S.turn == me; });
}
static void sched_point() {
  int me = tl_id;
  // only the thread that holds the turn executes here; the mutex is needed for hand-offs only
  ++S.steps[me]; ++S.total_points;
  if (!S.state_changed && hash_state() != S.baseline) { S.state_changed = true; S.changed_at = S.total_points; S.changed_thread = me; }
  if (S.pos < S.plan.size() && S.plan[S.pos].thread == me) {
    if (S.used >= S.plan[S.pos].budget) {
      // preempt: move to the next segment of the plan
      ++S.pos; S.used = 0;
      int to = -1;
      while (S.pos < S.plan.size()) { if (!S.finished[S.plan[S.pos].thread] && S.plan[S.pos].thread != me) { to = S.plan[S.pos].thread; break; } if (S.plan[S.pos].thread == me) break; ++S.pos; }
      if (to >= 0) { ++S.preemptions; std::unique_lock<std::mutex> lk(S.m); hand_off(lk, to, me, true); }
    } else ++S.used;
  }
}
static void thread_finished() {
  int me = tl_id;
  std::unique_lock<std::mutex> lk(S.m);
  S.finished[me] = true;
  if (S.pos < S.plan.size() && S.plan[S.pos].thread == me) { ++S.pos; S.used = 0; }
  int to = -1;
  while (S.pos < S.plan.size()) { if (!S.finished[S.plan[S.pos].thread]) { to = S.plan[S.pos].thread; break; } ++S.pos; }
  if (to < 0) to = pick_next_unfinished(me);
  S.turn = to; S.cv.notify_all();
}
extern "C" {
__attribute__((no_instrument_function)) void __cyg_profile_func_enter(void*, void*) { if (tl_id >= 0 && S.active) sched_point(); }
__attribute__((no_instrument_function)) void __cyg_profile_func_exit(void*, void*) {}
}

struct Scenario { std::vector<std::pair<int, int>> th; };  // (body, variant) per thread
static std::string scen_str(const Scenario& sc) { std::string s; for (size_t i = 0; i < sc.th.size(); ++i) { if (i) s += " | "; s += bodies_name(sc.th[i].first); if (sc.th[i].second) s += " (variant)"; } return s; }
static std::string scen_ids(const Scenario& sc) { std::string s; for (size_t i = 0; i < sc.th.size(); ++i) { if (i) s += ","; s += std::to_string(sc.th[i].first) + "." + std::to_string(sc.th[i].second); } return s; }
static std::string plan_str(const std::vector<Seg>& p) { std::string s; for (size_t i = 0; i < p.size(); ++i) { if (i) s += ","; s += std::to_string(p[i].thread) + ":" + (p[i].budget == UINT64_MAX ? std::string("inf") : std::to_string(p[i].budget)); } return s; }

struct RunOut { std::vector<std::string> res; std::vector<u64> steps; bool state_changed; u64 changed_at; int changed_thread; int preemptions; };
static RunOut run_schedule(const Scenario& sc, const std::vector<Seg>& plan) {
  int n = (int)sc.th.size();
  S.nthreads = n; S.plan = plan; S.pos = 0; S.used = 0; S.total_points = 0; S.state_changed = false; S.preemptions = 0;
  for (int i = 0; i < 8; ++i) { S.finished[i] = false; S.steps[i] = 0; }
  // a container that no clipper has used yet for every schedule in which it is shared (its heap blocks are re-logged)
  bool uses_shared = false; for (auto& t : sc.th) if (t.first <= 1) uses_shared = true;
  if (uses_shared) { g_nblk = 0; bodies_setup_shared(); }
  S.baseline = hash_state();
  RunOut out; out.res.resize(n);
  for (auto& r : out.res) r.reserve(1 << 14);
  S.turn = plan.empty() ? 0 : plan[0].thread;
  S.active = true;
  std::vector<std::thread> ts;
  for (int t = 0; t < n; ++t) ts.emplace_back([&, t]() {
    { std::unique_lock<std::mutex> lk(S.m); S.cv.wait(lk, [&] { return S.turn == t; }); }
    tl_id = t;
    bodies_run(sc.th[t].first, sc.th[t].second, out.res[t]);
    tl_id = -1;
    { std::unique_lock<std::mutex> lk(S.m); }
    tl_id = t; thread_finished(); tl_id = -1;
  });
  for (auto& t : ts) t.join();
  S.active = false;
  out.steps.assign(S.steps, S.steps + n); out.state_changed = S.state_changed; out.changed_at = S.changed_at; out.changed_thread = S.changed_thread; out.preemptions = S.preemptions;
  return out;
}

static void load_statics(const char* argv0) {
  std::ifstream f(std::string(argv0) + ".statics");
  std::string line;
  while (std::getline(f, line)) { unsigned long long a, sz; char name[512]; if (sscanf(line.c_str(), "%llx %llx %511s", &a, &sz, name) == 3 && sz > 0 && sz < (1 << 20) && strncmp(name, "_ZTI", 4) && strncmp(name, "_ZTS", 4) && strncmp(name, "_ZTV", 4) && !strstr(name, "__digits")) g_statics.push_back({(uintptr_t)a, (size_t)sz, name}); }
}

static std::vector<Scenario> scenarios(bool triples) {
  std::vector<Scenario> v; int nb = bodies_count();
  for (int a = 0; a < nb; ++a) for (int b = a; b < nb; ++b) { Scenario s; s.th = {{a, 0}, {b, a == b ? 1 : 0}}; v.push_back(s); }
  if (triples) for (int c = 2; c < nb; ++c) { Scenario s; s.th = {{0, 0}, {1, 0}, {c, 0}}; v.push_back(s); }
  if (triples) { Scenario s; s.th = {{0, 0}, {1, 0}, {0, 1}}; v.push_back(s); }
  return v;
}

int main(int argc, char** argv) {
  Args a = parse_args(argc, argv);
  Reporter rep(a); install_crash_handler(rep);
  std::string mode = a.opt("mode", "explore");
  int bound = (int)a.opti("p", 1); bool triples = a.opti("triples", 1) != 0;
  u64 stride2 = (u64)a.opti("stride2", 1);   // p = 2 only: granularity of the second preemption position (1 = every point)
  std::string prop = a.prop.empty() ? "C14" : a.prop;

#ifdef SCHED_TSAN
  // ---------------- free-running pass under ThreadSanitizer: one forked child per scenario and repetition block
  (void)bound; (void)stride2;
  std::vector<Scenario> sc = scenarios(true);
  ForkBatch fb; fb.ctr_names = {"cases", "lib_calls", "nontrivial"}; fb.stall_seconds = 120;
  const int REPS = (int)a.opti("reps", 50);
  auto exec_case = [&](u64 g) {
    const Scenario& s = sc[g];
    bodies_setup_shared();
    std::vector<std::string> ref(s.th.size());
    for (size_t t = 0; t < s.th.size(); ++t) bodies_run(s.th[t].first, s.th[t].second, ref[t]);
    for (int r = 0; r < REPS; ++r) {
      bodies_setup_shared();   // a fresh, never used container for every repetition
      std::atomic<int> ready{0}; std::vector<std::string> res(s.th.size()); std::vector<std::thread> ts;
      for (size_t t = 0; t < s.th.size(); ++t) ts.emplace_back([&, t]() { ready++; while (ready.load() < (int)s.th.size()) {} bodies_run(s.th[t].first, s.th[t].second, res[t]); });
      for (auto& t : ts) t.join();
      for (size_t t = 0; t < s.th.size(); ++t) if (res[t] != ref[t]) { strncpy((char*)fb.sh->note, "concurrent result differs from the sequential result", sizeof fb.sh->note - 1); fb.sh->note_set = 1; _exit(85); }
    }
    fb.sh->ctr[0] = fb.sh->ctr[0] + 1; fb.sh->ctr[1] = fb.sh->ctr[1] + REPS * s.th.size(); fb.sh->ctr[2] = fb.sh->ctr[2] + 1;
  };
  auto describe = [&](u64 g) { Case c; c.set("mode", "tsan").set("scenario", scen_ids(sc[g])); return c.s(); };
  auto tagfix = [&](u64, const std::string& tag) -> std::string { if (tag == "exit_66") return "tsan_data_race"; if (tag == "exit_85") return "concurrent_result_differs"; return "tsan_run_" + tag; };
  if (!a.replay.empty()) { Case c = Case::parse(a.replay); for (size_t g = 0; g < sc.size(); ++g) if (scen_ids(sc[g]) == c.get("scenario")) { exec_case(g); printf("completed without report\n"); return 0; } return 2; }
  bool done = true;
  for (u64 g = 0; g < sc.size(); ++g) { if (!rep.mine(g)) continue; if (!fb.run(rep, prop, g, g + 1, exec_case, describe, tagfix)) { done = false; break; } rep.sample("tsan free-running: " + scen_str(sc[g])); }
  rep.ctr["compared"] = rep.ctr["cases"];
  if (done) rep.bounds_completed.push_back("ThreadSanitizer free-running pass: " + std::to_string(sc.size()) + " scenarios x " + std::to_string(REPS) + " repetitions");
  rep.write();
  return 0;
#else
  load_statics(argv[0]);
  bodies_setup_shared();
  std::vector<Scenario> sc = scenarios(triples);
  // sequential warm-up (one-time initialisation happens here) and reference results
  for (int rep_i = 0; rep_i < 2; ++rep_i) for (int b = 0; b < bodies_count(); ++b) for (int v = 0; v < 2; ++v) { std::string tmp; bodies_run(b, v, tmp); }
  std::vector<std::vector<unsigned char>> snap; for (auto& r : g_statics) snap.emplace_back((const unsigned char*)r.addr, (const unsigned char*)r.addr + r.size);
  rep.add("tracked_static_objects", rep.args.shard == 0 ? g_statics.size() : 0); rep.add("tracked_shared_heap_blocks", rep.args.shard == 0 ? (u64)g_nblk : 0);
  if (g_statics.empty()) rep.notes.push_back("no .statics map found next to the executable: static storage is not tracked");

  auto judge = [&](const Scenario& s, const std::vector<Seg>& plan, const RunOut& o, const std::vector<std::string>& ref, const std::vector<u64>& refsteps) {
    rep.add("cases"); rep.add("compared"); rep.add("lib_calls", s.th.size());
    u64 pts = 0; for (auto x : o.steps) pts += x; rep.add("scheduling_points_executed", pts);
    if (o.preemptions > 0) rep.add("nontrivial");
    rep.maxi("max_preemptions_in_a_schedule", (u64)o.preemptions);
    Case c; c.set("mode", "explore").set("scenario", scen_ids(s)).set("plan", plan_str(plan));
    for (size_t t = 0; t < s.th.size(); ++t)
      if (o.res[t] != ref[t]) { rep.violation(prop, c.s(), "interleaved_result_differs", "thread " + std::to_string(t) + " (" + bodies_name(s.th[t].first) + ") returned " + o.res[t].substr(0, 200) + " but sequentially " + ref[t].substr(0, 200)); return; }
    if (o.state_changed) { rep.violation(prop, c.s(), "shared_state_written", which_changed(snap) + " changed during execution (first seen at scheduling point " + std::to_string(o.changed_at) + " of thread " + std::to_string(o.changed_thread) + ")"); return; }
    for (size_t t = 0; t < s.th.size(); ++t) if (o.steps[t] != refsteps[t]) { rep.violation(prop, c.s(), "step_count_differs", "thread " + std::to_string(t) + " executed " + std::to_string(o.steps[t]) + " scheduling points, sequentially " + std::to_string(refsteps[t])); return; }
  };

  if (!a.replay.empty()) {
    Case c = Case::parse(a.replay);
    for (auto& s : sc) if (scen_ids(s) == c.get("scenario")) {
      std::vector<Seg> plan; std::string ps = c.get("plan"); size_t i = 0;
      while (i < ps.size()) { int t = atoi(ps.c_str() + i); size_t col = ps.find(':', i); size_t com = ps.find(',', col); std::string b = ps.substr(col + 1, com == std::string::npos ? std::string::npos : com - col - 1); plan.push_back({t, b == "inf" ? UINT64_MAX : (u64)atoll(b.c_str())}); if (com == std::string::npos) break; i = com + 1; }
      std::vector<std::string> ref(s.th.size()); for (size_t t = 0; t < s.th.size(); ++t) bodies_run(s.th[t].first, s.th[t].second, ref[t]);
      RunOut o1 = run_schedule(s, plan), o2 = run_schedule(s, plan);
      printf("scenario %s\nplan %s\nsteps:", scen_str(s).c_str(), plan_str(plan).c_str()); for (auto x : o1.steps) printf(" %llu", (unsigned long long)x);
      printf("\nreplayed twice: %s\n", (o1.steps == o2.steps && o1.res == o2.res) ? "identical observations" : "DIVERGENT OBSERVATIONS");
      judge(s, plan, o1, ref, o1.steps);
      printf("violations: %llu\n", (unsigned long long)rep.nviol); for (auto& v : rep.viols) printf("  %s: %s\n", v.tag.c_str(), v.detail.c_str());
      return rep.nviol ? 1 : 0;
    }
    return 2;
  }

  u64 idx = 0; bool done = true;
  for (auto& s : sc) {
    if (!done) break;
    int n = (int)s.th.size();
    // sequential reference: results, and step counts from a non-preemptive schedule
    std::vector<std::string> ref(n); for (int t = 0; t < n; ++t) bodies_run(s.th[t].first, s.th[t].second, ref[t]);
    std::vector<Seg> base; for (int t = 0; t < n; ++t) base.push_back({t, UINT64_MAX});
    RunOut r0 = run_schedule(s, base), r1 = run_schedule(s, base);
    if (r0.steps != r1.steps || r0.res != r1.res) { fprintf(stderr, "nondeterminism: the same schedule gave different observations for %s\n", scen_str(s).c_str()); return 2; }
    std::vector<u64> N = r0.steps;
    if (rep.args.shard == 0) for (int t = 0; t < n; ++t) rep.maxi(std::string("points_") + bodies_name(s.th[t].first), N[t]);
    // p = 0: every order of the threads
    std::vector<int> perm(n); for (int t = 0; t < n; ++t) perm[t] = t;
    do { if (rep.mine(idx++)) { std::vector<Seg> plan; for (int t : perm) plan.push_back({t, UINT64_MAX}); judge(s, plan, run_schedule(s, plan), ref, N); } } while (std::next_permutation(perm.begin(), perm.end()));
    // p = 1: thread a runs i points, is preempted by b which runs to completion, the rest follows in index order
    if (bound >= 1)
      for (int a1 = 0; a1 < n && done; ++a1) for (int b1 = 0; b1 < n && done; ++b1) { if (a1 == b1) continue;
        for (u64 i = 1; i < N[a1]; ++i) { if (!rep.mine(idx++)) continue; if ((i & 63) == 0 && rep.out_of_time()) { done = false; break; }
          std::vector<Seg> plan = {{a1, i}, {b1, UINT64_MAX}, {a1, UINT64_MAX}}; judge(s, plan, run_schedule(s, plan), ref, N); } }
    // p = 2: a runs i points, b runs j points, a continues to completion, then the rest (pairs only)
    if (bound >= 2 && n == 2)
      for (int a1 = 0; a1 < 2 && done; ++a1) { int b1 = 1 - a1;
        for (u64 i = 1; i < N[a1] && done; ++i) { if (!rep.mine(idx++)) continue;
          for (u64 j = 1; j < N[b1]; j += stride2) { if ((j & 63) == 0 && rep.out_of_time()) { done = false; break; }
            std::vector<Seg> plan = {{a1, i}, {b1, j}, {a1, UINT64_MAX}, {b1, UINT64_MAX}}; judge(s, plan, run_schedule(s, plan), ref, N); } } }
    if (done) rep.bounds_completed.push_back(scen_ids(s) + " p<=" + std::to_string(bound) + (bound >= 2 && stride2 > 1 ? " (second preemption every " + std::to_string(stride2) + " points)" : ""));
    rep.sample("scenario " + scen_str(s) + "; e.g. plan " + plan_str({{0, N[0] / 2}, {1, UINT64_MAX}, {0, UINT64_MAX}}));
  }
  rep.write();
  return 0;
#endif
}
