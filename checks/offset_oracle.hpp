// Oracles for offsetting (C06, C07): signed distance to a polygon region and the "piece form"
// (unions of convex pieces and discs) with 1-Lipschitz margin functions for the region engine.
#pragma once
#include "../engine/region.hpp"
#include "../engine/boards.hpp"

namespace vf {

// ---- convex pieces (counter-clockwise point lists) and discs, in grid units (long double)
struct Convex { std::vector<std::pair<ld, ld>> pts; };
struct Disc { ld cx, cy, r; };

// signed depth of (x,y) inside a convex ccw polygon: min over edges of the signed distance to the edge line
// (positive inside). For points outside it is >= -(Euclidean distance), and it is 1-Lipschitz.
inline ld depth_convex(const Convex& c, ld x, ld y) {
  ld best = 1e300L; size_t n = c.pts.size();
  for (size_t i = 0; i < n; ++i) {
    ld ax = c.pts[i].first, ay = c.pts[i].second, bx = c.pts[(i + 1) % n].first, by = c.pts[(i + 1) % n].second;
    ld dx = bx - ax, dy = by - ay, L = hypotl(dx, dy);
    if (L == 0) continue;
    ld d = (dx * (y - ay) - dy * (x - ax)) / L;  // left of a->b is positive
    best = std::min(best, d);
  }
  return best;
}
inline ld depth_disc(const Disc& d, ld x, ld y) { return d.r - hypotl(x - d.cx, y - d.cy); }

struct PieceSet {
  std::vector<Convex> convex; std::vector<Disc> discs;
  // greatest depth of the point inside any piece (negative when outside all of them; then >= -distance to the set)
  ld depth(ld x, ld y) const {
    ld best = -1e300L;
    for (auto& c : convex) best = std::max(best, depth_convex(c, x, y));
    for (auto& d : discs) best = std::max(best, depth_disc(d, x, y));
    return best;
  }
  bool empty() const { return convex.empty() && discs.empty(); }
};

// rectangle around segment a->b extended by `ext_a` behind a and `ext_b` beyond b, half width w (ccw)
inline Convex seg_rect(ld ax, ld ay, ld bx, ld by, ld w, ld ext_a = 0, ld ext_b = 0) {
  ld dx = bx - ax, dy = by - ay, L = hypotl(dx, dy); dx /= L; dy /= L;
  ld nx = -dy, ny = dx;  // left normal
  ld sx = ax - dx * ext_a, sy = ay - dy * ext_a, ex = bx + dx * ext_b, ey = by + dy * ext_b;
  Convex c;
  c.pts = {{sx - nx * w, sy - ny * w}, {ex - nx * w, ey - ny * w}, {ex + nx * w, ey + ny * w}, {sx + nx * w, sy + ny * w}};
  return c;
}

// one-sided rectangle: segment a->b swept by w towards its left (left=true) or right side (ccw point order)
inline Convex seg_rect_side(ld ax, ld ay, ld bx, ld by, ld w, bool left) {
  ld dx = bx - ax, dy = by - ay, L = hypotl(dx, dy); dx /= L; dy /= L;
  ld nx = -dy, ny = dx;
  Convex c;
  if (left) c.pts = {{ax, ay}, {bx, by}, {bx + nx * w, by + ny * w}, {ax + nx * w, ay + ny * w}};
  else c.pts = {{ax - nx * w, ay - ny * w}, {bx - nx * w, by - ny * w}, {bx, by}, {ax, ay}};
  return c;
}

// ---- signed distance to the region bounded by closed paths (region = winding != 0), p in scaled integer coordinates
struct RegionSD {
  Paths scaled_paths; i64 S;
  // returns signed distance in grid units (negative inside); `on` set when p lies on the boundary
  ld sd(const P& p, bool& on) const {
    int w = winding(scaled_paths, p, on);
    ld d = dist_to_edges(p, scaled_paths) / (ld)S;
    return w != 0 ? -d : d;
  }
};

// turning-angle filter of the offsetting properties: at every vertex the direction change stays at least
// `deg` degrees away from a full reversal (evaluated conservatively: a little stricter than asked)
inline bool angles_ok(const Path& p, bool closed, double min_deg = 10.0) {
  size_t n = p.size(); if (n < 3) return true;
  double lim = -std::cos((min_deg + 1.0) * 3.14159265358979323846 / 180.0);  // cos(turn) must be >= cos(180-(deg+1))
  size_t lo = closed ? 0 : 1, hi = closed ? n : n - 1;
  for (size_t i = lo; i < hi; ++i) {
    const P& a = p[(i + n - 1) % n]; const P& b = p[i]; const P& c = p[(i + 1) % n];
    double ux = (double)(b.x - a.x), uy = (double)(b.y - a.y), vx = (double)(c.x - b.x), vy = (double)(c.y - b.y);
    double cs = (ux * vx + uy * vy) / (std::hypot(ux, uy) * std::hypot(vx, vy));
    if (cs < lim) return false;
  }
  return true;
}

} // namespace vf
