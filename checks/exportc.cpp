// C17: the C export layer (clipper.export.h) marshals faithfully and forwards every parameter.
//
// One source, two binaries: "exportc" (plain) and "exportc_z" (-DUSINGZ, namespace renamed).
// clipper.export.h defines extern "C" functions in a header, so it is included in exactly this TU.
// Built with AddressSanitizer + UBSan + _GLIBCXX_SANITIZE_VECTOR; every input array handed to an
// export is an exact-size heap block (new T[len]), so an over-read is a sanitizer report, which
// (ASAN_OPTIONS=abort_on_error=1) raises SIGABRT and is attributed to the running case by the
// crash handler.
//
// Scopes (all enumerated completely, outermost input index sharded):
//   RT    round trip of every path set of 0-3 paths x 0-4 points over the first K points of a
//         value alphabet with extreme coordinates (Create*/Convert* and a hand-built array)
//   BOOL  BooleanOp64/D, BooleanOp_PolyTree64/D on role-tagged path sets (subject/open/clip)
//   NEST  the polytree functions on the concentric-squares nesting family
//   INFS  InflatePaths64/D on path sets,  INF  InflatePath64/D on single paths
//   RECT  RectClip64/D, RectClipLines64/D,  MINK  MinkowskiSum64/Diff64
//   RC    return codes and null pointers
// each crossed with every combination of the export's parameters.
#include "clipper2/clipper.h"
#include "clipper2/clipper.export.h"
#include "engine/common.hpp"
#if defined(__has_include) && __has_include(<sanitizer/allocator_interface.h>)
#include <sanitizer/allocator_interface.h>
#else
// g++ 12 ships libasan without this header; the functions are part of the sanitizer runtime
extern "C" size_t __sanitizer_get_allocated_size(const volatile void* p);
extern "C" int __sanitizer_get_ownership(const volatile void* p);
#endif
#if defined(__SANITIZE_ADDRESS__)
extern "C" void __asan_set_error_report_callback(void (*callback)(const char*));
#else
#error "exportc.cpp must be built with -fsanitize=address (the allocation-size oracle and the over-read detection depend on it)"
#endif
#include <sys/wait.h>
#include <fcntl.h>
#include <cmath>
#include <cinttypes>
#include <array>
#include <memory>

namespace C2 = Clipper2Lib;
using vf::i64;
using vf::u64;

#ifdef USINGZ
static const bool kZ = true;
#else
static const bool kZ = false;
#endif
static const int DIM = C2::EXPORT_VERTEX_DIMENSIONALITY;

// ------------------------------------------------------------------------------------------------
// alphabets
// ------------------------------------------------------------------------------------------------
// a, b, d form a triangle with two 45 degree corners (miter limit 1.5 vs 3 matters); c lies on a-b
// (PreserveCollinear matters); e makes the diagonals a-d / b-e cross (new vertices, bow-ties).
static const vf::P A5[5] = {{-10, -6}, {10, -6}, {10, 14}, {0, -6}, {-10, 14}};  // a b d c e
static const i64 Z5[5] = {-1, INT64_MIN, (i64)0x7FF0000000000001LL /* sNaN pattern as double */, 7, (i64)0x4045000000000000LL /* 42.0 */};

static i64 zof(i64 x, i64 y) {
  for (int i = 0; i < 5; ++i) if (A5[i].x == x && A5[i].y == y) return Z5[i];
  return (i64)(((u64)x * 1000003ULL) ^ ((u64)y * 0x9E3779B97F4A7C15ULL)) - 5;  // any other point: mixed sign, large values
}
// D inputs are derived from the integer case: fractions that are ties at precision 2 (both signs),
// round back to the integer alphabet at precision 0 and are exact at precision 3.
static double dx_of(i64 x) { return (double)x + 0.125; }
static double dy_of(i64 y) { return (double)y - 0.375; }

static C2::Point64 mk64(const vf::P& p) {
#ifdef USINGZ
  return C2::Point64(p.x, p.y, zof(p.x, p.y));
#else
  return C2::Point64(p.x, p.y);
#endif
}
static C2::PointD mkD(const vf::P& p) {
#ifdef USINGZ
  return C2::PointD(dx_of(p.x), dy_of(p.y), zof(p.x, p.y));
#else
  return C2::PointD(dx_of(p.x), dy_of(p.y));
#endif
}
static C2::Path64 to64(const vf::Path& p) { C2::Path64 r; r.reserve(p.size()); for (auto& q : p) r.push_back(mk64(q)); return r; }
static C2::Paths64 to64(const vf::Paths& pp) { C2::Paths64 r; r.reserve(pp.size()); for (auto& p : pp) r.push_back(to64(p)); return r; }
static C2::PathD toD(const vf::Path& p) { C2::PathD r; r.reserve(p.size()); for (auto& q : p) r.push_back(mkD(q)); return r; }
static C2::PathsD toD(const vf::Paths& pp) { C2::PathsD r; r.reserve(pp.size()); for (auto& p : pp) r.push_back(toD(p)); return r; }

// ------------------------------------------------------------------------------------------------
// exact comparison, printing, hashing of Clipper paths (z included when USINGZ)
// ------------------------------------------------------------------------------------------------
template <class T> static u64 bits(T v) { u64 b = 0; static_assert(sizeof(T) == 8, ""); memcpy(&b, &v, 8); return b; }
template <class T> static bool pt_eq(const C2::Point<T>& a, const C2::Point<T>& b) {
  if (bits(a.x) != bits(b.x) || bits(a.y) != bits(b.y)) return false;
#ifdef USINGZ
  if (a.z != b.z) return false;
#endif
  return true;
}
template <class T> static bool path_eq(const C2::Path<T>& a, const C2::Path<T>& b) {
  if (a.size() != b.size()) return false;
  for (size_t i = 0; i < a.size(); ++i) if (!pt_eq(a[i], b[i])) return false;
  return true;
}
template <class T> static bool paths_eq(const C2::Paths<T>& a, const C2::Paths<T>& b) {
  if (a.size() != b.size()) return false;
  for (size_t i = 0; i < a.size(); ++i) if (!path_eq(a[i], b[i])) return false;
  return true;
}
static bool within_1ulp(double a, double b) {
  if (bits(a) == bits(b)) return true;
  if (std::isnan(a) || std::isnan(b)) return false;
  return std::nextafter(a, b) == b;
}
// 0 = identical, 1 = same structure and z, every coordinate within 1 ulp, 2 = different
static int cmp_ulp(const C2::PathsD& a, const C2::PathsD& b) {
  if (a.size() != b.size()) return 2;
  int r = 0;
  for (size_t i = 0; i < a.size(); ++i) {
    if (a[i].size() != b[i].size()) return 2;
    for (size_t j = 0; j < a[i].size(); ++j) {
      const auto &p = a[i][j], &q = b[i][j];
#ifdef USINGZ
      if (p.z != q.z) return 2;
#endif
      if (bits(p.x) == bits(q.x) && bits(p.y) == bits(q.y)) continue;
      if (!within_1ulp(p.x, q.x) || !within_1ulp(p.y, q.y)) return 2;
      r = 1;
    }
  }
  return r;
}
static int cmp_ulp(const C2::Paths64& a, const C2::Paths64& b) { return paths_eq(a, b) ? 0 : 2; }

static std::string num(i64 v) { return std::to_string(v); }
static std::string num(double v) { char b[40]; snprintf(b, sizeof b, "%.17g", v); return b; }
template <class T> static std::string ptstr(const C2::Point<T>& p) {
  std::string s = num(p.x) + "," + num(p.y);
#ifdef USINGZ
  s += ",z" + std::to_string(p.z);
#endif
  return s;
}
template <class T> static std::string pstr(const C2::Path<T>& p) { std::string s; for (size_t i = 0; i < p.size(); ++i) { if (i) s += ' '; s += ptstr(p[i]); } return s; }
template <class T> static std::string pstr(const C2::Paths<T>& pp) {
  if (pp.empty()) return "-";
  std::string s; for (size_t i = 0; i < pp.size(); ++i) { if (i) s += ';'; s += pstr(pp[i]); } return s;
}
template <class T> static u64 hpaths(const C2::Paths<T>& pp, u64 h = 1469598103934665603ULL) {
  for (auto& p : pp) {
    h = vf::hmix(h, 0xABCD + p.size());
    for (auto& q : p) {
      h = vf::hmix(h, bits(q.x)); h = vf::hmix(h, bits(q.y));
#ifdef USINGZ
      h = vf::hmix(h, (u64)q.z);
#endif
    }
  }
  return h;
}
template <class T> static C2::Paths<T> drop_empty(const C2::Paths<T>& pp) { C2::Paths<T> r; for (auto& p : pp) if (!p.empty()) r.push_back(p); return r; }
template <class T> static bool has_empty(const C2::Paths<T>& pp) { for (auto& p : pp) if (p.empty()) return true; return false; }

// ------------------------------------------------------------------------------------------------
// hand-built C arrays per the documented layout: exact-size heap blocks
// ------------------------------------------------------------------------------------------------
template <class T> struct CArr {
  T* p = nullptr; size_t len = 0; std::vector<T> copy;
  CArr() = default;
  CArr(const CArr&) = delete; CArr& operator=(const CArr&) = delete;
  CArr(CArr&& o) noexcept : p(o.p), len(o.len), copy(std::move(o.copy)) { o.p = nullptr; }
  CArr& operator=(CArr&& o) noexcept { if (this != &o) { delete[] p; p = o.p; len = o.len; copy = std::move(o.copy); o.p = nullptr; } return *this; }
  ~CArr() { delete[] p; }
  void seal() { copy.assign(p, p + len); }
  bool unchanged() const { return !p || memcmp(p, copy.data(), len * sizeof(T)) == 0; }
};
template <class T> static void put_pt(T*& v, const C2::Point<T>& pt) {
  *v++ = pt.x; *v++ = pt.y;
#ifdef USINGZ
  T zz; memcpy(&zz, &pt.z, 8); *v++ = zz;
#endif
}
// CPaths: A, C, then per path N, 0, vertices. Empty paths are written as "0, 0" entries (keep_empty) or left out.
template <class T> static CArr<T> build_cpaths(const C2::Paths<T>& pp, bool keep_empty) {
  size_t len = 2, cnt = 0;
  for (auto& p : pp) if (keep_empty || !p.empty()) { len += 2 + p.size() * DIM; ++cnt; }
  CArr<T> a; a.len = len; a.p = new T[len];
  T* v = a.p; *v++ = (T)len; *v++ = (T)cnt;
  for (auto& p : pp) if (keep_empty || !p.empty()) { *v++ = (T)p.size(); *v++ = 0; for (auto& q : p) put_pt(v, q); }
  a.seal();
  return a;
}
// CPath: N, 0, vertices
template <class T> static CArr<T> build_cpath(const C2::Path<T>& p) {
  CArr<T> a; a.len = 2 + p.size() * DIM; a.p = new T[a.len];
  T* v = a.p; *v++ = (T)p.size(); *v++ = 0; for (auto& q : p) put_pt(v, q);
  a.seal();
  return a;
}

// ------------------------------------------------------------------------------------------------
// parsers of returned arrays: documented layout, every index bounded by A, allocation == A*8
// ------------------------------------------------------------------------------------------------
template <class T> static bool as_count(T v, size_t& out) {
  if (!(v >= 0) || v > (T)(1 << 30)) return false;
  out = (size_t)v;
  return (T)out == v;
}
template <class T> static C2::Point<T> get_pt(const T* v) {
#ifdef USINGZ
  i64 z; memcpy(&z, v + 2, 8);
  C2::Point<T> p; p.x = v[0]; p.y = v[1]; p.z = z; return p;
#else
  C2::Point<T> p; p.x = v[0]; p.y = v[1]; return p;
#endif
}
// returns "" or the tag of the layout clause that failed
template <class T> static std::string header_check(const T* a, size_t& A) {
  if (!__sanitizer_get_ownership(a)) return "layout_not_heap_block";
  size_t alloc = __sanitizer_get_allocated_size(a);
  if (alloc < 16) return "layout_alloc_size";
  if (!as_count(a[0], A) || A < 2) return "layout_bad_A";
  if (A * sizeof(T) != alloc) return "layout_alloc_size";
  return "";
}
template <class T> static std::string parse_cpaths(const T* a, C2::Paths<T>& out) {
  out.clear();
  size_t A = 0, C = 0;
  std::string e = header_check(a, A);
  if (!e.empty()) return e;
  if (!as_count(a[1], C)) return "layout_bad_C";
  size_t pos = 2;
  for (size_t i = 0; i < C; ++i) {
    if (pos + 2 > A) return "layout_overrun";
    size_t N = 0;
    if (!as_count(a[pos], N)) return "layout_bad_N";
    if (bits(a[pos + 1]) != 0) return "layout_path_second_element_nonzero";
    pos += 2;
    if (pos + N * DIM > A) return "layout_overrun";
    C2::Path<T> p; p.reserve(N);
    for (size_t j = 0; j < N; ++j, pos += DIM) p.push_back(get_pt(a + pos));
    out.push_back(std::move(p));
  }
  if (pos != A) return "layout_A_not_elements_written";
  return "";
}
template <class T> struct TN { C2::Path<T> poly; std::vector<TN<T>> kids; };
template <class T> static std::string parse_node(const T* a, size_t A, size_t& pos, TN<T>& n, int depth) {
  if (depth > 64) return "layout_tree_too_deep";
  if (pos + 2 > A) return "layout_overrun";
  size_t N = 0, C = 0;
  if (!as_count(a[pos], N)) return "layout_bad_N";
  if (!as_count(a[pos + 1], C)) return "layout_bad_C";
  pos += 2;
  if (pos + N * DIM > A) return "layout_overrun";
  n.poly.reserve(N);
  for (size_t j = 0; j < N; ++j, pos += DIM) n.poly.push_back(get_pt(a + pos));
  if (C > A) return "layout_bad_C";
  n.kids.resize(C);
  for (size_t i = 0; i < C; ++i) { std::string e = parse_node(a, A, pos, n.kids[i], depth + 1); if (!e.empty()) return e; }
  return "";
}
template <class T> static std::string parse_ctree(const T* a, TN<T>& root) {
  root = TN<T>();
  size_t A = 0, C = 0;
  std::string e = header_check(a, A);
  if (!e.empty()) return e;
  if (!as_count(a[1], C) || C > A) return "layout_bad_C";
  size_t pos = 2;
  root.kids.resize(C);
  for (size_t i = 0; i < C; ++i) { e = parse_node(a, A, pos, root.kids[i], 1); if (!e.empty()) return e; }
  if (pos != A) return "layout_A_not_elements_written";
  return "";
}
template <class T, class PP> static void native_tree(const PP& pp, TN<T>& n) {
  n.poly = pp.Polygon(); n.kids.resize(pp.Count());
  for (size_t i = 0; i < pp.Count(); ++i) native_tree<T>(*pp.Child(i), n.kids[i]);
}
template <class T> static bool tree_eq(const TN<T>& a, const TN<T>& b) {
  if (!path_eq(a.poly, b.poly) || a.kids.size() != b.kids.size()) return false;
  for (size_t i = 0; i < a.kids.size(); ++i) if (!tree_eq(a.kids[i], b.kids[i])) return false;
  return true;
}
template <class T> static std::string tstr(const TN<T>& n) {
  std::string s = "[" + pstr(n.poly);
  for (auto& k : n.kids) s += " " + tstr(k);
  return s + "]";
}
template <class T> static u64 htree(const TN<T>& n, u64 h) {
  h = vf::hmix(h, 0x7EE + n.kids.size()); C2::Paths<T> one{n.poly}; h = hpaths(one, h);
  for (auto& k : n.kids) h = htree(k, h);
  return h;
}
template <class T> static unsigned tdepth(const TN<T>& n) { unsigned d = 0; for (auto& k : n.kids) d = std::max(d, 1 + tdepth(k)); return d; }
template <class T> static size_t tcount(const TN<T>& n) { size_t c = 0; for (auto& k : n.kids) c += 1 + tcount(k); return c; }

// ------------------------------------------------------------------------------------------------
// cases, keys, violations
// ------------------------------------------------------------------------------------------------
enum Fn { BOOL64, BOOLD, TREE64, TREED, INFS64, INFSD, INF64, INFD, RC64, RCD, RCL64, RCLD, MSUM, MDIFF, RTRIP, FN_COUNT };
static const char* FN_NAME[] = {"BooleanOp64", "BooleanOpD", "BooleanOp_PolyTree64", "BooleanOp_PolyTreeD", "InflatePaths64", "InflatePathsD",
                                "InflatePath64", "InflatePathD", "RectClip64", "RectClipD", "RectClipLines64", "RectClipLinesD",
                                "MinkowskiSum64", "MinkowskiDiff64", "roundtrip"};
static bool fn_isD(int f) { return f == BOOLD || f == TREED || f == INFSD || f == INFD || f == RCD || f == RCLD; }
static bool fn_isbool(int f) { return f <= TREED; }
static bool fn_isinf(int f) { return f >= INFS64 && f <= INFD; }
static bool fn_isrect(int f) { return f >= RC64 && f <= RCLD; }
static int fn_by_name(const std::string& s) { for (int i = 0; i < FN_COUNT; ++i) if (s == FN_NAME[i]) return i; return -1; }

struct Prm {
  int ct = 0, fr = 0, pc = 1, rs = 0, prec = 2, jt = 0, et = 0, closed = 0, zcb = 0, nul = 0, K = 0;
  double delta = 0, ml = 2, at = 0;
  i64 rl = 0, rt = 0, rr = 0, rb = 0;
};
struct Cur { int fn = -1; const vf::Paths *a = nullptr, *b = nullptr, *c = nullptr; Prm p; };
static Cur g_cur;
static vf::Reporter* g_rep = nullptr;
static bool g_verbose = false;
static bool g_d1_present = false;

static std::string key_of(const Cur& c) {
  vf::Case k;
  if (c.fn < 0) return "startup";
  k.set("fn", FN_NAME[c.fn]).set("z", (long long)kZ);
  const Prm& p = c.p;
  static const vf::Paths none;
  if (fn_isbool(c.fn)) {
    k.set("S", c.a ? *c.a : none).set("O", c.b ? *c.b : none).set("C", c.c ? *c.c : none);
    k.set("ct", p.ct).set("fr", p.fr).set("pc", p.pc).set("rs", p.rs);
    if (fn_isD(c.fn)) k.set("prec", p.prec);
    if (p.zcb) k.set("zcb", p.zcb);
    if (p.nul) k.set("nul", p.nul);
  } else if (fn_isinf(c.fn)) {
    k.set("P", c.a ? *c.a : none).set("jt", p.jt).set("et", p.et).setd("delta", p.delta).setd("ml", p.ml).setd("at", p.at).set("rs", p.rs);
    if (fn_isD(c.fn)) k.set("prec", p.prec);
    if (p.nul) k.set("nul", p.nul);
  } else if (fn_isrect(c.fn)) {
    k.set("P", c.a ? *c.a : none);
    k.set("rect", std::to_string(p.rl) + "," + std::to_string(p.rt) + "," + std::to_string(p.rr) + "," + std::to_string(p.rb));
    if (fn_isD(c.fn)) k.set("prec", p.prec);
    if (p.nul) k.set("nul", p.nul);
  } else if (c.fn == MSUM || c.fn == MDIFF) {
    k.set("pat", c.a ? *c.a : none).set("path", c.b ? *c.b : none).set("closed", p.closed);
    if (p.nul) k.set("nul", p.nul);
  } else if (c.fn == RTRIP) {
    k.set("P", c.a ? *c.a : none).set("K", p.K);
  }
  return k.s();
}

// hot counters: resolved once (std::map nodes are stable), so that counting does not allocate
struct Hot {
  u64 *cases, *lib_calls, *compared, *nontrivial, *arrays_parsed, *null_empty, *ulp1, *open_nonempty, *zcb_calls;
  u64* cases_fn[FN_COUNT];
  void init(vf::Reporter& r) {
    cases = &r.ctr["cases"]; lib_calls = &r.ctr["lib_calls"]; compared = &r.ctr["compared"]; nontrivial = &r.ctr["nontrivial"];
    arrays_parsed = &r.ctr["arrays_parsed"]; null_empty = &r.ctr["null_returned_for_empty_result"]; ulp1 = &r.ctr["ulp1_results"];
    open_nonempty = &r.ctr["open_solution_nonempty"]; zcb_calls = &r.ctr["zcallback_invocations"];
    for (int i = 0; i < FN_COUNT; ++i) cases_fn[i] = &r.ctr[std::string("cases.") + FN_NAME[i]];
  }
};
static Hot H;
static const u64 VIOL_CAP = 500;  // violation records kept per tag and shard; every violation is counted in "viol.<tag>"
static std::map<std::string, u64> g_viol_by_tag;
static void viol(const std::string& tag, const std::string& detail) {
  g_rep->add("viol." + tag);
  if (g_viol_by_tag[tag]++ < VIOL_CAP) g_rep->violation("C17", key_of(g_cur), tag, detail.size() > 2000 ? detail.substr(0, 2000) + " ...(truncated)" : detail);
  else g_rep->add("viol_records_beyond_cap." + tag);
  if (g_verbose) printf("  VIOLATION %s: %s\n", tag.c_str(), detail.c_str());
}

// native-result hashes over the parameter grid of one (function, input): used to measure, per
// parameter, in how many cases moving it to its next value changes the native result.
struct Grid {
  std::vector<int> radix; std::vector<const char*> names; std::vector<u64> h; std::vector<char> valid; size_t n = 1;
  void dim(const char* nm, int r) { names.push_back(nm); radix.push_back(r); n *= (size_t)r; }
  void start() { h.assign(n, 0); valid.assign(n, 0); }
  std::array<int, 8> digits(size_t idx) const { std::array<int, 8> d{}; for (size_t i = 0; i < radix.size(); ++i) { d[i] = (int)(idx % radix[i]); idx /= radix[i]; } return d; }
  void set(size_t idx, u64 hh) { h[idx] = hh; valid[idx] = 1; }
  void account(int fn) const {
    size_t stride = 1;
    for (size_t d = 0; d < radix.size(); stride *= (size_t)radix[d], ++d) {
      if (radix[d] < 2) continue;
      u64 diff = 0, pairs = 0;
      for (size_t idx = 0; idx < n; ++idx) {
        int v = (int)((idx / stride) % radix[d]);
        if (v + 1 >= radix[d] || !valid[idx] || !valid[idx + stride]) continue;
        ++pairs; if (h[idx] != h[idx + stride]) ++diff;
      }
      g_rep->add(std::string("sens.") + FN_NAME[fn] + "." + names[d], diff);
      g_rep->add(std::string("sens_pairs.") + FN_NAME[fn] + "." + names[d], pairs);
    }
  }
};

// D1 (DESIGN.md section 5, property C10): an empty path in an open-ended offset group crashes the
// library itself, with or without the export layer. The export and the native call are the same
// crash, so such cases say nothing about C17; they are skipped and counted while the defect is
// present (probed in a child process at start-up, so the cases come back once D1 is fixed).
static bool probe_d1() {
  fflush(nullptr);
  pid_t pid = fork();
  if (pid < 0) return true;
  if (pid == 0) {
    int fd = open("/dev/null", O_WRONLY); if (fd >= 0) { dup2(fd, 1); dup2(fd, 2); }
    for (int s : {SIGSEGV, SIGBUS, SIGFPE, SIGILL, SIGABRT}) signal(s, SIG_DFL);
    for (int et = 1; et <= 4; ++et)
      for (int jt = 0; jt < 4; ++jt) {
        C2::ClipperOffset co; co.AddPath(C2::Path64(), C2::JoinType(jt), C2::EndType(et)); C2::Paths64 r; co.Execute(2.5, r);
        C2::ClipperOffset co2; co2.AddPaths(C2::Paths64{C2::Path64(), to64(vf::Path{A5[0], A5[1], A5[2]})}, C2::JoinType(jt), C2::EndType(et)); co2.Execute(-3, r);
      }
    _exit(0);
  }
  int st = 0; waitpid(pid, &st, 0);
  return !(WIFEXITED(st) && WEXITSTATUS(st) == 0);
}

#ifdef USINGZ
static i64 zmix(i64 a, i64 b, i64 c, i64 d) { return (i64)(((u64)a * 3u) ^ ((u64)b << 1) ^ ((u64)c * 5u + 11u) ^ ~(u64)d); }
static void zcb64(const C2::Point64& a, const C2::Point64& b, const C2::Point64& c, const C2::Point64& d, C2::Point64& pt) { pt.z = zmix(a.z, b.z, c.z, d.z); ++*H.zcb_calls; }
static void zcbD(const C2::PointD& a, const C2::PointD& b, const C2::PointD& c, const C2::PointD& d, C2::PointD& pt) { pt.z = (i64)((u64)zmix(a.z, b.z, c.z, d.z) - 1u); ++*H.zcb_calls; }
#endif

// checks a returned CPaths array against the native result (empty paths dropped by design).
// Returns 0 equal, 1 equal within 1 ulp, 2 different content, 3 layout violation (already reported), 4 null although non-empty expected
template <class T> static int check_cpaths(const char* what, const T* arr, const C2::Paths<T>& native, C2::Paths<T>& got) {
  C2::Paths<T> tmp;
  const bool he = has_empty(native);
  if (he) tmp = drop_empty(native);
  const C2::Paths<T>& want = he ? tmp : native;
  got.clear();
  if (!arr) {
    if (want.empty()) { ++*H.null_empty; return 0; }
    return 4;
  }
  std::string e = parse_cpaths(arr, got);
  if (!e.empty()) { viol(e, std::string(what) + ": returned array does not parse by the documented layout (" + e + "), A=" + num(arr[0]) + " alloc=" + std::to_string(__sanitizer_get_allocated_size(arr))); return 3; }
  ++*H.arrays_parsed;
  return cmp_ulp(got, want);
}

// ------------------------------------------------------------------------------------------------
// BooleanOp64 / BooleanOpD / BooleanOp_PolyTree64 / BooleanOp_PolyTreeD
// ------------------------------------------------------------------------------------------------
template <class T> struct SideIn { C2::Paths<T> s, o, c; CArr<T> as, ao, ac; };
struct BoolIn {
  vf::Paths S, O, C;
  SideIn<i64> i; SideIn<double> d;
  void prep() {
    i.s = to64(S); i.o = to64(O); i.c = to64(C); d.s = toD(S); d.o = toD(O); d.c = toD(C);
    i.as = build_cpaths(i.s, true); i.ao = build_cpaths(i.o, true); i.ac = build_cpaths(i.c, true);
    d.as = build_cpaths(d.s, true); d.ao = build_cpaths(d.o, true); d.ac = build_cpaths(d.c, true);
  }
  template <class T> SideIn<T>& side();
};
template <> SideIn<i64>& BoolIn::side<i64>() { return i; }
template <> SideIn<double>& BoolIn::side<double>() { return d; }

struct Res { u64 h = 0; bool nontrivial = false; bool ran = true; };

static void dispose(i64*& p) { if (p) { C2::DisposeArray64(p); p = nullptr; } }
static void dispose(double*& p) { if (p) { C2::DisposeArrayD(p); p = nullptr; } }

template <class T> static void flatten(const TN<T>& n, C2::Paths<T>& out) { for (auto& k : n.kids) { out.push_back(k.poly); flatten(k, out); } }

template <class T> static Res run_bool(int fn, BoolIn& in, const Prm& p) {
  constexpr bool D = std::is_same<T, double>::value;
  using Clipper = typename std::conditional<D, C2::ClipperD, C2::Clipper64>::type;
  using Tree = typename std::conditional<D, C2::PolyTreeD, C2::PolyTree64>::type;
  const bool tree = (fn == TREE64 || fn == TREED);
  SideIn<T>& sd = in.side<T>();
  vf::Reporter& rep = *g_rep;
  g_cur.fn = fn; g_cur.a = &in.S; g_cur.b = &in.O; g_cur.c = &in.C; g_cur.p = p;
  const char* const Fc = FN_NAME[fn]; (void)Fc;
  ++*H.cases; ++*H.cases_fn[fn];

  // ---- native reference
  std::unique_ptr<Clipper> c;
  if constexpr (D) c.reset(new C2::ClipperD(p.prec)); else c.reset(new C2::Clipper64());
  c->PreserveCollinear(p.pc != 0); c->ReverseSolution(p.rs != 0);
#ifdef USINGZ
  if (p.zcb) { if constexpr (D) c->SetZCallback(zcbD); else c->SetZCallback(zcb64); }
#endif
  if (sd.s.size() > 0) c->AddSubject(sd.s);
  if (sd.o.size() > 0) c->AddOpenSubject(sd.o);
  if (sd.c.size() > 0) c->AddClip(sd.c);
  C2::Paths<T> nsol, nopen; Tree ntree; bool ok;
  if (tree) ok = c->Execute(C2::ClipType(p.ct), C2::FillRule(p.fr), ntree, nopen);
  else ok = c->Execute(C2::ClipType(p.ct), C2::FillRule(p.fr), nsol, nopen);
  ++*H.lib_calls;
  TN<T> nt; if (tree) native_tree<T>(ntree, nt);

  // ---- export call
  T* ps = (p.nul && sd.s.empty()) ? nullptr : sd.as.p;
  T* po = (p.nul && sd.o.empty()) ? nullptr : sd.ao.p;
  T* pc = (p.nul && sd.c.empty()) ? nullptr : sd.ac.p;
  T* sol = nullptr; T* solo = nullptr; int rc;
#ifdef USINGZ
  if (p.zcb) { if constexpr (D) C2::SetZCallbackD(zcbD); else C2::SetZCallback64(zcb64); }
#endif
  if constexpr (D) {
    if (tree) rc = C2::BooleanOp_PolyTreeD((uint8_t)p.ct, (uint8_t)p.fr, ps, po, pc, sol, solo, p.prec, p.pc != 0, p.rs != 0);
    else rc = C2::BooleanOpD((uint8_t)p.ct, (uint8_t)p.fr, ps, po, pc, sol, solo, p.prec, p.pc != 0, p.rs != 0);
  } else {
    if (tree) rc = C2::BooleanOp_PolyTree64((uint8_t)p.ct, (uint8_t)p.fr, ps, po, pc, sol, solo, p.pc != 0, p.rs != 0);
    else rc = C2::BooleanOp64((uint8_t)p.ct, (uint8_t)p.fr, ps, po, pc, sol, solo, p.pc != 0, p.rs != 0);
  }
#ifdef USINGZ
  if (p.zcb) { if constexpr (D) C2::SetZCallbackD(nullptr); else C2::SetZCallback64(nullptr); }
#endif
  ++*H.lib_calls;

  // ---- judge
  ++*H.compared;
  if (rc != (ok ? 0 : -1)) viol(std::string(Fc) + "_return_code", "returned " + std::to_string(rc) + ", native Execute returned " + (ok ? "true" : "false"));
  if (rc == 0) {
    C2::Paths<T> got;
    if (tree) {
      TN<T> gt;
      if (!sol) { if (!nt.kids.empty()) viol(std::string(Fc) + "_null_result", "null polytree array, native tree=" + tstr(nt)); else ++*H.null_empty; }
      else {
        std::string e = parse_ctree(sol, gt);
        if (!e.empty()) viol(e, "polytree array does not parse by the documented layout (" + e + "), A=" + num(sol[0]) + " alloc=" + std::to_string(__sanitizer_get_allocated_size(sol)));
        else { ++*H.arrays_parsed; { static u64* c = &rep.ctr["tree_arrays_parsed"]; ++*c; } if (!tree_eq(gt, nt)) viol(std::string(Fc) + "_tree_mismatch", "export tree=" + tstr(gt) + " native tree=" + tstr(nt)); }
      }
      static u64 *mxd = &rep.mx["polytree_depth"], *mxn = &rep.mx["polytree_nodes"], *ge3 = &rep.ctr["polytree_depth_ge3"];
      unsigned dep = tdepth(nt); size_t cnt = tcount(nt);
      if (*mxd < dep) *mxd = dep;
      if (*mxn < cnt) *mxn = cnt;
      if (dep >= 3) ++*ge3;
    } else {
      int r = check_cpaths("solution", sol, nsol, got);
      if (r == 1) ++*H.ulp1;
      if (r == 2) viol(std::string(Fc) + "_solution_mismatch", "export=" + pstr(got) + " native=" + pstr(nsol));
      if (r == 4) viol(std::string(Fc) + "_null_result", "null solution, native=" + pstr(nsol));
    }
    int r = check_cpaths("solution_open", solo, nopen, got);
    if (r == 1) ++*H.ulp1;
    if (r == 2) viol(std::string(Fc) + "_open_solution_mismatch", "export open=" + pstr(got) + " native open=" + pstr(nopen));
    if (r == 4) viol(std::string(Fc) + "_null_result", "null open solution, native open=" + pstr(nopen));
  }
  dispose(sol); dispose(solo);
  if (!sd.as.unchanged() || !sd.ao.unchanged() || !sd.ac.unchanged()) viol("input_array_modified", std::string("an input array was written to by ") + Fc);

  Res res;
  C2::Paths<T> flat; if (tree) flatten(nt, flat); else flat = nsol;
  res.h = tree ? htree(nt, 77) : hpaths(nsol, 77); res.h = hpaths(nopen, vf::hmix(res.h, ok));
  res.nontrivial = (!flat.empty() || !nopen.empty()) && !paths_eq(flat, drop_empty(sd.s)) && !paths_eq(flat, drop_empty(sd.c));
  if (res.nontrivial) ++*H.nontrivial;
  if (!nopen.empty()) ++*H.open_nonempty;
  rep.outcome(vf::hmix(res.h, fn));
  if (g_verbose) {
    if (tree) printf("  native tree=%s open=%s\n", tstr(nt).c_str(), pstr(nopen).c_str());
    else printf("  native solution=%s open=%s\n", pstr(nsol).c_str(), pstr(nopen).c_str());
  }
  return res;
}

// hash of the native result only (no export call): used for the argument-sensitivity probes
template <class T> static u64 native_bool_hash(const C2::Paths<T>& s, const C2::Paths<T>& o, const C2::Paths<T>& cl, int ct, int fr, int prec) {
  constexpr bool D = std::is_same<T, double>::value;
  using Clipper = typename std::conditional<D, C2::ClipperD, C2::Clipper64>::type;
  std::unique_ptr<Clipper> c;
  if constexpr (D) c.reset(new C2::ClipperD(prec)); else c.reset(new C2::Clipper64());
  if (s.size() > 0) c->AddSubject(s);
  if (o.size() > 0) c->AddOpenSubject(o);
  if (cl.size() > 0) c->AddClip(cl);
  C2::Paths<T> a, b; c->Execute(C2::ClipType(ct), C2::FillRule(fr), a, b);
  ++*H.lib_calls;
  return hpaths(b, hpaths(a, 5));
}

static void bool_input(BoolIn& in, const std::vector<int>& fns, bool with_zcb) {
  in.prep();
  for (int fn : fns) {
    Grid g; g.dim("cliptype", 5); g.dim("fillrule", 4); g.dim("preserve_collinear", 2); g.dim("reverse_solution", 2);
    g.dim("precision", fn_isD(fn) ? 3 : 1); g.dim("zcallback", (kZ && with_zcb) ? 2 : 1);
    g.start();
    static const int PREC[3] = {0, 2, 3};
    for (size_t idx = 0; idx < g.n; ++idx) {
      auto d = g.digits(idx);
      Prm p; p.ct = d[0]; p.fr = d[1]; p.pc = d[2]; p.rs = d[3]; p.prec = PREC[d[4]]; p.zcb = d[5];
      Res r = fn_isD(fn) ? run_bool<double>(fn, in, p) : run_bool<i64>(fn, in, p);
      g.set(idx, r.h);
    }
    g.account(fn);
  }
  // which of the three array arguments matter (and their order): native results only
  for (int ct : {1, 3}) {
    u64 base = native_bool_hash<i64>(in.i.s, in.i.o, in.i.c, ct, 1, 0);
    C2::Paths64 none;
    if (native_bool_hash<i64>(none, in.i.o, in.i.c, ct, 1, 0) != base) g_rep->add("sens.Boolean.subjects_dropped");
    if (native_bool_hash<i64>(in.i.s, none, in.i.c, ct, 1, 0) != base) g_rep->add("sens.Boolean.subjects_open_dropped");
    if (native_bool_hash<i64>(in.i.s, in.i.o, none, ct, 1, 0) != base) g_rep->add("sens.Boolean.clips_dropped");
    if (native_bool_hash<i64>(in.i.c, in.i.o, in.i.s, ct, 1, 0) != base) g_rep->add("sens.Boolean.subjects_clips_swapped");
    if (native_bool_hash<i64>(in.i.s, in.i.c, in.i.o, ct, 1, 0) != base) g_rep->add("sens.Boolean.open_clips_swapped");
  }
  g_rep->add("inputs.Boolean");
}

// ------------------------------------------------------------------------------------------------
// InflatePaths64 / InflatePathsD / InflatePath64 / InflatePathD
// ------------------------------------------------------------------------------------------------
struct PathsIn {
  vf::Paths P;
  C2::Paths64 p64; C2::PathsD pD;
  CArr<i64> a64, a1_64; CArr<double> aD, a1_D;
  void prep() {
    p64 = to64(P); pD = toD(P);
    a64 = build_cpaths(p64, true); aD = build_cpaths(pD, true);
    a1_64 = build_cpath(p64.empty() ? C2::Path64() : p64[0]); a1_D = build_cpath(pD.empty() ? C2::PathD() : pD[0]);
  }
};

// reference: ClipperOffset(miter_limit, arc_tolerance, preserve_collinear, reverse_solution) + AddPath(s) + Execute(delta)
static C2::Paths64 offset64(const C2::Paths64& pp, bool single, int jt, int et, double delta, double ml, double at, bool pcflag, bool rsflag) {
  C2::ClipperOffset co(ml, at, pcflag, rsflag);
  if (single) co.AddPath(pp.empty() ? C2::Path64() : pp[0], C2::JoinType(jt), C2::EndType(et));
  else co.AddPaths(pp, C2::JoinType(jt), C2::EndType(et));
  C2::Paths64 r; co.Execute(delta, r);
  ++*H.lib_calls;
  return r;
}
// D reference mirrors InflatePaths(PathsD): paths, delta and arc tolerance scaled by 10^precision, result descaled by 1/scale
static C2::PathsD offsetD(const C2::PathsD& pp, bool single, int jt, int et, double delta, double ml, double at, int prec, bool pcflag, bool rsflag, bool scale_at) {
  const double scale = std::pow(10, prec);
  int ec = 0;
  C2::Paths64 in64 = C2::ScalePaths<int64_t, double>(pp, scale, ec);
  C2::Paths64 r = offset64(in64, single, jt, et, delta * scale, ml, scale_at ? at * scale : at, pcflag, rsflag);
  return C2::ScalePaths<double, int64_t>(r, 1 / scale, ec);
}

template <class T> static Res run_inflate(int fn, PathsIn& in, const Prm& p) {
  constexpr bool D = std::is_same<T, double>::value;
  const bool single = (fn == INF64 || fn == INFD);
  vf::Reporter& rep = *g_rep;
  g_cur.fn = fn; g_cur.a = &in.P; g_cur.b = g_cur.c = nullptr; g_cur.p = p;
  const char* const Fc = FN_NAME[fn]; (void)Fc;
  const double scale = D ? std::pow(10, p.prec) : 1.0;
  Res res;
  bool empty_path_in_group = single ? (in.P.empty() || in.P[0].empty()) : has_empty(in.p64);
  if (g_d1_present && empty_path_in_group && p.et != 0 && std::fabs(p.delta * scale) >= 0.5) { rep.add("skipped_D1_empty_path_in_open_offset"); res.ran = false; return res; }
  ++*H.cases; ++*H.cases_fn[fn];

  C2::Paths<T> ref, got;
  T* out = nullptr;
  if constexpr (D) {
    ref = offsetD(in.pD, single, p.jt, p.et, p.delta, p.ml, p.at, p.prec, false, p.rs != 0, true);
    if (single) out = C2::InflatePathD(p.nul ? nullptr : in.a1_D.p, p.delta, (uint8_t)p.jt, (uint8_t)p.et, p.prec, p.ml, p.at, p.rs != 0);
    else out = C2::InflatePathsD(p.nul ? nullptr : in.aD.p, p.delta, (uint8_t)p.jt, (uint8_t)p.et, p.prec, p.ml, p.at, p.rs != 0);
  } else {
    ref = offset64(in.p64, single, p.jt, p.et, p.delta, p.ml, p.at, false, p.rs != 0);
    if (single) out = C2::InflatePath64(p.nul ? nullptr : in.a1_64.p, p.delta, (uint8_t)p.jt, (uint8_t)p.et, p.ml, p.at, p.rs != 0);
    else out = C2::InflatePaths64(p.nul ? nullptr : in.a64.p, p.delta, (uint8_t)p.jt, (uint8_t)p.et, p.ml, p.at, p.rs != 0);
  }
  ++*H.lib_calls; ++*H.compared;
  int r = check_cpaths("result", out, ref, got);
  if (r == 1) ++*H.ulp1;
  if (r == 4) viol(std::string(Fc) + "_null_result", "null result, reference=" + pstr(ref));
  if (r == 2) {
    // which of the two documented defects (and nothing else) explains the difference?
    auto model = [&](bool d4, bool d5) -> C2::Paths<T> {
      bool pcf = d4 ? (p.rs != 0) : false, rsf = d4 ? false : (p.rs != 0);
      if constexpr (D) return offsetD(in.pD, single, p.jt, p.et, p.delta, p.ml, p.at, p.prec, pcf, rsf, !d5);
      else return offset64(in.p64, single, p.jt, p.et, p.delta, p.ml, p.at, pcf, rsf);
    };
    std::string want = " export=" + pstr(got) + " reference=" + pstr(ref);
    if (p.rs && cmp_ulp(got, drop_empty(model(true, false))) <= 1)
      viol("inflate_reverse_solution_dropped", std::string(Fc) + ": result equals ClipperOffset(miter_limit, arc_tolerance, preserve_collinear=reverse_solution, reverse_solution=false);" + want);
    else if (D && cmp_ulp(got, drop_empty(model(false, true))) <= 1)
      viol("inflateD_arc_tolerance_unscaled", std::string(Fc) + ": result equals the offset computed with arc_tolerance not multiplied by 10^precision;" + want);
    else if (D && p.rs && cmp_ulp(got, drop_empty(model(true, true))) <= 1) {
      viol("inflate_reverse_solution_dropped", std::string(Fc) + ": result equals the offset with reverse_solution in the preserve_collinear position AND arc_tolerance unscaled;" + want);
      viol("inflateD_arc_tolerance_unscaled", std::string(Fc) + ": result equals the offset with reverse_solution in the preserve_collinear position AND arc_tolerance unscaled;" + want);
    } else
      viol(std::string(Fc) + "_result_mismatch", want);
  }
  dispose(out);
  if (!in.a64.unchanged() || !in.aD.unchanged() || !in.a1_64.unchanged() || !in.a1_D.unchanged()) viol("input_array_modified", std::string("an input array was written to by ") + Fc);

  res.h = hpaths(ref, 99);
  bool same_as_input;
  if constexpr (D) same_as_input = paths_eq(ref, drop_empty(single && in.pD.size() > 1 ? C2::PathsD{in.pD[0]} : in.pD));
  else same_as_input = paths_eq(ref, drop_empty(single && in.p64.size() > 1 ? C2::Paths64{in.p64[0]} : in.p64));
  res.nontrivial = !ref.empty() && !same_as_input;
  if (res.nontrivial) ++*H.nontrivial;
  rep.outcome(vf::hmix(res.h, fn));
  if (g_verbose) printf("  reference=%s\n", pstr(ref).c_str());
  return res;
}

static const double DELTAS[3] = {-3, 0, 2.5};
static const double MLS[2] = {1.5, 3};
static const double ATS[2] = {0, 0.5};
static const int PRECS[3] = {0, 2, 3};

static void inflate_input(PathsIn& in, const std::vector<int>& fns) {
  in.prep();
  for (int fn : fns) {
    Grid g; g.dim("jointype", 4); g.dim("endtype", 5); g.dim("delta", 3); g.dim("miter_limit", 2); g.dim("arc_tolerance", 2); g.dim("reverse_solution", 2);
    g.dim("precision", fn_isD(fn) ? 3 : 1);
    g.start();
    for (size_t idx = 0; idx < g.n; ++idx) {
      auto d = g.digits(idx);
      Prm p; p.jt = d[0]; p.et = d[1]; p.delta = DELTAS[d[2]]; p.ml = MLS[d[3]]; p.at = ATS[d[4]]; p.rs = d[5]; p.prec = PRECS[d[6]];
      Res r = fn_isD(fn) ? run_inflate<double>(fn, in, p) : run_inflate<i64>(fn, in, p);
      if (r.ran) g.set(idx, r.h);
    }
    g.account(fn);
  }
  g_rep->add("inputs.Inflate");
}

// ------------------------------------------------------------------------------------------------
// RectClip64 / RectClipD / RectClipLines64 / RectClipLinesD
// ------------------------------------------------------------------------------------------------
struct RectI { i64 l, t, r, b; };
// interior cut (asymmetric), contains everything, empty (right < left), edges through alphabet points
static const RectI RECTS[4] = {{-4, -2, 7, 11}, {-20, -20, 30, 30}, {3, 3, 1, 9}, {-10, -6, 0, 4}};
static C2::RectD rectD_of(const Prm& p) { return C2::RectD((double)p.rl - 0.375, (double)p.rt - 0.125, (double)p.rr + 0.625, (double)p.rb + 0.5); }

template <class T> static Res run_rect(int fn, PathsIn& in, const Prm& p) {
  constexpr bool D = std::is_same<T, double>::value;
  const bool lines = (fn == RCL64 || fn == RCLD);
  vf::Reporter& rep = *g_rep;
  g_cur.fn = fn; g_cur.a = &in.P; g_cur.b = g_cur.c = nullptr; g_cur.p = p;
  const char* const Fc = FN_NAME[fn]; (void)Fc;
  ++*H.cases; ++*H.cases_fn[fn];
  C2::Paths<T> ref, got; T* out = nullptr;
  if constexpr (D) {
    C2::RectD r = rectD_of(p);
    C2::CRectD cr{r.left, r.top, r.right, r.bottom};
    ref = lines ? C2::RectClipLines(r, in.pD, p.prec) : C2::RectClip(r, in.pD, p.prec);
    out = lines ? C2::RectClipLinesD(cr, p.nul ? nullptr : in.aD.p, p.prec) : C2::RectClipD(cr, p.nul ? nullptr : in.aD.p, p.prec);
  } else {
    C2::Rect64 r(p.rl, p.rt, p.rr, p.rb);
    C2::CRect64 cr{p.rl, p.rt, p.rr, p.rb};
    ref = lines ? C2::RectClipLines(r, in.p64) : C2::RectClip(r, in.p64);
    out = lines ? C2::RectClipLines64(cr, p.nul ? nullptr : in.a64.p) : C2::RectClip64(cr, p.nul ? nullptr : in.a64.p);
  }
  if (p.nul) ref.clear();  // a null array is "no paths"
  *H.lib_calls += 2; ++*H.compared;
  int r = check_cpaths("result", out, ref, got);
  if (r == 1) ++*H.ulp1;
  if (r == 2) viol(std::string(Fc) + "_result_mismatch", "export=" + pstr(got) + " native=" + pstr(ref));
  if (r == 4) viol(std::string(Fc) + "_null_result", "null result, native=" + pstr(ref));
  dispose(out);
  if (!in.a64.unchanged() || !in.aD.unchanged()) viol("input_array_modified", std::string("an input array was written to by ") + Fc);
  Res res; res.h = hpaths(ref, 31);
  bool same;
  if constexpr (D) same = paths_eq(ref, drop_empty(in.pD)); else same = paths_eq(ref, drop_empty(in.p64));
  res.nontrivial = !ref.empty() && !same;
  if (res.nontrivial) ++*H.nontrivial;
  rep.outcome(vf::hmix(res.h, fn));
  if (g_verbose) printf("  native=%s\n", pstr(ref).c_str());
  return res;
}

static void rect_input(PathsIn& in) {
  in.prep();
  u64 hh[4][12];
  for (int fn = RC64; fn <= RCLD; ++fn) {
    Grid g; g.dim("rect", 4); g.dim("precision", fn_isD(fn) ? 3 : 1); g.start();
    for (size_t idx = 0; idx < g.n; ++idx) {
      auto d = g.digits(idx);
      Prm p; p.rl = RECTS[d[0]].l; p.rt = RECTS[d[0]].t; p.rr = RECTS[d[0]].r; p.rb = RECTS[d[0]].b; p.prec = PRECS[d[1]];
      Res r = fn_isD(fn) ? run_rect<double>(fn, in, p) : run_rect<i64>(fn, in, p);
      g.set(idx, r.h); hh[fn - RC64][idx] = r.h;
    }
    g.account(fn);
  }
  // is the polygon clipper distinguishable from the line clipper on this input?
  for (int i = 0; i < 4; ++i) if (hh[0][i] != hh[2][i]) g_rep->add("sens.RectClip64.polygons_vs_lines");
  for (int i = 0; i < 12; ++i) if (hh[1][i] != hh[3][i]) g_rep->add("sens.RectClipD.polygons_vs_lines");
  g_rep->add("inputs.Rect");
}

// ------------------------------------------------------------------------------------------------
// MinkowskiSum64 / MinkowskiDiff64
// ------------------------------------------------------------------------------------------------
struct MinkIn {
  vf::Paths PAT, PATH;  // one path each
  C2::Path64 pat, path; CArr<i64> apat, apath;
  void prep() { pat = to64(PAT.empty() ? vf::Path() : PAT[0]); path = to64(PATH.empty() ? vf::Path() : PATH[0]); apat = build_cpath(pat); apath = build_cpath(path); }
};
static Res run_mink(int fn, MinkIn& in, const Prm& p) {
  vf::Reporter& rep = *g_rep;
  g_cur.fn = fn; g_cur.a = &in.PAT; g_cur.b = &in.PATH; g_cur.c = nullptr; g_cur.p = p;
  const char* const Fc = FN_NAME[fn]; (void)Fc;
  ++*H.cases; ++*H.cases_fn[fn];
  C2::Paths64 ref = (fn == MSUM) ? C2::MinkowskiSum(in.pat, in.path, p.closed != 0) : C2::MinkowskiDiff(in.pat, in.path, p.closed != 0);
  if (p.nul) ref = (fn == MSUM) ? C2::MinkowskiSum(C2::Path64(), C2::Path64(), p.closed != 0) : C2::MinkowskiDiff(C2::Path64(), C2::Path64(), p.closed != 0);
  C2::CPath64 cpat = p.nul ? nullptr : in.apat.p, cpath = p.nul ? nullptr : in.apath.p;
  i64* out = (fn == MSUM) ? C2::MinkowskiSum64(cpat, cpath, p.closed != 0) : C2::MinkowskiDiff64(cpat, cpath, p.closed != 0);
  *H.lib_calls += 2; ++*H.compared;
  C2::Paths64 got;
  int r = check_cpaths("result", out, ref, got);
  if (r == 2) viol(std::string(Fc) + "_result_mismatch", "export=" + pstr(got) + " native=" + pstr(ref));
  if (r == 4) viol(std::string(Fc) + "_null_result", "null result, native=" + pstr(ref));
  dispose(out);
  if (!in.apat.unchanged() || !in.apath.unchanged()) viol("input_array_modified", std::string("an input array was written to by ") + Fc);
  Res res; res.h = hpaths(ref, 13);
  res.nontrivial = !ref.empty() && !paths_eq(ref, C2::Paths64{in.path}) && !paths_eq(ref, C2::Paths64{in.pat});
  if (res.nontrivial) ++*H.nontrivial;
  rep.outcome(vf::hmix(res.h, fn));
  if (g_verbose) printf("  native=%s\n", pstr(ref).c_str());
  return res;
}
static void mink_input(MinkIn& in) {
  in.prep();
  u64 h[2][2];
  for (int fn : {MSUM, MDIFF}) {
    Grid g; g.dim("is_closed", 2); g.start();
    for (int cl = 0; cl < 2; ++cl) { Prm p; p.closed = cl; Res r = run_mink(fn, in, p); g.set(cl, r.h); h[fn - MSUM][cl] = r.h; }
    g.account(fn);
  }
  for (int cl = 0; cl < 2; ++cl) {
    if (h[0][cl] != h[1][cl]) g_rep->add("sens.Minkowski.sum_vs_diff");
    *H.lib_calls += 2;
    if (hpaths(C2::MinkowskiSum(in.path, in.pat, cl != 0), 13) != h[0][cl]) g_rep->add("sens.MinkowskiSum64.pattern_path_swapped");
    if (hpaths(C2::MinkowskiDiff(in.path, in.pat, cl != 0), 13) != h[1][cl]) g_rep->add("sens.MinkowskiDiff64.pattern_path_swapped");
  }
  g_rep->add("inputs.Minkowski");
}

// ------------------------------------------------------------------------------------------------
// round trip of the conversion helpers (oracles a, b, e)
// ------------------------------------------------------------------------------------------------
// value alphabet: points are named by their index i and written (i,i) in the case string
static const i64 RT64[3][3] = {{INT64_MIN, INT64_MAX, -1}, {-3, 5, INT64_MIN}, {((i64)1 << 53) + 1, -((i64)1 << 62) - 7, (i64)0x7FF0000000000001LL}};
static const double RTD[3][2] = {{-0.0, 1e300}, {0.1, -2.5e-3}, {4.9e-324, -1e-300}};
static C2::Point64 rt64(int i) { C2::Point64 p; p.x = RT64[i][0]; p.y = RT64[i][1];
#ifdef USINGZ
  p.z = RT64[i][2];
#endif
  return p; }
static C2::PointD rtD(int i) { C2::PointD p; p.x = RTD[i][0]; p.y = RTD[i][1];
#ifdef USINGZ
  p.z = RT64[i][2];
#endif
  return p; }

template <class T> static bool arr_eq(const T* a, const CArr<T>& b) { return memcmp(a, b.p, b.len * sizeof(T)) == 0; }

static void roundtrip_case(const vf::Paths& X, int K) {
  vf::Reporter& rep = *g_rep;
  Prm p; p.K = K;
  g_cur.fn = RTRIP; g_cur.a = &X; g_cur.b = g_cur.c = nullptr; g_cur.p = p;
  ++*H.cases; ++*H.cases_fn[RTRIP]; ++*H.compared;
  C2::Paths64 x64, s64; C2::PathsD xD;
  for (auto& path : X) {
    C2::Path64 a, s; C2::PathD b;
    for (auto& q : path) { int i = (int)q.x; if (i < 0 || i > 2) i = 0; a.push_back(rt64(i)); b.push_back(rtD(i)); s.push_back(mk64(A5[i])); }
    x64.push_back(a); xD.push_back(b); s64.push_back(s);
  }
  const C2::Paths64 ne64 = drop_empty(x64), nes64 = drop_empty(s64); const C2::PathsD neD = drop_empty(xD);
  bool mixed = !ne64.empty() && ne64.size() != x64.size();
  if (mixed) rep.add("roundtrip_sets_mixing_empty_and_nonempty_paths");
  if (g_verbose) printf("  int64 set=%s\n  double set=%s\n", pstr(x64).c_str(), pstr(xD).c_str());

  // -- int64: library Create -> layout -> library Convert
  {
    CArr<i64> mine_drop = build_cpaths(x64, false), mine_keep = build_cpaths(x64, true);
    i64* c = C2::CreateCPathsFromPathsT<int64_t>(x64); ++*H.lib_calls;
    C2::Paths64 got;
    int r = check_cpaths("CreateCPathsFromPathsT<int64_t>", c, x64, got);
    if (r == 2 || r == 4) viol("roundtrip_create64", "CreateCPathsFromPathsT<int64_t> wrote " + pstr(got) + " for " + pstr(x64));
    else if (r == 0 && c && !arr_eq(c, mine_drop)) viol("roundtrip_create64_array_differs", "array differs element-wise from the documented layout for " + pstr(x64));
    if (c) {
      C2::Paths64 back = C2::ConvertCPathsToPathsT<int64_t>(c); ++*H.lib_calls;
      if (!paths_eq(back, ne64)) viol("roundtrip_convert_create64", "Convert(Create(x))=" + pstr(back) + " x=" + pstr(x64));
    }
    dispose(c);
    // hand-built arrays (empty paths left out / kept as "0,0" entries) -> library Convert
    C2::Paths64 b1 = C2::ConvertCPathsToPathsT<int64_t>(mine_drop.p), b2 = C2::ConvertCPathsToPathsT<int64_t>(mine_keep.p); *H.lib_calls += 2;
    if (!paths_eq(b1, ne64)) viol("roundtrip_convert64", "ConvertCPathsToPathsT(hand-built array)=" + pstr(b1) + " x=" + pstr(x64));
    if (!paths_eq(drop_empty(b2), ne64)) viol("roundtrip_convert64_empty_entries", "ConvertCPathsToPathsT(array with N=0 entries)=" + pstr(b2) + " x=" + pstr(x64));
    if (paths_eq(b2, x64)) rep.add("roundtrip_empty_entries_preserved");
    if (!mine_drop.unchanged() || !mine_keep.unchanged()) viol("input_array_modified", "ConvertCPathsToPathsT wrote to its input");
    C2::Paths64 nul = C2::ConvertCPathsToPathsT<int64_t>((i64*)nullptr);
    if (!nul.empty()) viol("roundtrip_null", "ConvertCPathsToPathsT(nullptr) is not empty");
    for (auto& path : x64) {
      CArr<i64> one = build_cpath(path);
      C2::Path64 bp = C2::ConvertCPathToPathT<int64_t>(one.p); ++*H.lib_calls;
      if (!path_eq(bp, path)) viol("roundtrip_convert_path64", "ConvertCPathToPathT=" + pstr(bp) + " path=" + pstr(path));
    }
  }
  // -- double
  {
    CArr<double> mine_drop = build_cpaths(xD, false), mine_keep = build_cpaths(xD, true);
    for (int which = 0; which < 2; ++which) {
      double* c = which ? C2::CreateCPathsFromPathsT<double>(xD) : C2::CreateCPathsDFromPathsD(xD); ++*H.lib_calls;
      const char* nm = which ? "CreateCPathsFromPathsT<double>" : "CreateCPathsDFromPathsD";
      C2::PathsD got;
      int r = check_cpaths(nm, c, xD, got);
      if (r == 1 || r == 2 || r == 4) viol("roundtrip_createD", std::string(nm) + " wrote " + pstr(got) + " for " + pstr(xD));
      else if (r == 0 && c && !arr_eq(c, mine_drop)) viol("roundtrip_createD_array_differs", std::string(nm) + ": array differs element-wise from the documented layout for " + pstr(xD));
      if (c) {
        C2::PathsD back = C2::ConvertCPathsToPathsT<double>(c); ++*H.lib_calls;
        if (!paths_eq(back, neD)) viol("roundtrip_convert_createD", "Convert(Create(x))=" + pstr(back) + " x=" + pstr(xD));
      }
      dispose(c);
    }
    C2::PathsD b1 = C2::ConvertCPathsToPathsT<double>(mine_drop.p), b2 = C2::ConvertCPathsToPathsT<double>(mine_keep.p); *H.lib_calls += 2;
    if (!paths_eq(b1, neD)) viol("roundtrip_convertD", "ConvertCPathsToPathsT(hand-built array)=" + pstr(b1) + " x=" + pstr(xD));
    if (!paths_eq(drop_empty(b2), neD)) viol("roundtrip_convertD_empty_entries", "ConvertCPathsToPathsT(array with N=0 entries)=" + pstr(b2) + " x=" + pstr(xD));
    if (!mine_drop.unchanged() || !mine_keep.unchanged()) viol("input_array_modified", "ConvertCPathsToPathsT wrote to its input");
    for (auto& path : xD) {
      CArr<double> one = build_cpath(path);
      C2::PathD bp = C2::ConvertCPathToPathT<double>(one.p); ++*H.lib_calls;
      if (!path_eq(bp, path)) viol("roundtrip_convert_pathD", "ConvertCPathToPathT=" + pstr(bp) + " path=" + pstr(path));
    }
  }
  // -- scaled conversions int64 <-> double array (small coordinates, scale 100)
  {
    double* c = C2::CreateCPathsDFromPaths64(s64, 0.01); ++*H.lib_calls;
    C2::PathsD got; C2::PathsD want;
    for (auto& path : s64) { C2::PathD w; for (auto& q : path) { C2::PointD d; d.x = q.x * 0.01; d.y = q.y * 0.01;
#ifdef USINGZ
      d.z = q.z;
#endif
      w.push_back(d); } want.push_back(w); }
    int r = check_cpaths("CreateCPathsDFromPaths64", c, want, got);
    if (r == 1 || r == 2 || r == 4) viol("roundtrip_createD_from64", "CreateCPathsDFromPaths64(x, 0.01) wrote " + pstr(got) + " for " + pstr(s64));
    if (c) {
      C2::Paths64 back = C2::ConvertCPathsDToPaths64(c, 100.0); ++*H.lib_calls;
      if (!paths_eq(back, nes64)) viol("roundtrip_scaled", "ConvertCPathsDToPaths64(CreateCPathsDFromPaths64(x, 1/100), 100)=" + pstr(back) + " x=" + pstr(s64));
    }
    dispose(c);
    for (auto& w : want) {
      CArr<double> one = build_cpath(w);
      C2::Path64 bp = C2::ConvertCPathDToPath64WithScale(one.p, 100.0); ++*H.lib_calls;
      size_t k = &w - &want[0];
      if (!path_eq(bp, s64[k])) viol("roundtrip_scaled_path", "ConvertCPathDToPath64WithScale=" + pstr(bp) + " path=" + pstr(s64[k]));
    }
  }
  rep.outcome(hpaths(x64, 3));
}

// ------------------------------------------------------------------------------------------------
// return codes, precision range, null pointers (oracle d)
// ------------------------------------------------------------------------------------------------
static int expected_rc(int fn, const Prm& p) {
  if (fn_isD(fn) && (p.prec < -8 || p.prec > 8)) return -5;
  if (p.ct > 4) return -4;
  if (p.fr > 3) return -3;
  return 0;
}
static void bool_any(int fn, BoolIn& in, const Prm& p) {
  if (expected_rc(fn, p) == 0) { if (fn_isD(fn)) run_bool<double>(fn, in, p); else run_bool<i64>(fn, in, p); return; }
  vf::Reporter& rep = *g_rep;
  g_cur.fn = fn; g_cur.a = &in.S; g_cur.b = &in.O; g_cur.c = &in.C; g_cur.p = p;
  ++*H.cases; ++*H.cases_fn[fn]; rep.add("cases.return_code_errors"); ++*H.compared; ++*H.lib_calls;
  int rc;
  if (fn_isD(fn)) {
    double *sol = nullptr, *solo = nullptr;
    rc = (fn == TREED) ? C2::BooleanOp_PolyTreeD((uint8_t)p.ct, (uint8_t)p.fr, in.d.as.p, in.d.ao.p, in.d.ac.p, sol, solo, p.prec, p.pc != 0, p.rs != 0)
                       : C2::BooleanOpD((uint8_t)p.ct, (uint8_t)p.fr, in.d.as.p, in.d.ao.p, in.d.ac.p, sol, solo, p.prec, p.pc != 0, p.rs != 0);
    dispose(sol); dispose(solo);
  } else {
    i64 *sol = nullptr, *solo = nullptr;
    rc = (fn == TREE64) ? C2::BooleanOp_PolyTree64((uint8_t)p.ct, (uint8_t)p.fr, in.i.as.p, in.i.ao.p, in.i.ac.p, sol, solo, p.pc != 0, p.rs != 0)
                        : C2::BooleanOp64((uint8_t)p.ct, (uint8_t)p.fr, in.i.as.p, in.i.ao.p, in.i.ac.p, sol, solo, p.pc != 0, p.rs != 0);
    dispose(sol); dispose(solo);
  }
  int want = expected_rc(fn, p);
  if (g_verbose) printf("  return code %d, expected %d\n", rc, want);
  if (rc != want) viol(std::string(FN_NAME[fn]) + "_return_code", "returned " + std::to_string(rc) + ", expected " + std::to_string(want) + " (precision outside +-8 -> -5, then cliptype > 4 -> -4, then fillrule > 3 -> -3)");
}
// Inflate*D / RectClip*D with a precision outside +-8 return a null pointer
static void prec_null_case(int fn, PathsIn& in, const Prm& p) {
  vf::Reporter& rep = *g_rep;
  g_cur.fn = fn; g_cur.a = &in.P; g_cur.b = g_cur.c = nullptr; g_cur.p = p;
  ++*H.cases; ++*H.cases_fn[fn]; rep.add("cases.return_code_errors"); ++*H.compared; ++*H.lib_calls;
  double* out = nullptr;
  C2::CRectD cr{(double)p.rl, (double)p.rt, (double)p.rr, (double)p.rb};
  if (fn == INFSD) out = C2::InflatePathsD(in.aD.p, p.delta, (uint8_t)p.jt, (uint8_t)p.et, p.prec, p.ml, p.at, p.rs != 0);
  else if (fn == INFD) out = C2::InflatePathD(in.a1_D.p, p.delta, (uint8_t)p.jt, (uint8_t)p.et, p.prec, p.ml, p.at, p.rs != 0);
  else if (fn == RCD) out = C2::RectClipD(cr, in.aD.p, p.prec);
  else out = C2::RectClipLinesD(cr, in.aD.p, p.prec);
  if (g_verbose) printf("  returned %s\n", out ? "an array" : "null");
  if (out) viol(std::string(FN_NAME[fn]) + "_precision_range", "precision " + std::to_string(p.prec) + " is outside +-8 but a result array was returned");
  dispose(out);
}

// ------------------------------------------------------------------------------------------------
// enumeration
// ------------------------------------------------------------------------------------------------
static std::vector<vf::Path> all_seqs(int K, int nmax, int nmin = 0) {
  std::vector<vf::Path> out;
  for (int n = nmin; n <= nmax; ++n) {
    size_t total = 1; for (int i = 0; i < n; ++i) total *= (size_t)K;
    for (size_t t = 0; t < total; ++t) { vf::Path p(n); size_t v = t; for (int i = n - 1; i >= 0; --i) { p[i] = A5[v % K]; v /= K; } out.push_back(p); }
  }
  return out;
}
// prefix family: slot i holds a prefix (0-4 points) of BASE[i]
//   BASE[0] = d a c b : point, diagonal, CCW triangle, CCW triangle with the collinear vertex c
//   BASE[1] = e b d a : point, other diagonal, CCW triangle, bow-tie
//   BASE[2] = b a e d : point, edge through c, CW triangle, CW square
static const vf::Path BASE[3] = {{A5[2], A5[0], A5[3], A5[1]}, {A5[4], A5[1], A5[2], A5[0]}, {A5[1], A5[0], A5[4], A5[2]}};
static vf::Path prefix(int slot, int n) { return vf::Path(BASE[slot].begin(), BASE[slot].begin() + n); }
// curated family (thorough): all lengths, both orientations, collinear vertex, bow-tie, partial overlaps
static std::vector<vf::Path> r_family() {
  const vf::P a = A5[0], b = A5[1], d = A5[2], c = A5[3], e = A5[4];
  return {{}, {a}, {a, d}, {b, e}, {a, b, d}, {a, e, b}, {a, c, b, d}, {a, d, b, e}, {c, d, e}, {e, d, b, a}};
}

struct Enum {
  vf::Reporter& rep; u64 idx = 0; bool stop = false;
  bool take() { if (stop) return false; bool m = rep.mine(idx++); if (!m) return false; if (rep.out_of_time()) { stop = true; return false; } return true; }
  void done(const std::string& bound) { if (!stop) rep.bounds_completed.push_back(bound); }
};

static const std::vector<int> BOOL_FNS = {BOOL64, BOOLD, TREE64, TREED};

// role-tagged sets: k paths from fam, each tagged subject / open / clip
static void scope_bool_tagged(Enum& en, const std::vector<vf::Path>& fam, int kmin, int kmax, const std::string& name, bool zcb) {
  for (int k = kmin; k <= kmax && !en.stop; ++k) {
    size_t base = fam.size() * 3, total = 1; for (int i = 0; i < k; ++i) total *= base;
    for (size_t t = 0; t < total && !en.stop; ++t) {
      if (!en.take()) continue;
      BoolIn in; size_t v = t;
      std::vector<std::pair<int, size_t>> items(k);
      for (int i = k - 1; i >= 0; --i) { items[i] = {(int)((v % base) / fam.size()), (v % base) % fam.size()}; v /= base; }
      for (auto& it : items) (it.first == 0 ? in.S : it.first == 1 ? in.O : in.C).push_back(fam[it.second]);
      bool_input(in, BOOL_FNS, zcb);
      if (k == kmax) g_rep->sample(key_of(g_cur), 3);
    }
  }
  en.done(name);
}
static void scope_bool_prefix(Enum& en, int zcb_kmax) {
  for (int k = 0; k <= 3 && !en.stop; ++k) {
    size_t total = 1; for (int i = 0; i < k; ++i) total *= 15;
    for (size_t t = 0; t < total && !en.stop; ++t) {
      if (!en.take()) continue;
      BoolIn in; size_t v = t;
      std::vector<int> code(k);
      for (int i = k - 1; i >= 0; --i) { code[i] = (int)(v % 15); v /= 15; }
      for (int i = 0; i < k; ++i) { int role = code[i] / 5, n = code[i] % 5; (role == 0 ? in.S : role == 1 ? in.O : in.C).push_back(prefix(i, n)); }
      bool_input(in, BOOL_FNS, k <= zcb_kmax);
    }
  }
  en.done("Boolean: role-tagged sets of 0-3 paths, path i = prefix (0-4 points) of base path i (all 3616 length/role vectors)");
}

static vf::Path sq(i64 cx, i64 cy, i64 h, bool ccw) { vf::Path p{{cx - h, cy - h}, {cx + h, cy - h}, {cx + h, cy + h}, {cx - h, cy + h}}; if (!ccw) std::reverse(p.begin(), p.end()); return p; }
static void scope_nest(Enum& en, bool zcb) {
  // two towers of concentric squares; subject = any subset, all CCW or alternating; optional clip cutting through the towers; optional open path
  struct Sq { i64 cx, h; int depth; };
  static const Sq SQ[6] = {{0, 16, 0}, {0, 12, 1}, {0, 8, 2}, {0, 4, 3}, {40, 8, 0}, {40, 4, 1}};
  for (int mask = 0; mask < 64 && !en.stop; ++mask)
    for (int orient = 0; orient < 2; ++orient)
      for (int clip = 0; clip < 3; ++clip)
        for (int open = 0; open < 2; ++open) {
          if (!en.take()) continue;
          BoolIn in;
          for (int i = 0; i < 6; ++i) if (mask >> i & 1) in.S.push_back(sq(SQ[i].cx, 0, SQ[i].h, orient == 0 || SQ[i].depth % 2 == 0));
          if (clip == 1) in.C.push_back(vf::Path{{0, -20}, {60, -20}, {60, 20}, {0, 20}});
          if (clip == 2) { in.C.push_back(sq(0, 0, 6, true)); in.C.push_back(sq(40, 6, 6, false)); }
          if (open) in.O.push_back(vf::Path{{-20, 0}, {60, 2}});
          bool_input(in, {TREE64, TREED}, zcb);
          if (mask == 63) g_rep->sample(key_of(g_cur), 3);
        }
  en.done("PolyTree: nesting family (subsets of 4+2 concentric squares x orientation x 3 clips x open path)");
}

static void scope_paths_fn(Enum& en, const std::vector<vf::Path>& fam, int kmin, int kmax, const std::string& name, int group /*0 inflate-paths, 1 rect*/) {
  for (int k = kmin; k <= kmax && !en.stop; ++k) {
    size_t total = 1; for (int i = 0; i < k; ++i) total *= fam.size();
    for (size_t t = 0; t < total && !en.stop; ++t) {
      if (!en.take()) continue;
      PathsIn in; size_t v = t; in.P.resize(k);
      for (int i = k - 1; i >= 0; --i) { in.P[i] = fam[v % fam.size()]; v /= fam.size(); }
      if (group == 0) inflate_input(in, {INFS64, INFSD}); else rect_input(in);
    }
  }
  en.done(name);
}
static void scope_paths_prefix(Enum& en, int group) {
  for (int k = 0; k <= 3 && !en.stop; ++k) {
    size_t total = 1; for (int i = 0; i < k; ++i) total *= 5;
    for (size_t t = 0; t < total && !en.stop; ++t) {
      if (!en.take()) continue;
      PathsIn in; size_t v = t; in.P.resize(k);
      for (int i = k - 1; i >= 0; --i) { in.P[i] = prefix(i, (int)(v % 5)); v /= 5; }
      if (group == 0) inflate_input(in, {INFS64, INFSD}); else rect_input(in);
      if (k == 3 && t == total - 1) g_rep->sample(key_of(g_cur), 3);
    }
  }
  en.done(std::string(group == 0 ? "InflatePaths" : "RectClip/RectClipLines") + ": sets of 0-3 paths, path i = prefix (0-4 points) of base path i (all 156 length vectors)");
}
static void scope_single(Enum& en, const std::vector<vf::Path>& fam, const std::string& name) {
  for (size_t t = 0; t < fam.size() && !en.stop; ++t) {
    if (!en.take()) continue;
    PathsIn in; in.P = {fam[t]};
    inflate_input(in, {INF64, INFD});
  }
  en.done(name);
}
static void scope_mink(Enum& en, const std::vector<vf::Path>& fam, const std::string& name) {
  for (size_t i = 0; i < fam.size() && !en.stop; ++i)
    for (size_t j = 0; j < fam.size() && !en.stop; ++j) {
      if (!en.take()) continue;
      MinkIn in; in.PAT = {fam[i]}; in.PATH = {fam[j]};
      mink_input(in);
    }
  en.done(name);
}
static void scope_roundtrip(Enum& en, int K) {
  std::vector<vf::Path> fam;
  for (int n = 0; n <= 4; ++n) {
    size_t total = 1; for (int i = 0; i < n; ++i) total *= (size_t)K;
    for (size_t t = 0; t < total; ++t) { vf::Path p(n); size_t v = t; for (int i = n - 1; i >= 0; --i) { i64 id = (i64)(v % K); p[i] = {id, id}; v /= K; } fam.push_back(p); }
  }
  for (int k = 0; k <= 3 && !en.stop; ++k) {
    size_t total = 1; for (int i = 0; i < k; ++i) total *= fam.size();
    // outermost index: blocks of 64 sets
    for (size_t t0 = 0; t0 < total && !en.stop; t0 += 64) {
      if (!en.take()) continue;
      for (size_t t = t0; t < std::min(total, t0 + 64); ++t) {
        vf::Paths X(k); size_t v = t;
        for (int i = k - 1; i >= 0; --i) { X[i] = fam[v % fam.size()]; v /= fam.size(); }
        roundtrip_case(X, K);
      }
    }
  }
  en.done("round trip: every set of 0-3 paths of 0-4 points over " + std::to_string(K) + " extreme-valued points");
}

static void scope_rc(Enum& en) {
  // fixed inputs with all three roles populated / partly empty
  std::vector<std::array<vf::Paths, 3>> ins = {
      {vf::Paths{prefix(0, 4)}, vf::Paths{prefix(1, 2)}, vf::Paths{prefix(1, 3)}},
      {vf::Paths{prefix(0, 4), prefix(2, 4)}, vf::Paths{}, vf::Paths{}},
      {vf::Paths{}, vf::Paths{prefix(1, 2)}, vf::Paths{prefix(2, 4)}},
      {vf::Paths{}, vf::Paths{}, vf::Paths{prefix(1, 4)}},
      {vf::Paths{}, vf::Paths{}, vf::Paths{}},
  };
  static const int CTS[] = {0, 1, 2, 3, 4, 5, 6, 255}, FRS[] = {0, 1, 2, 3, 4, 5, 255}, PRS[] = {-9, -8, 0, 8, 9};
  for (size_t ii = 0; ii < ins.size() && !en.stop; ++ii) {
    if (!en.take()) continue;
    BoolIn in; in.S = ins[ii][0]; in.O = ins[ii][1]; in.C = ins[ii][2]; in.prep();
    for (int fn : BOOL_FNS) {
      // out-of-range cliptype / fillrule / precision, in every combination (order of the checks as coded)
      for (int ct : CTS) for (int fr : FRS) for (int pr : PRS) {
        if (!fn_isD(fn) && pr != 0) continue;
        if (ct <= 4 && fr <= 3 && pr == 0) continue;  // in-range combinations are the BOOL scopes
        Prm p; p.ct = ct; p.fr = fr; p.prec = fn_isD(fn) ? pr : 2; p.pc = (ct + fr) & 1; p.rs = (ct >> 1) & 1;
        bool_any(fn, in, p);
      }
      // empty roles handed over as null pointers instead of "2,0" arrays
      for (int ct = 0; ct <= 4; ++ct) for (int fr = 0; fr <= 3; ++fr) for (int pc = 0; pc < 2; ++pc) for (int rs = 0; rs < 2; ++rs) for (int pi = 0; pi < (fn_isD(fn) ? 3 : 1); ++pi) {
        Prm p; p.ct = ct; p.fr = fr; p.pc = pc; p.rs = rs; p.prec = PRECS[pi]; p.nul = 1;
        bool_any(fn, in, p);
      }
    }
  }
  // Inflate / RectClip / Minkowski: null arrays and out-of-range precision
  if (!en.stop && en.take()) {
    PathsIn none; none.prep();
    PathsIn tri; tri.P = {prefix(0, 4)}; tri.prep();
    for (int fn : {INFS64, INFSD, INF64, INFD})
      for (int jt = 0; jt < 4; ++jt) for (int et = 0; et < 5; ++et) for (int di = 0; di < 3; ++di) for (int rs = 0; rs < 2; ++rs) for (int pi = 0; pi < (fn_isD(fn) ? 3 : 1); ++pi) {
        Prm p; p.jt = jt; p.et = et; p.delta = DELTAS[di]; p.ml = 3; p.at = 0.5; p.rs = rs; p.prec = PRECS[pi]; p.nul = 1;
        if (fn_isD(fn)) run_inflate<double>(fn, none, p); else run_inflate<i64>(fn, none, p);
      }
    for (int fn : {INFSD, INFD, RCD, RCLD})
      for (int pr : {-9, 9, -100, 100}) for (int jt = 0; jt < 4; ++jt) for (int et = 0; et < 5; ++et) {
        Prm p; p.jt = jt; p.et = et; p.delta = 2.5; p.prec = pr; p.rl = RECTS[0].l; p.rt = RECTS[0].t; p.rr = RECTS[0].r; p.rb = RECTS[0].b;
        prec_null_case(fn, tri, p);
        if (fn == RCD || fn == RCLD) break;
      }
    for (int fn = RC64; fn <= RCLD; ++fn)
      for (int ri = 0; ri < 4; ++ri) for (int pi = 0; pi < (fn_isD(fn) ? 3 : 1); ++pi) {
        Prm p; p.rl = RECTS[ri].l; p.rt = RECTS[ri].t; p.rr = RECTS[ri].r; p.rb = RECTS[ri].b; p.prec = PRECS[pi]; p.nul = 1;
        if (fn_isD(fn)) run_rect<double>(fn, none, p); else run_rect<i64>(fn, none, p);
      }
    MinkIn mi; mi.PAT = {prefix(0, 3)}; mi.PATH = {prefix(1, 4)}; mi.prep();
    for (int fn : {MSUM, MDIFF}) for (int cl = 0; cl < 2; ++cl) { Prm p; p.closed = cl; p.nul = 1; run_mink(fn, mi, p); }
  }
  en.done("return codes (cliptype/fillrule/precision out of range, all combinations), precision range of Inflate*D/RectClip*D, null input pointers");
}

#if defined(__SANITIZE_ADDRESS__)
static void asan_report_cb(const char* report) {
  if (!g_rep) return;
  std::string s(report ? report : ""); if (s.size() > 600) s.resize(600);
  g_rep->notes.push_back("sanitizer report while executing " + key_of(g_cur) + ": " + s);
}
#endif

static int replay(vf::Reporter& rep, const std::string& cs) {
  g_verbose = true;
  vf::Case c = vf::Case::parse(cs);
  int fn = fn_by_name(c.get("fn"));
  if (fn < 0) { fprintf(stderr, "unknown fn in case\n"); return 2; }
  if ((c.geti("z", 0) != 0) != kZ) { fprintf(stderr, "this case belongs to the %s binary\n", kZ ? "non-USINGZ" : "USINGZ"); return 2; }
  Prm p;
  p.ct = (int)c.geti("ct"); p.fr = (int)c.geti("fr"); p.pc = (int)c.geti("pc", 1); p.rs = (int)c.geti("rs"); p.prec = (int)c.geti("prec", 2);
  p.jt = (int)c.geti("jt"); p.et = (int)c.geti("et"); p.delta = c.getd("delta"); p.ml = c.getd("ml", 2); p.at = c.getd("at"); p.closed = (int)c.geti("closed");
  p.zcb = (int)c.geti("zcb"); p.nul = (int)c.geti("nul"); p.K = (int)c.geti("K", 3);
  if (c.has("rect")) { long long l, t, r, b; if (sscanf(c.get("rect").c_str(), "%lld,%lld,%lld,%lld", &l, &t, &r, &b) == 4) { p.rl = l; p.rt = t; p.rr = r; p.rb = b; } }
  printf("replaying %s (D1 %s)\n", cs.c_str(), g_d1_present ? "present" : "absent");
  if (fn_isbool(fn)) { BoolIn in; in.S = c.getp("S"); in.O = c.getp("O"); in.C = c.getp("C"); in.prep(); bool_any(fn, in, p); }
  else if (fn_isinf(fn)) {
    PathsIn in; in.P = c.getp("P"); in.prep();
    if (fn_isD(fn) && (p.prec < -8 || p.prec > 8)) prec_null_case(fn, in, p);
    else { Res r = fn_isD(fn) ? run_inflate<double>(fn, in, p) : run_inflate<i64>(fn, in, p); if (!r.ran) printf("  skipped (D1 precondition)\n"); }
  } else if (fn_isrect(fn)) {
    PathsIn in; in.P = c.getp("P"); in.prep();
    if (fn_isD(fn) && (p.prec < -8 || p.prec > 8)) prec_null_case(fn, in, p);
    else if (fn_isD(fn)) run_rect<double>(fn, in, p); else run_rect<i64>(fn, in, p);
  } else if (fn == MSUM || fn == MDIFF) { MinkIn in; in.PAT = c.getp("pat"); in.PATH = c.getp("path"); in.prep(); run_mink(fn, in, p); }
  else if (fn == RTRIP) roundtrip_case(c.getp("P"), p.K);
  printf("violations: %llu\n", (unsigned long long)rep.nviol);
  for (auto& v : rep.viols) printf("  %s %s: %s\n", v.prop.c_str(), v.tag.c_str(), v.detail.c_str());
  return rep.nviol ? 1 : 0;
}

int main(int argc, char** argv) {
  vf::Args a = vf::parse_args(argc, argv);
  if (a.prop.empty()) a.prop = "C17";
  vf::Reporter rep(a);
  g_rep = &rep;
  H.init(rep);
  g_d1_present = probe_d1();
  vf::install_crash_handler(rep);
  rep.current_prop = "C17";
  rep.current_case = []() { return key_of(g_cur); };
#if defined(__SANITIZE_ADDRESS__)
  __asan_set_error_report_callback(asan_report_cb);
#endif
  if (!a.replay.empty()) return replay(rep, a.replay);

  rep.add("d1_present_cases_skipped_mode", g_d1_present ? 1 : 0);
  if (g_d1_present) rep.notes.push_back("D1 (empty path in an open-ended offset group crashes ClipperOffset itself) is present: Inflate cases with an empty path, endtype != Polygon and |delta*scale| >= 0.5 are skipped and counted");
  const bool th = a.thorough();
  const int boolK = (int)a.opti("boolK", th ? 5 : 3);       // Boolean: one role-tagged path over the first boolK points
  const int bool2K = (int)a.opti("bool2K", th ? 4 : 0);     // Boolean: role-tagged pairs over the first bool2K points (0 = off), up to bool2N points each
  const int bool2N = (int)a.opti("bool2N", 3);
  const int rfamK = (int)a.opti("rfam", th ? 3 : 0);        // Boolean / InflatePaths: sets of 2..rfam paths from the curated family (0 = off)
  const int infK = (int)a.opti("infK", th ? 5 : 4);         // InflatePath64/D: single path over the first infK points
  const int infsK = (int)a.opti("infsK", th ? 5 : 3);       // InflatePaths64/D: one path over the first infsK points
  const int inf2K = (int)a.opti("inf2K", th ? 3 : 0);       // InflatePaths64/D: pairs over the first inf2K points, up to inf2N points each
  const int inf2N = (int)a.opti("inf2N", 3);
  const int rectK = (int)a.opti("rectK", 5);
  const int rect2K = (int)a.opti("rect2K", th ? 4 : 3);
  const int rect2N = (int)a.opti("rect2N", th ? 4 : 3);
  const int minkK = (int)a.opti("minkK", th ? 5 : 3);
  const int rtK = (int)a.opti("rtK", th ? 3 : 2);
  const int zk = (int)a.opti("zcbk", th ? 3 : 2);           // USINGZ: the z-callback on/off dimension is crossed in for prefix sets of up to zk paths (and the nesting family)

  Enum en{rep};
  scope_rc(en);
  scope_roundtrip(en, rtK);
  scope_bool_prefix(en, zk);
  scope_nest(en, true);
  scope_bool_tagged(en, all_seqs(boolK, 4), 1, 1, "Boolean: one role-tagged path, every sequence of 0-4 points over " + std::to_string(boolK) + " points", false);
  scope_paths_prefix(en, 0);
  scope_single(en, all_seqs(infK, 4), "InflatePath64/D: every sequence of 0-4 points over " + std::to_string(infK) + " points");
  scope_paths_fn(en, all_seqs(infsK, 4), 1, 1, "InflatePaths64/D: one path, every sequence of 0-4 points over " + std::to_string(infsK) + " points", 0);
  scope_paths_prefix(en, 1);
  scope_paths_fn(en, all_seqs(rectK, 4), 1, 1, "RectClip*: one path, every sequence of 0-4 points over " + std::to_string(rectK) + " points", 1);
  scope_paths_fn(en, all_seqs(rect2K, rect2N), 2, 2, "RectClip*: two paths, every sequence of 0-" + std::to_string(rect2N) + " points over " + std::to_string(rect2K) + " points", 1);
  scope_mink(en, all_seqs(minkK, 4), "Minkowski: pattern x path, every sequence of 0-4 points over " + std::to_string(minkK) + " points");
  if (rfamK >= 2) scope_bool_tagged(en, r_family(), 2, rfamK, "Boolean: role-tagged sets of 2-" + std::to_string(rfamK) + " paths from the curated 10-path family", false);
  if (rfamK >= 2) scope_paths_fn(en, r_family(), 2, rfamK, "InflatePaths64/D: sets of 2-" + std::to_string(rfamK) + " paths from the curated 10-path family", 0);
  if (bool2K > 0) scope_bool_tagged(en, all_seqs(bool2K, bool2N), 2, 2, "Boolean: two role-tagged paths, every sequence of 0-" + std::to_string(bool2N) + " points over " + std::to_string(bool2K) + " points", false);
  if (inf2K > 0) scope_paths_fn(en, all_seqs(inf2K, inf2N), 2, 2, "InflatePaths64/D: two paths, every sequence of 0-" + std::to_string(inf2N) + " points over " + std::to_string(inf2K) + " points", 0);
  rep.write();
  return 0;
}
