// C18: geometric predicates are exact and measurements accurate.
//
// Bounded-exhaustive enumeration of the header-only predicates of clipper.core.h in three
// library configurations linked into this one process (sides/side_pred.cpp compiled once
// per configuration):   std  = __int128 branch, non-HI_PRECISION GetSegmentIntersectPt
//                       hp   = CLIPPER2_HI_PRECISION variant of GetSegmentIntersectPt
//                       port = portable 64x64 Multiply branch of ProductsAreEqual/CrossProductSign
// Every oracle is exact integer arithmetic in (unsigned) __int128. This TU includes no
// Clipper2 header.
//
// Sub-scopes (option --only a,b,...; default all):
//   mul   Multiply(u64,u64)                       all pairs over the 32-bit-halves alphabet U the 64-bit boundary alphabet
//   pae   ProductsAreEqual(a,b,c,d)               all 4-tuples over the boundary alphabet (a superset of the design's) U [-4,4]
//   tri   CrossProductSign / IsCollinear          all point triples (6 coordinates) over the boundary alphabet, and over [-4,4]
//   pip   PointInPolygon                          every vertex sequence of 3..nmax points of the 4x4 lattice x every point of the
//                                                 half-step grid (one ring outside included), plain and scaled to 2^25 (+-1 jitter)
//   seg   GetSegmentIntersectPt (std, hp)         every ordered 4-tuple of points of the jittered 3x3 lattice scaled by 2^S
//   area  Area(Path64)                            every polygon of 0..nmax vertices, five magnitudes up to 2^40
//
// Case keys (also accepted by --replay):
//   f=mul|cfg=port|a=<u64>|b=<u64>            f=pae|cfg=..|a=|b=|c=|d=
//   f=cps|cfg=..|p=x1,y1 x2,y2 x3,y3          f=col|cfg=..|p=x1,y1 x2,y2 x3,y3
//   f=pip|cfg=..|poly=x,y x,y ...|pt=x,y      f=seg|cfg=std|s=ax,ay bx,by cx,cy dx,dy     f=area|cfg=..|poly=...
#include "engine/common.hpp"
#include "engine/exact.hpp"
#include "sides/side_pred.hpp"
#include <cmath>

VF_PRED_SIDE(std)
VF_PRED_SIDE(hp)
VF_PRED_SIDE(port)

using namespace vf;
typedef unsigned __int128 u128;

// ------------------------------------------------------------------ configurations
struct Api {
  const char* name;
  int (*config)();
  void (*multiply)(u64, u64, u64*, u64*);
  bool (*products_equal)(i64, i64, i64, i64);
  int (*cross_sign)(i64, i64, i64, i64, i64, i64);
  bool (*is_collinear)(i64, i64, i64, i64, i64, i64);
  void (*pip)(const Path&, const P*, size_t, signed char*);
  bool (*seg)(P, P, P, P, P*);
  double (*area)(const Path&);
};
#define VF_API(N) {#N, pred_##N##_config, pred_##N##_multiply, pred_##N##_products_equal, pred_##N##_cross_sign, pred_##N##_is_collinear, pred_##N##_point_in_polygon, pred_##N##_seg_isect, pred_##N##_area}
static const Api APIS[3] = {VF_API(std), VF_API(hp), VF_API(port)};
enum { CFG_STD = 0, CFG_HP = 1, CFG_PORT = 2, NCFG = 3 };
static int cfg_of(const std::string& s) { for (int i = 0; i < NCFG; ++i) if (s == APIS[i].name) return i; fprintf(stderr, "unknown cfg '%s'\n", s.c_str()); exit(2); }

// The three copies must really be three different configurations; otherwise the verdict would be
// vacuous. Self-report of each side TU (same #if as the header) plus one behavioural probe.
static void verify_configurations() {
  bool ok = APIS[CFG_STD].config() == 0 && APIS[CFG_HP].config() == 2 && APIS[CFG_PORT].config() == 1;
  // crossing (5,0) lies beyond segment 1: the non-HP variant clamps to the end point (2,0), the HP variant does not
  P ip{0, 0};
  bool r1 = APIS[CFG_STD].seg({0, 0}, {2, 0}, {5, -1}, {5, 1}, &ip); ok = ok && r1 && ip == P{2, 0};
  bool r2 = APIS[CFG_HP].seg({0, 0}, {2, 0}, {5, -1}, {5, 1}, &ip); ok = ok && r2 && ip == P{5, 0};
  bool r3 = APIS[CFG_PORT].seg({0, 0}, {2, 0}, {5, -1}, {5, 1}, &ip); ok = ok && r3 && ip == P{2, 0};
  if (!ok) { fprintf(stderr, "predicates: library configurations are not what the registry says (std=%d hp=%d port=%d)\n", APIS[0].config(), APIS[1].config(), APIS[2].config()); exit(2); }
}

// ------------------------------------------------------------------ fast counters (flushed into the Reporter)
#define CTRS(X) \
  X(cases) X(lib_calls) X(compared) X(nontrivial) \
  X(mul_cases) X(mul_nontrivial_hi_word_nonzero) \
  X(pae_cases) X(pae_equal) X(pae_nontrivial) X(pae_equal_mod_2p64_but_different) \
  X(cps_cases) X(cps_zero) X(cps_nontrivial) X(col_cases) X(col_true) X(col_nontrivial) X(tri_product_exceeds_64bit) \
  X(pip_cases) X(pip_on) X(pip_inside) X(pip_outside) X(pip_polygons) X(pip_polygons_with_repeated_points) X(skipped_pip_polygons_in_one_horizontal_line) \
  X(seg_cases) X(seg_parallel) X(seg_nonparallel) X(seg_crossing_on_both_judged) X(seg_crossing_outside_point_not_judged) X(seg_zero_length_segment) \
  X(area_cases) X(area_nonzero) X(area_rounding_active) X(area_exact_required) X(area_fewer_than_3_vertices)
enum CtrId {
#define X(n) K_##n,
  CTRS(X)
#undef X
  K_COUNT
};
static const char* CTR_NAME[K_COUNT] = {
#define X(n) #n,
  CTRS(X)
#undef X
};
static u64 CT[K_COUNT];
static void flush(Reporter& rep) { for (int i = 0; i < K_COUNT; ++i) if (CT[i]) { rep.add(CTR_NAME[i], CT[i]); CT[i] = 0; } }

// ------------------------------------------------------------------ the case being executed (crash attribution)
struct Cur { int f = 0; int cfg = 0; u64 ua = 0, ub = 0; i64 v[8] = {0}; const Path* poly = nullptr; P pt{0, 0}; };
static Cur cur;
enum { F_NONE, F_MUL, F_PAE, F_CPS, F_COL, F_PIP, F_SEG, F_AREA };

static std::string key_mul(int cfg, u64 a, u64 b) { Case c; c.set("f", "mul").set("cfg", APIS[cfg].name).set("a", std::to_string(a)).set("b", std::to_string(b)); return c.s(); }
static std::string key_pae(int cfg, i64 a, i64 b, i64 cc, i64 d) { Case c; c.set("f", "pae").set("cfg", APIS[cfg].name).set("a", a).set("b", b).set("c", cc).set("d", d); return c.s(); }
static std::string key_tri(const char* f, int cfg, const i64* v) { Case c; c.set("f", f).set("cfg", APIS[cfg].name).set("p", Paths{{{v[0], v[1]}, {v[2], v[3]}, {v[4], v[5]}}}); return c.s(); }
static std::string key_pip(int cfg, const Path& poly, P pt) { Case c; c.set("f", "pip").set("cfg", APIS[cfg].name).set("poly", str(poly)).set("pt", str(Path{pt})); return c.s(); }
static std::string key_seg(int cfg, P a, P b, P cc, P d) { Case c; c.set("f", "seg").set("cfg", APIS[cfg].name).set("s", str(Path{a, b, cc, d})); return c.s(); }
static std::string key_area(int cfg, const Path& poly) { Case c; c.set("f", "area").set("cfg", APIS[cfg].name).set("poly", str(poly)); return c.s(); }
static std::string cur_key() {
  switch (cur.f) {
    case F_MUL: return key_mul(cur.cfg, cur.ua, cur.ub);
    case F_PAE: return key_pae(cur.cfg, cur.v[0], cur.v[1], cur.v[2], cur.v[3]);
    case F_CPS: return key_tri("cps", cur.cfg, cur.v);
    case F_COL: return key_tri("col", cur.cfg, cur.v);
    case F_PIP: return cur.poly ? key_pip(cur.cfg, *cur.poly, cur.pt) + "|note=one of the points of the batch" : "pip";
    case F_SEG: return key_seg(cur.cfg, {cur.v[0], cur.v[1]}, {cur.v[2], cur.v[3]}, {cur.v[4], cur.v[5]}, {cur.v[6], cur.v[7]});
    case F_AREA: return cur.poly ? key_area(cur.cfg, *cur.poly) : "area";
  }
  return "none";
}

static inline u128 uabs128(i128 v) { return v < 0 ? (u128)0 - (u128)v : (u128)v; }
static std::string u128str(u128 v) { if (!v) return "0"; std::string s; while (v) { s += char('0' + (int)(v % 10)); v /= 10; } std::reverse(s.begin(), s.end()); return s; }
static inline bool fits64(i128 v) { return v >= (i128)INT64_MIN && v <= (i128)INT64_MAX; }

static bool g_verbose = false;

// ================================================================== Multiply
static void check_mul(Reporter& rep, int cfg, u64 a, u64 b) {
  cur.f = F_MUL; cur.cfg = cfg; cur.ua = a; cur.ub = b;
  u64 lo = 0, hi = 0;
  APIS[cfg].multiply(a, b, &lo, &hi);
  u128 e = (u128)a * (u128)b;
  u64 elo = (u64)e, ehi = (u64)(e >> 64);
  ++CT[K_cases]; ++CT[K_lib_calls]; ++CT[K_compared]; ++CT[K_mul_cases];
  if (ehi != 0) { ++CT[K_nontrivial]; ++CT[K_mul_nontrivial_hi_word_nonzero]; }
  if (g_verbose) printf("Multiply[%s](%llu,%llu) = hi %llu lo %llu; exact hi %llu lo %llu\n", APIS[cfg].name, (unsigned long long)a, (unsigned long long)b, (unsigned long long)hi, (unsigned long long)lo, (unsigned long long)ehi, (unsigned long long)elo);
  if (lo != elo || hi != ehi) {
    char d[256]; snprintf(d, sizeof d, "Multiply(%llu,%llu) returned hi=%llu lo=%llu, exact product has hi=%llu lo=%llu", (unsigned long long)a, (unsigned long long)b, (unsigned long long)hi, (unsigned long long)lo, (unsigned long long)ehi, (unsigned long long)elo);
    rep.violation("C18", key_mul(cfg, a, b), "multiply_wrong", d);
  }
}

static std::vector<u64> mul_alphabet() {
  const u64 H[7] = {0, 1, 2, 0x7FFFFFFFull, 0x80000000ull, 0xFFFFFFFEull, 0xFFFFFFFFull};
  std::vector<u64> v;
  for (u64 h : H) for (u64 l : H) v.push_back(h << 32 | l);   // 49 operands whose halves range over H
  const u64 W[] = {0, 1, 2, 3, (1ull << 31) - 1, 1ull << 31, (1ull << 31) + 1, (1ull << 32) - 1, 1ull << 32, (1ull << 32) + 1, (1ull << 33) - 1,
                   1ull << 61, (1ull << 62) - 1, 1ull << 62, (1ull << 62) + 1, (1ull << 63) - 1, 1ull << 63, (1ull << 63) + 1,
                   0xFFFFFFFF00000000ull, 0xFFFFFFFF00000001ull, 0xFFFFFFFE00000001ull, 0x00000001FFFFFFFFull, 0x8000000080000000ull, 0x7FFFFFFF7FFFFFFFull,
                   0xAAAAAAAAAAAAAAAAull, 0x5555555555555555ull, 0xFFFFFFFFFFFFFFFEull, 0xFFFFFFFFFFFFFFFFull, 3037000499ull, 3037000500ull, 4294967291ull, 6074000999ull};
  for (u64 w : W) v.push_back(w);
  std::sort(v.begin(), v.end()); v.erase(std::unique(v.begin(), v.end()), v.end());
  return v;
}
static bool scope_mul(Reporter& rep) {
  std::vector<u64> A = mul_alphabet();
  for (size_t i = 0; i < A.size(); ++i) {
    if (!rep.mine(i)) continue;
    if (rep.out_of_time()) return false;
    for (size_t j = 0; j < A.size(); ++j) for (int cfg = 0; cfg < NCFG; ++cfg) check_mul(rep, cfg, A[i], A[j]);
  }
  if (rep.args.shard == 0) rep.sample("Multiply: all " + std::to_string(A.size()) + "^2 operand pairs, e.g. (0xFFFFFFFFFFFFFFFF,0xFFFFFFFFFFFFFFFF), (0x7FFFFFFF80000000,0xFFFFFFFE00000001)", 16);
  rep.bounds_completed.push_back("mul: alphabet of " + std::to_string(A.size()) + " operands, all pairs, cfg std/hp/port");
  return true;
}

// ================================================================== ProductsAreEqual
static void check_pae(Reporter& rep, int cfg, i64 a, i64 b, i64 c, i64 d) {
  cur.f = F_PAE; cur.cfg = cfg; cur.v[0] = a; cur.v[1] = b; cur.v[2] = c; cur.v[3] = d;
  bool r = APIS[cfg].products_equal(a, b, c, d);
  i128 ab = (i128)a * b, cd = (i128)c * d;
  bool e = ab == cd;
  bool trunc_eq = (u64)((u64)a * (u64)b) == (u64)((u64)c * (u64)d);
  bool nt = e || trunc_eq || !fits64(ab) || !fits64(cd);
  ++CT[K_cases]; ++CT[K_lib_calls]; ++CT[K_compared]; ++CT[K_pae_cases];
  if (e) ++CT[K_pae_equal];
  if (trunc_eq && !e) ++CT[K_pae_equal_mod_2p64_but_different];
  if (nt) { ++CT[K_nontrivial]; ++CT[K_pae_nontrivial]; }
  if (g_verbose) printf("ProductsAreEqual[%s](%lld,%lld,%lld,%lld) = %d; exact a*b=%s c*d=%s\n", APIS[cfg].name, (long long)a, (long long)b, (long long)c, (long long)d, (int)r, i128str(ab).c_str(), i128str(cd).c_str());
  if (r != e)
    rep.violation("C18", key_pae(cfg, a, b, c, d), "products_equal_wrong", "ProductsAreEqual returned " + std::to_string((int)r) + " but a*b=" + i128str(ab) + ", c*d=" + i128str(cd));
}

// boundary alphabet of DESIGN.md C18 (|v| <= 2^62-1: any two of them differ by less than 2^63)
static std::vector<i64> boundary_alphabet() {
  const i64 pos[] = {1, 2, 3, ((i64)1 << 31) - 1, (i64)1 << 31, ((i64)1 << 31) + 1, ((i64)1 << 32) - 1, ((i64)1 << 32) + 1, (i64)1 << 61, ((i64)1 << 62) - 1};
  std::vector<i64> v{0};
  for (i64 p : pos) { v.push_back(p); v.push_back(-p); }
  std::sort(v.begin(), v.end());
  return v;
}
// ProductsAreEqual takes the differences themselves: any int64 except INT64_MIN (std::abs in the portable branch)
static std::vector<i64> pae_alphabet() {
  std::vector<i64> v = boundary_alphabet();
  const i64 extra[] = {4, (i64)1 << 32, (i64)1 << 62, INT64_MAX, INT64_MAX - 1, 3037000499LL, 3037000500LL};
  for (i64 p : extra) { v.push_back(p); v.push_back(-p); }
  std::sort(v.begin(), v.end()); v.erase(std::unique(v.begin(), v.end()), v.end());
  return v;
}
static bool scope_pae(Reporter& rep) {
  std::vector<i64> A = pae_alphabet();
  size_t n = A.size();
  for (size_t o = 0; o < n * n; ++o) {
    if (!rep.mine(o)) continue;
    if (rep.out_of_time()) return false;
    i64 a = A[o / n], b = A[o % n];
    for (i64 c : A) for (i64 d : A) for (int cfg = 0; cfg < NCFG; ++cfg) check_pae(rep, cfg, a, b, c, d);
  }
  if (rep.args.shard == 0) rep.sample("ProductsAreEqual: all " + std::to_string(n) + "^4 tuples over {0,+-1..4,+-(2^31-1),+-2^31,+-(2^31+1),+-(2^32-1),+-2^32,+-(2^32+1),+-2^61,+-(2^62-1),+-2^62,+-(2^63-2),+-(2^63-1),+-3037000499,+-3037000500}, e.g. (4294967297,4294967295,-1,1)", 16);
  rep.bounds_completed.push_back("pae: alphabet of " + std::to_string(n) + " values (design alphabet + [-4,4] + 2^32, 2^62, 2^63-1, 2^63-2, isqrt(2^63)), all 4-tuples, cfg std/hp/port");
  return true;
}

// ================================================================== CrossProductSign / IsCollinear
// v = x1,y1,x2,y2,x3,y3 ; domain: every coordinate difference fits in int64
static bool tri_in_domain(const i64* v) {
  return fits64((i128)v[2] - v[0]) && fits64((i128)v[5] - v[3]) && fits64((i128)v[3] - v[1]) && fits64((i128)v[4] - v[2]);
}
static void check_tri(Reporter& rep, int cfg, const i64* v, bool do_cps = true, bool do_col = true) {
  i128 a = (i128)v[2] - v[0], b = (i128)v[5] - v[3], c = (i128)v[3] - v[1], d = (i128)v[4] - v[2];
  i128 ab = a * b, cd = c * d;            // |a|,|b| < 2^63 so the products fit in 127 bits; compared, never subtracted
  int es = ab > cd ? 1 : ab < cd ? -1 : 0;
  bool big = !fits64(ab) || !fits64(cd);
  bool nt = es == 0 || big;
  cur.cfg = cfg; for (int i = 0; i < 6; ++i) cur.v[i] = v[i];
  if (do_cps) {
    cur.f = F_CPS;
    int r = APIS[cfg].cross_sign(v[0], v[1], v[2], v[3], v[4], v[5]);
    ++CT[K_cases]; ++CT[K_lib_calls]; ++CT[K_compared]; ++CT[K_cps_cases];
    if (es == 0) ++CT[K_cps_zero];
    if (big) ++CT[K_tri_product_exceeds_64bit];
    if (nt) { ++CT[K_nontrivial]; ++CT[K_cps_nontrivial]; }
    if (g_verbose) printf("CrossProductSign[%s] = %d; exact (x2-x1)(y3-y2)=%s (y2-y1)(x3-x2)=%s sign %d\n", APIS[cfg].name, r, i128str(ab).c_str(), i128str(cd).c_str(), es);
    if (r != es)
      rep.violation("C18", key_tri("cps", cfg, v), "cross_sign_wrong", "CrossProductSign returned " + std::to_string(r) + ", exact sign " + std::to_string(es) + " ((x2-x1)(y3-y2)=" + i128str(ab) + ", (y2-y1)(x3-x2)=" + i128str(cd) + ")");
  }
  if (do_col) {
    cur.f = F_COL;
    bool r = APIS[cfg].is_collinear(v[0], v[1], v[2], v[3], v[4], v[5]);
    ++CT[K_cases]; ++CT[K_lib_calls]; ++CT[K_compared]; ++CT[K_col_cases];
    if (es == 0) ++CT[K_col_true];
    if (nt) { ++CT[K_nontrivial]; ++CT[K_col_nontrivial]; }
    if (g_verbose) printf("IsCollinear[%s] = %d; exact %d\n", APIS[cfg].name, (int)r, (int)(es == 0));
    if (r != (es == 0))
      rep.violation("C18", key_tri("col", cfg, v), "is_collinear_wrong", "IsCollinear returned " + std::to_string((int)r) + ", exact " + std::to_string((int)(es == 0)) + " ((x2-x1)(y3-y2)=" + i128str(ab) + ", (y2-y1)(x3-x2)=" + i128str(cd) + ")");
  }
}
static bool scope_tri_over(Reporter& rep, const std::vector<i64>& A, const std::string& what) {
  size_t n = A.size();
  i64 v[6];
  for (size_t o = 0; o < n * n; ++o) {
    if (!rep.mine(o)) continue;
    if (rep.out_of_time()) return false;
    v[0] = A[o / n]; v[1] = A[o % n];
    for (i64 x2 : A) for (i64 y2 : A) for (i64 x3 : A) for (i64 y3 : A) {
      v[2] = x2; v[3] = y2; v[4] = x3; v[5] = y3;
      for (int cfg = 0; cfg < NCFG; ++cfg) check_tri(rep, cfg, v);
    }
  }
  rep.bounds_completed.push_back("tri: all point triples (" + std::to_string(n) + "^6) over " + what + ", CrossProductSign and IsCollinear, cfg std/hp/port");
  return true;
}
static bool scope_tri(Reporter& rep) {
  std::vector<i64> S; for (i64 i = -4; i <= 4; ++i) S.push_back(i);
  if (!scope_tri_over(rep, S, "[-4,4]")) return false;
  std::vector<i64> B = boundary_alphabet();
  if (rep.args.shard == 0) rep.sample("CrossProductSign/IsCollinear: all 21^6 point triples over the boundary alphabet, e.g. p=-4611686018427387903,-4611686018427387903 0,1 4611686018427387903,4294967297", 16);
  return scope_tri_over(rep, B, "the boundary alphabet {0,+-1,+-2,+-3,+-(2^31-1),+-2^31,+-(2^31+1),+-(2^32-1),+-(2^32+1),+-2^61,+-(2^62-1)}");
}

// ================================================================== polygon enumeration on the 4x4 lattice
// every vertex sequence of n lattice indices (distinct, or with repetition); the first two indices are the
// outermost enumeration index (sharded). fn(const int* idx). Returns false when the deadline fired.
template <class F>
static bool for_each_polygon(Reporter& rep, int n, bool repeats, F&& fn) {
  int idx[8];
  if (n <= 1) {
    if (!rep.mine(0)) return true;
    if (n == 0) { fn(idx); return true; }
    for (int i = 0; i < 16; ++i) { idx[0] = i; fn(idx); }
    return true;
  }
  for (int o = 0; o < 256; ++o) {
    if (!rep.mine(o)) continue;
    if (rep.out_of_time()) return false;
    idx[0] = o / 16; idx[1] = o % 16;
    if (!repeats && idx[0] == idx[1]) continue;
    // odometer over positions 2..n-1
    int k = 2;
    if (n == 2) { fn(idx); continue; }
    idx[2] = -1;
    while (k >= 2) {
      ++idx[k];
      if (idx[k] == 16) { --k; continue; }
      if (!repeats) { bool dup = false; for (int j = 0; j < k; ++j) if (idx[j] == idx[k]) { dup = true; break; } if (dup) continue; }
      if (k == n - 1) fn(idx);
      else { ++k; idx[k] = -1; }
    }
  }
  return true;
}
static bool has_repeat(const int* idx, int n) { for (int i = 0; i < n; ++i) for (int j = i + 1; j < n; ++j) if (idx[i] == idx[j]) return true; return false; }

// ================================================================== PointInPolygon
static int pip_exact(const Path& poly, P pt) { bool on = false; int w = winding(poly, pt, on); return on ? 0 : (w & 1) ? 1 : 2; }
static const char* PIPNAME[3] = {"IsOn", "IsInside", "IsOutside"};
static bool one_horizontal_line(const Path& poly) { for (auto& q : poly) if (q.y != poly[0].y) return false; return true; }

static void check_pip_batch(Reporter& rep, const Path& poly, const std::vector<P>& pts, std::vector<signed char>& exp, std::vector<signed char>& got, bool with_repeats) {
  size_t m = pts.size();
  u64 non = 0, nin = 0;
  for (size_t i = 0; i < m; ++i) { exp[i] = (signed char)pip_exact(poly, pts[i]); non += exp[i] == 0; nin += exp[i] == 1; }
  ++CT[K_pip_polygons]; if (with_repeats) ++CT[K_pip_polygons_with_repeated_points];
  for (int cfg = 0; cfg < NCFG; ++cfg) {
    cur.f = F_PIP; cur.cfg = cfg; cur.poly = &poly; cur.pt = pts[0];
    APIS[cfg].pip(poly, pts.data(), m, got.data());
    cur.poly = nullptr; cur.f = F_NONE;
    CT[K_cases] += m; CT[K_lib_calls] += m; CT[K_compared] += m; CT[K_pip_cases] += m;
    CT[K_pip_on] += non; CT[K_pip_inside] += nin; CT[K_pip_outside] += m - non - nin; CT[K_nontrivial] += non + nin;
    for (size_t i = 0; i < m; ++i) {
      if (g_verbose) printf("PointInPolygon[%s](pt=%s, poly=%s) = %s; exact even-odd: %s\n", APIS[cfg].name, str(Path{pts[i]}).c_str(), str(poly).c_str(), PIPNAME[(int)got[i]], PIPNAME[(int)exp[i]]);
      if (got[i] != exp[i])
        rep.violation("C18", key_pip(cfg, poly, pts[i]), "pip_wrong", std::string("PointInPolygon returned ") + PIPNAME[(int)got[i]] + ", exact even-odd classification is " + PIPNAME[(int)exp[i]]);
    }
  }
}

static const i64 K25 = ((i64)1 << 25) / 3;   // 11184810: lattice u in 0..6 -> (u-3)*K25 in [-(2^25-2), 2^25-2]
struct PipMag { const char* name; i64 off, k; int ulo, uhi; bool jitter; };
static bool scope_pip(Reporter& rep, int nmin, int nmax, bool repeats) {
  // vertices are the lattice points (2*ix, 2*iy); test points are all (u, w), i.e. lattice and half-way points, one ring outside
  const PipMag mags[2] = {{"x1", 0, 1, -1, 7, false}, {"2^25", 3, K25, 0, 6, true}};
  for (const PipMag& mg : mags) {
    std::vector<P> pts;
    for (int w = mg.ulo; w <= mg.uhi; ++w) for (int u = mg.ulo; u <= mg.uhi; ++u)
      for (int jy = (mg.jitter ? -1 : 0); jy <= (mg.jitter ? 1 : 0); ++jy) for (int jx = (mg.jitter ? -1 : 0); jx <= (mg.jitter ? 1 : 0); ++jx)
        pts.push_back({(u - mg.off) * mg.k + jx, (w - mg.off) * mg.k + jy});
    std::vector<signed char> exp(pts.size()), got(pts.size());
    for (int n = nmin; n <= nmax; ++n) {
      Path poly(n);
      bool done = for_each_polygon(rep, n, repeats, [&](const int* idx) {
        for (int i = 0; i < n; ++i) poly[i] = {(2 * (idx[i] % 4) - mg.off) * mg.k, (2 * (idx[i] / 4) - mg.off) * mg.k};
        if (one_horizontal_line(poly)) { ++CT[K_skipped_pip_polygons_in_one_horizontal_line]; return; }
        check_pip_batch(rep, poly, pts, exp, got, repeats && has_repeat(idx, n));
      });
      flush(rep);
      if (!done) return false;
    }
    rep.bounds_completed.push_back(std::string("pip: n=") + std::to_string(nmin) + (nmax > nmin ? ".." + std::to_string(nmax) : std::string()) + (repeats ? " all vertex sequences (repeated points allowed)" : " distinct vertices") + ", magnitude " + mg.name + ", " + std::to_string(pts.size()) + " test points, cfg std/hp/port");
  }
  if (rep.args.shard == 0) rep.sample("PointInPolygon: poly=0,0 4,0 4,4 0,4 2,2 pt=3,1 ; poly=-33554430,-33554430 33554430,11184810 -11184810,33554430 pt=1,0 (jittered)", 16);
  return true;
}

// ================================================================== Area
static void check_area(Reporter& rep, int cfg, const Path& poly) {
  cur.f = F_AREA; cur.cfg = cfg; cur.poly = &poly;
  double r = APIS[cfg].area(poly);
  cur.poly = nullptr; cur.f = F_NONE;
  size_t n = poly.size();
  i128 A2 = 0; u128 sumabs = 0;
  if (n >= 3)
    for (size_t i = 0; i < n; ++i) {
      const P& p = poly[(i + n - 1) % n]; const P& c = poly[i];
      i128 t = ((i128)p.y + c.y) * ((i128)p.x - c.x);   // the term the library forms; the sum equals the shoelace sum
      A2 += t; sumabs += uabs128(t);
    }
  ++CT[K_cases]; ++CT[K_lib_calls]; ++CT[K_compared]; ++CT[K_area_cases];
  if (n < 3) ++CT[K_area_fewer_than_3_vertices];
  if (A2 != 0) { ++CT[K_nontrivial]; ++CT[K_area_nonzero]; }
  // tolerance on twice the area: 2 * n * 2^-52 * sum|terms| (rounded up); zero when every intermediate value is an
  // integer of magnitude <= 2^53 (then IEEE arithmetic is exact and the result must be exact)
  u128 tol2 = 0;
  if (sumabs > ((u128)1 << 53)) { tol2 = ((u128)n * sumabs + (((u128)1 << 51) - 1)) >> 51; ++CT[K_area_rounding_active]; }
  else ++CT[K_area_exact_required];
  double a2 = r * 2.0;
  bool bad; std::string why;
  if (!(std::fabs(a2) < 1e37)) { bad = true; why = "not finite / absurd"; }
  else {
    i128 g = (i128)a2;                       // a2 is integer valued (sum of integer-valued doubles); if not, widen by 1
    u128 slack = ((double)g == a2) ? 0 : 1;
    u128 diff = uabs128(g - A2);
    bad = diff > tol2 + slack;
    if (bad) why = "|2*Area - exact| = " + u128str(diff) + " > allowed " + u128str(tol2 + slack);
  }
  if (g_verbose) printf("Area[%s](%s) = %.17g; exact 2A = %s, sum|terms| = %s, tolerance on 2A = %s\n", APIS[cfg].name, str(poly).c_str(), r, i128str(A2).c_str(), u128str(sumabs).c_str(), u128str(tol2).c_str());
  if (bad) {
    char b[64]; snprintf(b, sizeof b, "%.17g", r);
    rep.violation("C18", key_area(cfg, poly), "area_inexact", std::string("Area returned ") + b + ", exact twice-area " + i128str(A2) + ": " + why);
  }
}
struct AreaMag { const char* name; i64 k, t; };
static bool scope_area(Reporter& rep, int nmin, int nmax, bool repeats) {
  const AreaMag mags[5] = {{"x1", 1, 0}, {"[0,2^25]", ((i64)1 << 25) / 3, 0}, {"[-2^25,2^25]", ((i64)1 << 26) / 3, -((i64)1 << 25)},
                           {"[0,2^40]", ((i64)1 << 40) / 3, 0}, {"[-2^40,2^40]", ((i64)1 << 41) / 3, -((i64)1 << 40)}};
  for (const AreaMag& mg : mags) {
    for (int n = nmin; n <= nmax; ++n) {
      Path poly(n);
      bool done = for_each_polygon(rep, n, repeats, [&](const int* idx) {
        for (int i = 0; i < n; ++i) poly[i] = {(idx[i] % 4) * mg.k + mg.t, (idx[i] / 4) * mg.k + mg.t};
        for (int cfg = 0; cfg < NCFG; ++cfg) check_area(rep, cfg, poly);
      });
      flush(rep);
      if (!done) return false;
    }
    rep.bounds_completed.push_back(std::string("area: n=") + std::to_string(nmin) + (nmax > nmin ? ".." + std::to_string(nmax) : std::string()) + (repeats ? " all vertex sequences" : " distinct vertices") + ", magnitude " + mg.name + ", cfg std/hp/port");
  }
  if (rep.args.shard == 0) rep.sample("Area: poly=0,0 733007751850,0 733007751850,366503875925 0,1099511627775 366503875925,366503875925 (lattice step floor(2^40/3))", 16);
  return true;
}

// ================================================================== GetSegmentIntersectPt
// D11 condition (DESIGN.md section 5), evaluated in exact integer arithmetic and conservatively: "segment length" is the
// Chebyshev length max(|dx|,|dy|) of the longer of the two segments, which never exceeds its Euclidean length, so an input
// tagged ill-conditioned here also satisfies the condition with Euclidean lengths:
//     2^-52 * ( max(|dy1*dx2|, |dy2*dx1|) / |det| ) * segment length  >  1/4
static inline i64 iabs64(i64 v) { return v < 0 ? -v : v; }
static bool seg_ill_conditioned(i64 dx1, i64 dy1, i64 dx2, i64 dy2, i128 det) {
  if (det == 0) return false;
  u128 ad = uabs128(det);
  u128 p1 = uabs128((i128)dy1 * dx2), p2 = uabs128((i128)dy2 * dx1);
  u128 mp = std::max(p1, p2);
  u128 L = (u128)std::max(std::max(iabs64(dx1), iabs64(dy1)), std::max(iabs64(dx2), iabs64(dy2)));
  if (ad >> 74) return false;                     // |det| * 2^50 >= 2^124 > mp * L for coordinates <= 2^40
  return mp * L > (ad << 50);                     // mp <= 2^82, L <= 2^41
}
static long double seg_cond_value(i64 dx1, i64 dy1, i64 dx2, i64 dy2, i128 det) {   // for the detail text only
  long double mp = std::max(fabsl((long double)dy1 * dx2), fabsl((long double)dy2 * dx1));
  long double L = std::max(std::max(fabsl((long double)dx1), fabsl((long double)dy1)), std::max(fabsl((long double)dx2), fabsl((long double)dy2)));
  return ldexpl(mp * L / fabsl((long double)det), -52);
}
// does the non-HP formula form an integer quantity that double arithmetic cannot be relied on to hold exactly (magnitude > 2^53):
// one of its four products, the determinant or the numerator of t?
static bool seg_std_inexact_product(P a, P c, i64 dx1, i64 dy1, i64 dx2, i64 dy2) {
  const u128 lim = (u128)1 << 53;
  i128 p1 = (i128)dy1 * dx2, p2 = (i128)dy2 * dx1, q1 = (i128)(a.x - c.x) * dy2, q2 = (i128)(a.y - c.y) * dx2;
  return uabs128(p1) > lim || uabs128(p2) > lim || uabs128(q1) > lim || uabs128(q2) > lim || uabs128(p1 - p2) > lim || uabs128(q1 - q2) > lim;
}
static const i64 SEG_MAXC = (i64)1 << 40;
struct SegTally { u64 ill_false = 0, ill_point = 0, trunc_point = 0, wrong_false = 0, wrong_true = 0, wrong_point = 0; long double ill_max_err = 0, trunc_max_excess = 0, wrong_max_err = 0; };

// Tags of GetSegmentIntersectPt violations (first match):
//   segisect_illconditioned  the input satisfies the D11 condition above (defect D11)
//   segisect_trunc_excess    non-HP variant only; not D11; the formula forms an integer (product, determinant or numerator) of magnitude > 2^53 (inexact in double) and the
//                            returned point misses the 1-unit bound by no more than 2^-10 unit on either axis (a value that is accurate
//                            before truncation lands on the wrong side of an integer and is then truncated a full unit away)
//   segisect_wrong           everything else (nothing of this kind may occur on the unchanged tree)
static void check_seg(Reporter& rep, int cfg, P a, P b, P c, P d, SegTally& tl) {
  cur.f = F_SEG; cur.cfg = cfg; cur.v[0] = a.x; cur.v[1] = a.y; cur.v[2] = b.x; cur.v[3] = b.y; cur.v[4] = c.x; cur.v[5] = c.y; cur.v[6] = d.x; cur.v[7] = d.y;
  P ip{0, 0};
  bool r = APIS[cfg].seg(a, b, c, d, &ip);
  i64 dx1 = b.x - a.x, dy1 = b.y - a.y, dx2 = d.x - c.x, dy2 = d.y - c.y;
  i128 det = (i128)dy1 * dx2 - (i128)dy2 * dx1;
  ++CT[K_cases]; ++CT[K_lib_calls]; ++CT[K_compared]; ++CT[K_seg_cases];
  if ((dx1 == 0 && dy1 == 0) || (dx2 == 0 && dy2 == 0)) ++CT[K_seg_zero_length_segment];
  const char* clause = nullptr; std::string detail;
  bool judged_point = false, small_excess = false;
  long double err_units = 0;                       // largest per-axis distance from the exact crossing (point_off only)
  i128 tn = 0, un = 0, dn = det;
  if (det == 0) {
    ++CT[K_seg_parallel];
    if (r) { clause = "true_for_parallel"; detail = "returned true (ip=" + str(Path{ip}) + ") although the direction vectors are exactly parallel (128-bit determinant 0)"; }
  } else {
    ++CT[K_seg_nonparallel];
    tn = (i128)(a.x - c.x) * dy2 - (i128)(a.y - c.y) * dx2;     // crossing = a + (tn/det)*(b-a) = c + (un/det)*(d-c)
    un = (i128)(a.x - c.x) * dy1 - (i128)(a.y - c.y) * dx1;
    if (dn < 0) { dn = -dn; tn = -tn; un = -un; }
    bool onboth = tn >= 0 && tn <= dn && un >= 0 && un <= dn;
    if (onboth) { ++CT[K_seg_crossing_on_both_judged]; ++CT[K_nontrivial]; } else ++CT[K_seg_crossing_outside_point_not_judged];
    if (!r) { clause = "false_for_nonparallel"; detail = "returned false although the determinant is " + i128str(det) + " (not parallel)"; }
    else if (onboth) {
      judged_point = true;
      // |ip - crossing| <= 1 per axis  <=>  |(ip.x - a.x)*dn - tn*dx1| <= dn ; the crossing is on segment 1, so |ip.x-a.x| > |dx1|+1 is off already
      // (that pre-test also keeps the products below 2^127: |ex| <= 2^41+1, dn <= 2^83, tn <= dn)
      i128 ex = (i128)ip.x - a.x, ey = (i128)ip.y - a.y;
      bool farx = uabs128(ex) > uabs128(dx1) + 1, fary = uabs128(ey) > uabs128(dy1) + 1;
      u128 nx = farx ? 0 : uabs128(ex * dn - tn * dx1), ny = fary ? 0 : uabs128(ey * dn - tn * dy1);
      bool offx = farx || nx > (u128)dn, offy = fary || ny > (u128)dn;
      if (offx || offy) {
        clause = "point_off";
        u128 thr = (u128)dn + ((u128)dn >> 10);    // 1 + 2^-10 units
        small_excess = !farx && !fary && nx <= thr && ny <= thr;
        long double t = (long double)tn / (long double)dn;
        long double X = (long double)a.x + t * dx1, Y = (long double)a.y + t * dy1;
        long double erx = farx ? fabsl((long double)ip.x - X) : (long double)nx / (long double)dn, ery = fary ? fabsl((long double)ip.y - Y) : (long double)ny / (long double)dn;
        err_units = std::max(erx, ery);
        char bf[320]; snprintf(bf, sizeof bf, "returned ip=%lld,%lld; exact crossing (on both segments) = (%.9Lf, %.9Lf); distance per axis (%.9Lg, %.9Lg) exceeds 1 unit", (long long)ip.x, (long long)ip.y, X, Y, erx, ery);
        detail = bf;
      }
    }
  }
  if (g_verbose) {
    printf("GetSegmentIntersectPt[%s](%s) = %d ip=%s; exact det=%s t=%s/%s u=%s/%s%s\n", APIS[cfg].name, str(Path{a, b, c, d}).c_str(), (int)r, str(Path{ip}).c_str(), i128str(det).c_str(),
           i128str(tn).c_str(), i128str(dn).c_str(), i128str(un).c_str(), i128str(dn).c_str(), judged_point ? " (crossing on both segments: point judged)" : "");
    if (det != 0) printf("   D11 condition value 2^-52*maxprod/|det|*maxlen = %.6Lg (ill-conditioned iff > 0.25): %s; non-HP formula forms an integer > 2^53: %s\n", seg_cond_value(dx1, dy1, dx2, dy2, det),
                         seg_ill_conditioned(dx1, dy1, dx2, dy2, det) ? "ill-conditioned" : "well-conditioned", seg_std_inexact_product(a, c, dx1, dy1, dx2, dy2) ? "yes" : "no");
  }
  if (!clause) return;
  bool ill = seg_ill_conditioned(dx1, dy1, dx2, dy2, det);
  const char* tag;
  if (ill) {
    tag = "segisect_illconditioned";
    if (!r) ++tl.ill_false; else { ++tl.ill_point; tl.ill_max_err = std::max(tl.ill_max_err, err_units); }
  } else if (cfg != CFG_HP && judged_point && small_excess && seg_std_inexact_product(a, c, dx1, dy1, dx2, dy2)) {
    tag = "segisect_trunc_excess";
    ++tl.trunc_point; tl.trunc_max_excess = std::max(tl.trunc_max_excess, err_units - 1.0L);
  } else {
    tag = "segisect_wrong";
    if (det == 0) ++tl.wrong_true; else if (!r) ++tl.wrong_false; else { ++tl.wrong_point; tl.wrong_max_err = std::max(tl.wrong_max_err, err_units); }
  }
  char cv[96] = "";
  if (det != 0) snprintf(cv, sizeof cv, "; D11 condition value %.4Lg (%s 1/4)", seg_cond_value(dx1, dy1, dx2, dy2, det), ill ? ">" : "<=");
  rep.violation("C18", key_seg(cfg, a, b, c, d), tag, std::string(clause) + ": " + detail + cv);
}

// the jittered 3x3 lattice: (i*2^S + jx + org, j*2^S + jy + org), i,j in 0..2, jx,jy in -1..1 (duplicates removed: S=0 gives 25 points)
static std::vector<P> seg_points(int S, bool centred) {
  i64 step = (i64)1 << S, org = centred ? -step : 0;
  std::vector<P> v;
  for (int j = 0; j < 3; ++j) for (int i = 0; i < 3; ++i) for (int jy = -1; jy <= 1; ++jy) for (int jx = -1; jx <= 1; ++jx) v.push_back({i * step + jx + org, j * step + jy + org});
  std::sort(v.begin(), v.end()); v.erase(std::unique(v.begin(), v.end()), v.end());
  return v;
}
static bool scope_seg(Reporter& rep, const std::vector<int>& Ss, bool centred) {
  for (int S : Ss) {
    std::vector<P> pts = seg_points(S, centred);
    size_t n = pts.size();
    SegTally tl[NCFG];
    bool timeout = false;
    for (size_t o = 0; o < n * n && !timeout; ++o) {
      if (!rep.mine(o)) continue;
      if (rep.out_of_time()) { timeout = true; break; }
      P a = pts[o / n], b = pts[o % n];
      for (size_t k = 0; k < n; ++k) for (size_t l = 0; l < n; ++l) {
        check_seg(rep, CFG_STD, a, b, pts[k], pts[l], tl[CFG_STD]);
        check_seg(rep, CFG_HP, a, b, pts[k], pts[l], tl[CFG_HP]);
      }
    }
    flush(rep);
    std::string sfx = std::string(centred ? "c" : "") + "S" + std::to_string(S);
    for (int cfg : {CFG_STD, CFG_HP}) {
      std::string p = "seg_viol_" + sfx + "_" + APIS[cfg].name + "_";
      rep.add(p + "illconditioned_false_for_nonparallel", tl[cfg].ill_false);
      rep.add(p + "illconditioned_point_off", tl[cfg].ill_point);
      rep.add(p + "trunc_excess_point_off", tl[cfg].trunc_point);
      rep.add(p + "WRONG_false_for_nonparallel", tl[cfg].wrong_false);
      rep.add(p + "WRONG_true_for_parallel", tl[cfg].wrong_true);
      rep.add(p + "WRONG_point_off", tl[cfg].wrong_point);
      rep.maxi(p + "illconditioned_max_error_units", (u64)std::min<long double>(tl[cfg].ill_max_err, 1e18L));
      rep.maxi(p + "trunc_excess_max_excess_nano_units", (u64)ceill(tl[cfg].trunc_max_excess * 1e9L));
      rep.maxi(p + "WRONG_max_error_milli_units", (u64)std::min<long double>(tl[cfg].wrong_max_err * 1e3L, 1e18L));
    }
    if (timeout) return false;
    rep.bounds_completed.push_back("seg: " + std::string(centred ? "centred " : "") + "3x3 lattice * 2^" + std::to_string(S) + " with +-1 jitter (" + std::to_string(n) + " points), all ordered 4-tuples, cfg std and hp");
  }
  if (rep.args.shard == 0) rep.sample("GetSegmentIntersectPt: s=-1,-1 134217728,134217727 1,1 134217728,134217727 (S=27) ; s=0,0 2,2 0,2 2,0 (S=0)", 16);
  return true;
}

// ================================================================== replay
static int replay(Reporter& rep, const std::string& text) {
  Case c = Case::parse(text);
  std::string f = c.get("f");
  std::vector<int> cfgs;
  if (c.has("cfg")) cfgs.push_back(cfg_of(c.get("cfg"))); else cfgs = {0, 1, 2};
  g_verbose = true;
  for (int cfg : cfgs) {
    if (f == "mul") check_mul(rep, cfg, strtoull(c.get("a").c_str(), nullptr, 10), strtoull(c.get("b").c_str(), nullptr, 10));
    else if (f == "pae") {
      i64 v[4] = {(i64)c.geti("a"), (i64)c.geti("b"), (i64)c.geti("c"), (i64)c.geti("d")};
      for (i64 x : v) if (x == INT64_MIN) { fprintf(stderr, "INT64_MIN is outside the stated domain\n"); return 2; }
      check_pae(rep, cfg, v[0], v[1], v[2], v[3]);
    } else if (f == "cps" || f == "col") {
      Paths p = c.getp("p");
      if (p.size() != 1 || p[0].size() != 3) { fprintf(stderr, "p must hold three points\n"); return 2; }
      i64 v[6] = {p[0][0].x, p[0][0].y, p[0][1].x, p[0][1].y, p[0][2].x, p[0][2].y};
      if (!tri_in_domain(v)) { fprintf(stderr, "coordinate differences overflow int64: outside the stated domain\n"); return 2; }
      check_tri(rep, cfg, v, f == "cps", f == "col");
    } else if (f == "pip") {
      Paths p = c.getp("poly"), q = c.getp("pt");
      if (p.size() != 1 || q.size() != 1 || q[0].size() != 1) { fprintf(stderr, "need poly and pt\n"); return 2; }
      if (p[0].empty() || one_horizontal_line(p[0])) { fprintf(stderr, "polygon lies in one horizontal line: outside the stated domain\n"); return 2; }
      std::vector<P> pts{q[0][0]}; std::vector<signed char> e(1), g(1);
      // single configuration: emulate the batch for this cfg only
      e[0] = (signed char)pip_exact(p[0], pts[0]);
      cur.f = F_PIP; cur.cfg = cfg; cur.poly = &p[0]; cur.pt = pts[0];
      APIS[cfg].pip(p[0], pts.data(), 1, g.data());
      cur.poly = nullptr;
      printf("PointInPolygon[%s](pt=%s, poly=%s) = %s; exact even-odd: %s\n", APIS[cfg].name, str(Path{pts[0]}).c_str(), str(p[0]).c_str(), PIPNAME[(int)g[0]], PIPNAME[(int)e[0]]);
      if (g[0] != e[0]) rep.violation("C18", key_pip(cfg, p[0], pts[0]), "pip_wrong", std::string("PointInPolygon returned ") + PIPNAME[(int)g[0]] + ", exact even-odd classification is " + PIPNAME[(int)e[0]]);
    } else if (f == "seg") {
      Paths p = c.getp("s");
      if (p.size() != 1 || p[0].size() != 4) { fprintf(stderr, "s must hold four points\n"); return 2; }
      for (auto& q : p[0]) if (q.x > SEG_MAXC || q.x < -SEG_MAXC || q.y > SEG_MAXC || q.y < -SEG_MAXC) { fprintf(stderr, "|coordinate| > 2^40: outside the stated domain\n"); return 2; }
      if (cfg == CFG_PORT) { fprintf(stderr, "seg is enumerated for cfg std and hp\n"); }
      SegTally tl; check_seg(rep, cfg, p[0][0], p[0][1], p[0][2], p[0][3], tl);
    } else if (f == "area") {
      Paths p = c.getp("poly");
      if (p.size() != 1) { fprintf(stderr, "need poly\n"); return 2; }
      check_area(rep, cfg, p[0]);
    } else { fprintf(stderr, "unknown function '%s' in case string\n", f.c_str()); return 2; }
  }
  printf("violations: %llu\n", (unsigned long long)rep.nviol);
  for (auto& v : rep.viols) printf("  %s %s: %s\n", v.prop.c_str(), v.tag.c_str(), v.detail.c_str());
  return rep.nviol ? 1 : 0;
}

static std::vector<std::string> split(const std::string& s) { std::vector<std::string> r; std::stringstream ss(s); std::string t; while (std::getline(ss, t, ',')) if (!t.empty()) r.push_back(t); return r; }

int main(int argc, char** argv) {
  Args a = parse_args(argc, argv);
  if (a.prop.empty()) a.prop = "C18";
  Reporter rep(a);
  rep.current_prop = "C18";
  install_crash_handler(rep);
  rep.current_case = [] { return cur_key(); };
  verify_configurations();
  if (!a.replay.empty()) return replay(rep, a.replay);

  std::vector<std::string> only = split(a.opt("only", "mul,pae,tri,area,pip,seg"));
  auto want = [&](const char* s) { return std::find(only.begin(), only.end(), s) != only.end(); };
  int nmax = (int)a.opti("nmax", 5);
  int nmax_distinct = std::min<int>(7, (int)a.opti("nmax_distinct", nmax));
  bool repeats = a.opti("repeats", a.thorough() ? 1 : 0) != 0;
  std::vector<int> Ss; for (auto& s : split(a.opt("S", a.thorough() ? "0,10,20,27,38" : "0,10,20,27"))) Ss.push_back(atoi(s.c_str()));
  bool centred = a.opti("centred", a.thorough() ? 1 : 0) != 0;

  bool ok = true;
  if (ok && want("mul")) { ok = scope_mul(rep); flush(rep); }
  if (ok && want("pae")) { ok = scope_pae(rep); flush(rep); }
  if (ok && want("tri")) { ok = scope_tri(rep); flush(rep); }
  if (ok && want("area")) { ok = scope_area(rep, 0, nmax, repeats); flush(rep); }
  if (ok && want("pip")) { ok = scope_pip(rep, 3, nmax, repeats); flush(rep); }
  if (ok && want("seg")) { ok = scope_seg(rep, Ss, false); flush(rep); }
  if (ok && want("seg") && centred) { ok = scope_seg(rep, Ss, true); flush(rep); }
  // extra bound: polygons of more (distinct) vertices than the base bound
  if (ok && want("area") && nmax_distinct > nmax) { ok = scope_area(rep, nmax + 1, nmax_distinct, false); flush(rep); }
  if (ok && want("pip") && nmax_distinct > nmax) { ok = scope_pip(rep, nmax + 1, nmax_distinct, false); flush(rep); }
  flush(rep);
  rep.current_case = nullptr;
  rep.write();
  return 0;
}
