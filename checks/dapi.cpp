// C16: the floating-point (PathsD) API is the integer API on scaled coordinates.
//
// Every PathsD entry point is called on every input of the scopes below; the harness scales the
// same input itself (documented factor, IEEE product x*scale, round half away from zero), calls
// the Paths64 operation and requires
//   * the same number of paths / vertices in the same order,
//   * round(returned double * scale) == integer coordinate            (clause "roundtrip"),
//   * returned double within 1 ulp of integer * (1/scale)             (clause "ulp"),
//   * PolyTreeD == PolyTree64 node for node (same child counts, same child order, polygons under
//     the same two clauses)                                            (clauses "tree_*").
// Scale: smallest power of two above 10^p for ClipperD and everything built on it (BooleanOp,
// Intersect, Union, Difference, Xor), std::pow(10, p) for InflatePaths, RectClip, RectClipLines,
// MinkowskiSum/Diff and TrimCollinear.
#include "clipper2/clipper.h"
#include "sides/clip_api.hpp"
#include "engine/boards.hpp"
#include <cmath>
#include <cfloat>

namespace C2 = Clipper2Lib;
using C2::Path64; using C2::PathD; using C2::Paths64; using C2::PathsD; using C2::Point64; using C2::PointD;
using vf::Case; using vf::i64; using vf::Reporter; using vf::u64;

static const double TWO52 = 4503599627370496.0;   // 2^52
static const double TWO49 = 562949953421312.0;    // 2^49

// ------------------------------------------------------------------------------------------ text
static std::string dnum(double v) { char b[48]; snprintf(b, sizeof b, "%.17g", v); return b; }
static std::string dstr(const PathD& p) {
  std::string s;
  for (size_t i = 0; i < p.size(); ++i) { if (i) s += ' '; s += dnum(p[i].x) + "," + dnum(p[i].y); }
  return s;
}
static std::string dstr(const PathsD& pp) {
  if (pp.empty()) return "-";
  std::string s;
  for (size_t i = 0; i < pp.size(); ++i) { if (i) s += ';'; s += dstr(pp[i]); }
  return s;
}
static PathsD parse_pathsD(const std::string& s) {
  PathsD out;
  if (s == "-" || s.empty()) return out;
  PathD cur; size_t i = 0, n = s.size();
  while (i <= n) {
    if (i == n || s[i] == ';') { out.push_back(cur); cur.clear(); ++i; continue; }
    if (s[i] == ' ') { ++i; continue; }
    char* e; double x = strtod(s.c_str() + i, &e); i = e - s.c_str(); if (i < n && s[i] == ',') ++i;
    double y = strtod(s.c_str() + i, &e); i = e - s.c_str();
    cur.push_back(PointD(x, y));
  }
  return out;
}
static std::string istr(const Paths64& pp) { return vf::pstr(vfc::from64(pp)); }
static std::string istr(const Path64& p) { return vf::str(vfc::from64(p)); }

// ------------------------------------------------------------------------------------------ scales
// smallest power of two strictly above 10^p, by integer arithmetic (independent of libm)
static double pow2_above_pow10(int p) {
  u64 t = 1; for (int i = 0; i < (p < 0 ? -p : p); ++i) t *= 10;
  if (p >= 0) { int k = 0; while (((u64)1 << k) <= t) ++k; return std::ldexp(1.0, k); }
  int m = 0; while (((u64)1 << (m + 1)) < t) ++m;   // largest m with 2^m < 10^|p|  (10^|p| is no power of two)
  return std::ldexp(1.0, -m);
}
enum { SK_POW2 = 0, SK_POW10 = 1 };
static double scale_for(int kind, int p) { return kind == SK_POW2 ? pow2_above_pow10(p) : std::pow(10, p); }

// ------------------------------------------------------------------------------------------ oracle scaling
struct ScStat { bool frac = false, oor = false; int ties = 0; };
// the product is formed in double exactly as the library forms it; rounding is half away from zero
static inline i64 sc1(double x, double s, ScStat& st) {
  double t = x * s;
  double a = std::fabs(t);
  if (!(a <= TWO52)) { st.oor = true; return 0; }
  double f = std::floor(a), r = a - f;   // exact below 2^52
  if (r != 0) { st.frac = true; if (r == 0.5) ++st.ties; }
  i64 n = (i64)f + (r >= 0.5 ? 1 : 0);
  return t < 0 ? -n : n;
}
static Path64 sc_path(const PathD& p, double s, ScStat& st) {
  Path64 r; r.reserve(p.size());
  for (auto& q : p) { i64 x = sc1(q.x, s, st), y = sc1(q.y, s, st); r.push_back(Point64(x, y)); }
  return r;
}
static Paths64 sc_paths(const PathsD& pp, double s, ScStat& st) {
  Paths64 r; r.reserve(pp.size());
  for (auto& p : pp) r.push_back(sc_path(p, s, st));
  return r;
}

// ------------------------------------------------------------------------------------------ comparison
struct Fail { std::string clause, detail; };

static inline bool within_1ulp(double got, double ref) {
  return got == ref || got == std::nextafter(ref, HUGE_VAL) || got == std::nextafter(ref, -HUGE_VAL);
}
static bool cmp_coord(double got, i64 want, double s, double inv, Fail& f, const char* axis, size_t pi, size_t vi, const std::string& where) {
  double ref = (double)want * inv;
  if (!(within_1ulp(got, ref))) {
    f.clause = "ulp";
    f.detail = where + "path " + std::to_string(pi) + " vertex " + std::to_string(vi) + " " + axis + ": returned " + dnum(got) + " but integer result " + std::to_string(want) + " * (1/scale) = " + dnum(ref);
    return false;
  }
  bool ok;
  double aw = std::fabs((double)want);
  if (aw <= TWO49) {
    double t = got * s, a = std::fabs(t), fl = std::floor(a);
    i64 n = (i64)fl + (a - fl >= 0.5 ? 1 : 0); if (t < 0) n = -n;
    ok = (n == want);
  } else {
    // beyond 2^49 the 1-ulp clause no longer implies an exact round trip in double: widen by the evaluation error
    long double tl = (long double)got * (long double)s - (long double)want;
    ok = fabsl(tl) <= 0.5L + (long double)aw * ldexpl(1.0L, -50);
  }
  if (!ok) {
    f.clause = "roundtrip";
    f.detail = where + "path " + std::to_string(pi) + " vertex " + std::to_string(vi) + " " + axis + ": returned " + dnum(got) + ", times scale " + dnum(s) + " = " + dnum(got * s) + " does not round to the integer result " + std::to_string(want);
    return false;
  }
  return true;
}
static bool cmp_path(const PathD& g, const Path64& w, double s, double inv, Fail& f, size_t pi, const std::string& where) {
  if (g.size() != w.size()) {
    f.clause = "nverts";
    f.detail = where + "path " + std::to_string(pi) + ": " + std::to_string(g.size()) + " vertices returned, integer result has " + std::to_string(w.size()) + " (D: " + dstr(g) + " | 64: " + istr(w) + ")";
    return false;
  }
  for (size_t i = 0; i < g.size(); ++i)
    if (!cmp_coord(g[i].x, w[i].x, s, inv, f, "x", pi, i, where) || !cmp_coord(g[i].y, w[i].y, s, inv, f, "y", pi, i, where)) return false;
  return true;
}
static bool cmp_paths(const PathsD& g, const Paths64& w, double s, double inv, Fail& f, const std::string& where = "") {
  if (g.size() != w.size()) {
    f.clause = "npaths";
    f.detail = where + std::to_string(g.size()) + " paths returned, integer result has " + std::to_string(w.size()) + " (D: " + dstr(g) + " | 64: " + istr(w) + ")";
    return false;
  }
  for (size_t i = 0; i < g.size(); ++i) if (!cmp_path(g[i], w[i], s, inv, f, i, where)) return false;
  return true;
}
static bool cmp_tree(const C2::PolyPathD& g, const C2::PolyPath64& w, double s, double inv, Fail& f, const std::string& node, u64& nodes, unsigned& depth) {
  if (g.Count() != w.Count()) {
    f.clause = "tree_shape";
    f.detail = "node " + node + ": " + std::to_string(g.Count()) + " children in PolyTreeD, " + std::to_string(w.Count()) + " in PolyTree64";
    return false;
  }
  if (g.Level() != w.Level() || g.IsHole() != w.IsHole()) { f.clause = "tree_shape"; f.detail = "node " + node + ": level/IsHole differ"; return false; }
  depth = std::max(depth, g.Level());
  if (g.Level() > 0) {
    ++nodes;
    Fail pf;
    if (!cmp_path(g.Polygon(), w.Polygon(), s, inv, pf, 0, "node " + node + " ")) { f.clause = "tree_" + pf.clause; f.detail = pf.detail; return false; }
  }
  for (size_t i = 0; i < g.Count(); ++i)
    if (!cmp_tree(*g.Child(i), *w.Child(i), s, inv, f, node + "/" + std::to_string(i), nodes, depth)) return false;
  return true;
}
static void tree_str(const C2::PolyPath64& w, std::string& out) {
  out += "("; if (w.Level()) out += istr(w.Polygon());
  for (size_t i = 0; i < w.Count(); ++i) tree_str(*w.Child(i), out);
  out += ")";
}
static void tree_str(const C2::PolyPathD& w, std::string& out) {
  out += "("; if (w.Level()) out += dstr(w.Polygon());
  for (size_t i = 0; i < w.Count(); ++i) tree_str(*w.Child(i), out);
  out += ")";
}

// ------------------------------------------------------------------------------------------ bookkeeping
struct Ctx {
  Reporter& rep;
  bool verbose = false;
  std::string only_ep;     // replay: judge this entry point only
  bool want(const char* ep) const { return only_ep.empty() || only_ep == ep; }
};
template <class KeyFn>
static void judge(Ctx& cx, const char* ep, bool ok, const Fail& f, KeyFn keyfn, bool nontrivial, u64 outcome) {
  Reporter& rep = cx.rep;
  rep.add("cases"); rep.add("compared"); rep.add(std::string("ep.") + ep);
  if (nontrivial) { rep.add("nontrivial"); rep.add(std::string("nontrivial.") + ep); }
  rep.outcome(vf::hmix(outcome, vf::hash_str(ep)));
  if (cx.verbose) printf("  [%s] %s%s%s\n", ep, ok ? "ok" : ("VIOLATION " + (f.clause[0] == '@' ? f.clause.substr(1) : f.clause)).c_str(), ok ? "" : ": ", ok ? "" : f.detail.c_str());
  // tag = <entry point>.<clause>; a clause starting with '@' is a mechanically classified defect class shared by several entry points
  if (!ok) rep.violation(rep.args.prop.empty() ? "C16" : rep.args.prop, keyfn(), f.clause[0] == '@' ? f.clause.substr(1) : std::string(ep) + "." + f.clause, f.detail);
}
static void note_scaling(Reporter& rep, const ScStat& st) {
  rep.add("scaled_inputs");
  if (st.frac) rep.add("inputs_rounding_changed_a_coordinate");
  if (st.ties) { rep.add("inputs_with_rounding_tie"); rep.add("tie_coordinates", st.ties); }
}
static bool same_canon(const Paths64& a, const vf::Paths& canon_b) { return vf::canon_closed(vfc::from64(a)) == canon_b; }

static bool ptsclose(const Point64& a, const Point64& b) { return std::llabs(a.x - b.x) < 2 && std::llabs(a.y - b.y) < 2; }
static bool small_open3(const Path64& p) { return p.size() == 3 && (ptsclose(p[0], p[1]) || ptsclose(p[1], p[2]) || ptsclose(p[0], p[2])); }

// ------------------------------------------------------------------------------------------ boolean family
struct BoolIn { PathsD S, C, O; int p = 2; };
struct BoolPrep { Paths64 S64, C64, O64; double s = 1, inv = 1; ScStat st; vf::Paths cS, cC; };

static bool prep_bool(const BoolIn& in, BoolPrep& pr) {
  pr.s = scale_for(SK_POW2, in.p); pr.inv = 1 / pr.s;
  pr.st = ScStat();
  pr.S64 = sc_paths(in.S, pr.s, pr.st); pr.C64 = sc_paths(in.C, pr.s, pr.st); pr.O64 = sc_paths(in.O, pr.s, pr.st);
  if (pr.st.oor) return false;
  pr.cS = vf::canon_closed(vfc::from64(pr.S64)); pr.cC = vf::canon_closed(vfc::from64(pr.C64));
  return true;
}
static std::string bool_key(const BoolIn& in, const char* ep, int ct, int fr, int pc, int rs) {
  Case c; c.set("g", "bool").set("ep", ep).set("S", dstr(in.S)).set("C", dstr(in.C)).set("O", dstr(in.O)).set("p", in.p).set("ct", ct).set("fr", fr).set("pc", pc).set("rs", rs);
  return c.s();
}
static const PathD& junkD() { static const PathD j{PointD(12345.0, 54321.0), PointD(1.0, 2.0), PointD(3.0, 4.0)}; return j; }
static const Path64& junk64() { static const Path64 j{Point64(12345, 54321), Point64(1, 2), Point64(3, 4)}; return j; }

// only_pc < 0: both option pairs (pc=1,rs=0) and (pc=0,rs=1)
static void run_bool(Ctx& cx, const BoolIn& in, const BoolPrep& pr, int ct, int fr, int only_pc = -1) {
  Reporter& rep = cx.rep;
  const C2::ClipType CT = (C2::ClipType)ct; const C2::FillRule FR = (C2::FillRule)fr;
  const double s = pr.s, inv = pr.inv;
  const char* cur_ep = "clipperd"; int cur_pc = 1, cur_rs = 0;
  rep.current_case = [&]() { return bool_key(in, cur_ep, ct, fr, cur_pc, cur_rs); };
  auto nontriv = [&](const Paths64& closed, const Paths64& open) {
    bool tc = closed.empty() || same_canon(closed, pr.cS) || same_canon(closed, pr.cC);
    bool to = open.empty() || open == pr.O64;
    return !(tc && to);
  };
  Paths64 def_closed; bool have_def = false;   // oracle result with default options, shared by the free functions
  C2::PolyTree64 wt; C2::PolyTreeD gt;          // reused between option pairs: Execute must replace their content

  for (int v = 0; v < 2; ++v) {
    int pc = v == 0 ? 1 : 0, rs = v == 0 ? 0 : 1;
    if (only_pc >= 0 && pc != only_pc) continue;
    cur_pc = pc; cur_rs = rs;
    bool need_paths = cx.want("clipperd") || (v == 0 && (cx.want("boolop") || cx.want("named")));
    if (need_paths) {
      cur_ep = "clipperd";
      Paths64 wc{junk64()}, wo{junk64()};
      C2::Clipper64 c; c.PreserveCollinear(pc); c.ReverseSolution(rs);
      c.AddSubject(pr.S64); if (!pr.O64.empty()) c.AddOpenSubject(pr.O64); c.AddClip(pr.C64);
      bool ok64 = c.Execute(CT, FR, wc, wo); rep.add("lib_calls");
      if (v == 0) { def_closed = wc; have_def = true; }
      if (cx.want("clipperd")) {
        PathsD gc{junkD()}, go{junkD()};   // pre-filled: a successful Execute must replace the content
        C2::ClipperD d(in.p); d.PreserveCollinear(pc); d.ReverseSolution(rs);
        d.AddSubject(in.S); if (!in.O.empty()) d.AddOpenSubject(in.O); d.AddClip(in.C);
        bool okD = d.Execute(CT, FR, gc, go); rep.add("lib_calls");
        if (cx.verbose) printf("  ClipperD pc=%d rs=%d: ok=%d closed=%s open=%s\n  Clipper64        : ok=%d closed=%s open=%s\n", pc, rs, (int)okD, dstr(gc).c_str(), dstr(go).c_str(), (int)ok64, istr(wc).c_str(), istr(wo).c_str());
        Fail f; bool ok = true;
        if (okD != ok64) { ok = false; f.clause = "execute_result"; f.detail = "ClipperD::Execute returned " + std::to_string(okD) + ", Clipper64::Execute " + std::to_string(ok64); }
        else if (d.ErrorCode() != 0) { ok = false; f.clause = "error_code"; f.detail = "ClipperD error code " + std::to_string(d.ErrorCode()) + " on an in-range input"; }
        else if (!cmp_paths(gc, wc, s, inv, f, "closed: ")) { ok = false; f.clause = "closed." + f.clause; }
        else if (!cmp_paths(go, wo, s, inv, f, "open: ")) {
          ok = false;
          // mechanical classification: the only difference is that 3-vertex open paths with two vertices
          // less than 2 units apart (PtsReallyClose) are missing from the ClipperD result
          Paths64 filt; for (auto& p : wo) if (!small_open3(p)) filt.push_back(p);
          Fail f2;
          if (filt.size() != wo.size() && cmp_paths(go, filt, s, inv, f2)) f.clause = "@BuildPathD.open_small_3vertex_path_dropped";
          else f.clause = "open." + f.clause;
        }
        if (!pr.O64.empty()) rep.add("cases_with_open_subject");
        if (!wo.empty()) rep.add("cases_with_open_solution");
        judge(cx, "clipperd", ok, f, [&]() { return bool_key(in, "clipperd", ct, fr, pc, rs); }, nontriv(wc, wo), vf::hash_paths(vfc::from64(wo), vf::hash_paths(vfc::from64(wc))));
      }
    }
    if (cx.want("clipperd_tree")) {
      cur_ep = "clipperd_tree";
      Paths64 wo{junk64()};
      C2::Clipper64 c; c.PreserveCollinear(pc); c.ReverseSolution(rs);
      c.AddSubject(pr.S64); if (!pr.O64.empty()) c.AddOpenSubject(pr.O64); c.AddClip(pr.C64);
      bool ok64 = c.Execute(CT, FR, wt, wo); rep.add("lib_calls");
      PathsD go{junkD()};
      C2::ClipperD d(in.p); d.PreserveCollinear(pc); d.ReverseSolution(rs);
      d.AddSubject(in.S); if (!in.O.empty()) d.AddOpenSubject(in.O); d.AddClip(in.C);
      bool okD = d.Execute(CT, FR, gt, go); rep.add("lib_calls");
      if (cx.verbose) { std::string a, b; tree_str(gt, a); tree_str(wt, b); printf("  ClipperD tree pc=%d rs=%d: ok=%d %s open=%s\n  Clipper64 tree       : ok=%d %s open=%s\n", pc, rs, (int)okD, a.c_str(), dstr(go).c_str(), (int)ok64, b.c_str(), istr(wo).c_str()); }
      Fail f; bool ok = true; u64 nodes = 0; unsigned depth = 0;
      if (okD != ok64) { ok = false; f.clause = "execute_result"; f.detail = "ClipperD::Execute(tree) returned " + std::to_string(okD) + ", Clipper64 " + std::to_string(ok64); }
      else if (!cmp_tree(gt, wt, s, inv, f, "root", nodes, depth)) ok = false;
      else if (!cmp_paths(go, wo, s, inv, f, "open: ")) {
        ok = false;
        Paths64 filt; for (auto& p : wo) if (!small_open3(p)) filt.push_back(p);
        Fail f2;
        if (filt.size() != wo.size() && cmp_paths(go, filt, s, inv, f2)) f.clause = "@BuildPathD.open_small_3vertex_path_dropped";
        else f.clause = "open." + f.clause;
      }
      rep.add("tree_nodes_compared", nodes); if (depth >= 2) rep.add("trees_with_holes"); rep.maxi("tree_depth", depth);
      Paths64 flat = C2::PolyTreeToPaths64(wt);
      judge(cx, "clipperd_tree", ok, f, [&]() { return bool_key(in, "clipperd_tree", ct, fr, pc, rs); }, nontriv(flat, wo), vf::hash_paths(vfc::from64(wo), vf::hash_paths(vfc::from64(flat), 77)));
    }
  }
  // ---- free functions (no open subjects, default options)
  if (in.O.empty() && (only_pc < 0 || only_pc == 1)) {
    cur_pc = 1; cur_rs = 0;
    if (cx.want("boolop") && have_def) {
      cur_ep = "boolop";
      PathsD g = C2::BooleanOp(CT, FR, in.S, in.C, in.p); rep.add("lib_calls");
      if (cx.verbose) printf("  BooleanOp(PathsD): %s\n", dstr(g).c_str());
      Fail f; bool ok = cmp_paths(g, def_closed, s, inv, f);
      judge(cx, "boolop", ok, f, [&]() { return bool_key(in, "boolop", ct, fr, 1, 0); }, nontriv(def_closed, Paths64()), vf::hash_paths(vfc::from64(def_closed), 3));
    }
    if (cx.want("named") && have_def) {
      cur_ep = "named";
      PathsD g;
      switch (ct) {
        case 1: g = C2::Intersect(in.S, in.C, FR, in.p); break;
        case 2: g = C2::Union(in.S, in.C, FR, in.p); break;
        case 3: g = C2::Difference(in.S, in.C, FR, in.p); break;
        default: g = C2::Xor(in.S, in.C, FR, in.p); break;
      }
      rep.add("lib_calls");
      if (cx.verbose) printf("  named wrapper (ct=%d): %s\n", ct, dstr(g).c_str());
      Fail f; bool ok = cmp_paths(g, def_closed, s, inv, f);
      judge(cx, "named", ok, f, [&]() { return bool_key(in, "named", ct, fr, 1, 0); }, nontriv(def_closed, Paths64()), vf::hash_paths(vfc::from64(def_closed), 4));
    }
    if (cx.want("boolop_tree")) {
      cur_ep = "boolop_tree";
      C2::PolyTree64 w; C2::BooleanOp(CT, FR, pr.S64, pr.C64, w); rep.add("lib_calls");
      C2::BooleanOp(CT, FR, in.S, in.C, gt, in.p); rep.add("lib_calls");   // gt still holds the previous tree: must be replaced
      if (cx.verbose) { std::string a, b; tree_str(gt, a); tree_str(w, b); printf("  BooleanOp(PolyTreeD): %s\n  BooleanOp(PolyTree64): %s\n", a.c_str(), b.c_str()); }
      Fail f; u64 nodes = 0; unsigned depth = 0;
      bool ok = cmp_tree(gt, w, s, inv, f, "root", nodes, depth);
      rep.add("tree_nodes_compared", nodes);
      Paths64 flat = C2::PolyTreeToPaths64(w);
      judge(cx, "boolop_tree", ok, f, [&]() { return bool_key(in, "boolop_tree", ct, fr, 1, 0); }, nontriv(flat, Paths64()), vf::hash_paths(vfc::from64(flat), 5));
    }
    if (cx.want("union1") && ct == 2 && in.C.empty()) {
      cur_ep = "union1";
      Paths64 w = C2::Union(pr.S64, FR); rep.add("lib_calls");
      PathsD g = C2::Union(in.S, FR, in.p); rep.add("lib_calls");
      if (cx.verbose) printf("  Union(PathsD subjects): %s\n  Union(Paths64 subjects): %s\n", dstr(g).c_str(), istr(w).c_str());
      Fail f; bool ok = cmp_paths(g, w, s, inv, f);
      judge(cx, "union1", ok, f, [&]() { return bool_key(in, "union1", ct, fr, 1, 0); }, nontriv(w, Paths64()), vf::hash_paths(vfc::from64(w), 6));
    }
  }
  rep.current_case = nullptr;
}

// ------------------------------------------------------------------------------------------ TrimCollinear
static std::string trim_key(const PathD& path, int p, int open) { Case c; c.set("g", "trim").set("ep", "trim").set("S", dstr(PathsD{path})).set("p", p).set("open", open); return c.s(); }
static void run_trim(Ctx& cx, const PathD& path, int p, int open) {
  Reporter& rep = cx.rep;
  double s = scale_for(SK_POW10, p), inv = 1 / s;
  ScStat st; Path64 in64 = sc_path(path, s, st);
  if (st.oor) { rep.add("skipped_out_of_range"); return; }
  note_scaling(rep, st);
  rep.current_case = [&]() { return trim_key(path, p, open); };
  Path64 w = C2::TrimCollinear(in64, open != 0); rep.add("lib_calls");
  PathD g = C2::TrimCollinear(path, p, open != 0); rep.add("lib_calls");
  if (cx.verbose) printf("  scale=%s scaled input=%s\n  TrimCollinear(PathD)=%s\n  TrimCollinear(Path64)=%s\n", dnum(s).c_str(), istr(in64).c_str(), dstr(g).c_str(), istr(w).c_str());
  Fail f; bool ok = cmp_path(g, w, s, inv, f, 0, "");
  if (!w.empty() && w.size() < in64.size()) rep.add("trim_removed_vertices");
  judge(cx, "trim", ok, f, [&]() { return trim_key(path, p, open); }, !w.empty() && !(w == in64), vf::hash_paths(vfc::from64(Paths64{w}), 7));
  rep.current_case = nullptr;
}

// ------------------------------------------------------------------------------------------ RectClip / RectClipLines
struct RectIn { double l, t, r, b; };
static std::string rect_key(const char* ep, const RectIn& R, const PathsD& paths, int p) {
  Case c; c.set("g", "rect").set("ep", ep).set("R", dnum(R.l) + "," + dnum(R.t) + " " + dnum(R.r) + "," + dnum(R.b)).set("S", dstr(paths)).set("p", p); return c.s();
}
static void run_rect(Ctx& cx, const RectIn& R, const PathsD& paths, int p, bool lines) {
  Reporter& rep = cx.rep;
  double s = scale_for(SK_POW10, p), inv = 1 / s;
  ScStat st; Paths64 in64 = sc_paths(paths, s, st);
  ScStat rst; C2::Rect64 r64(sc1(R.l, s, rst), sc1(R.t, s, rst), sc1(R.r, s, rst), sc1(R.b, s, rst));
  if (st.oor || rst.oor) { rep.add("skipped_out_of_range"); return; }
  note_scaling(rep, st);
  if (rst.frac) rep.add("rects_rounding_changed_a_coordinate");
  if (rst.ties) rep.add("rects_with_rounding_tie");
  if (r64.IsEmpty()) rep.add("rects_empty_after_scaling");
  C2::RectD rd(R.l, R.t, R.r, R.b);
  const char* ep = lines ? "rectcliplines" : "rectclip";
  const char* ep1 = lines ? "rectcliplines_path" : "rectclip_path";
  const char* cur = ep;
  rep.current_case = [&]() { return rect_key(cur, R, paths, p); };
  Paths64 w = lines ? C2::RectClipLines(r64, in64) : C2::RectClip(r64, in64); rep.add("lib_calls");
  bool nt = !w.empty() && !(w == in64);
  if (cx.verbose) printf("  scale=%s rect64=(%lld,%lld,%lld,%lld) scaled input=%s\n  64: %s\n", dnum(s).c_str(), (long long)r64.left, (long long)r64.top, (long long)r64.right, (long long)r64.bottom, istr(in64).c_str(), istr(w).c_str());
  if (cx.want(ep)) {
    PathsD g = lines ? C2::RectClipLines(rd, paths, p) : C2::RectClip(rd, paths, p); rep.add("lib_calls");
    if (cx.verbose) printf("  D (PathsD overload): %s\n", dstr(g).c_str());
    Fail f; bool ok = cmp_paths(g, w, s, inv, f);
    judge(cx, ep, ok, f, [&]() { return rect_key(ep, R, paths, p); }, nt, vf::hash_paths(vfc::from64(w), lines ? 8 : 9));
  }
  if (paths.size() == 1 && cx.want(ep1)) {
    cur = ep1;
    PathsD g = lines ? C2::RectClipLines(rd, paths[0], p) : C2::RectClip(rd, paths[0], p); rep.add("lib_calls");
    if (cx.verbose) printf("  D (PathD overload): %s\n", dstr(g).c_str());
    Fail f; bool ok = cmp_paths(g, w, s, inv, f);
    judge(cx, ep1, ok, f, [&]() { return rect_key(ep1, R, paths, p); }, nt, vf::hash_paths(vfc::from64(w), lines ? 10 : 11));
  }
  rep.current_case = nullptr;
}

// ------------------------------------------------------------------------------------------ Minkowski
static std::string mink_key(const char* ep, const PathD& pat, const PathD& path, int p, int closed) {
  Case c; c.set("g", "mink").set("ep", ep).set("C", dstr(PathsD{pat})).set("S", dstr(PathsD{path})).set("p", p).set("closed", closed); return c.s();
}
static void run_mink(Ctx& cx, const PathD& pat, const PathD& path, int p, int closed, bool sum) {
  Reporter& rep = cx.rep;
  double s = scale_for(SK_POW10, p), inv = 1 / s;
  ScStat st; Path64 pat64 = sc_path(pat, s, st), path64 = sc_path(path, s, st);
  if (st.oor) { rep.add("skipped_out_of_range"); return; }
  note_scaling(rep, st);
  const char* ep = sum ? "minkowskisum" : "minkowskidiff";
  rep.current_case = [&]() { return mink_key(ep, pat, path, p, closed); };
  Paths64 w = sum ? C2::MinkowskiSum(pat64, path64, closed != 0) : C2::MinkowskiDiff(pat64, path64, closed != 0); rep.add("lib_calls");
  PathsD g = sum ? C2::MinkowskiSum(pat, path, closed != 0, p) : C2::MinkowskiDiff(pat, path, closed != 0, p); rep.add("lib_calls");
  if (cx.verbose) printf("  scale=%s pattern64=%s path64=%s\n  D: %s\n  64: %s\n", dnum(s).c_str(), istr(pat64).c_str(), istr(path64).c_str(), dstr(g).c_str(), istr(w).c_str());
  Fail f; bool ok = cmp_paths(g, w, s, inv, f);
  judge(cx, ep, ok, f, [&]() { return mink_key(ep, pat, path, p, closed); }, !w.empty() && !(w == Paths64{path64}), vf::hash_paths(vfc::from64(w), sum ? 12 : 13));
  rep.current_case = nullptr;
}

// ------------------------------------------------------------------------------------------ InflatePaths
struct InflP { double delta; int jt, et; double ml, at; };
static std::string infl_key(const PathsD& in, int p, const InflP& q) {
  Case c; c.set("g", "inflate").set("ep", "inflate").set("S", dstr(in)).set("p", p).setd("d", q.delta).set("jt", q.jt).set("et", q.et).setd("ml", q.ml).setd("at", q.at); return c.s();
}
// returns the integer result through *out (used to count how often the arc tolerance mattered)
static bool run_inflate(Ctx& cx, const PathsD& in, int p, const InflP& q, Paths64* out = nullptr) {
  Reporter& rep = cx.rep;
  double s = scale_for(SK_POW10, p), inv = 1 / s;
  ScStat st; Paths64 in64 = sc_paths(in, s, st);
  if (st.oor) { rep.add("skipped_out_of_range"); return false; }
  note_scaling(rep, st);
  rep.current_case = [&]() { return infl_key(in, p, q); };
  PathsD g = C2::InflatePaths(in, q.delta, (C2::JoinType)q.jt, (C2::EndType)q.et, q.ml, p, q.at); rep.add("lib_calls");
  Fail f; bool ok = true; bool nt = false; u64 h = 14;
  if (q.delta == 0) {
    // both overloads return their argument unchanged when delta == 0 (the PathsD overload before any scaling)
    bool same = g.size() == in.size();
    for (size_t i = 0; same && i < g.size(); ++i) { same = g[i].size() == in[i].size(); for (size_t k = 0; same && k < g[i].size(); ++k) same = g[i][k].x == in[i][k].x && g[i][k].y == in[i][k].y; }
    if (!same) { ok = false; f.clause = "delta0_identity"; f.detail = "delta == 0 must return the argument unchanged; got " + dstr(g); }
    rep.add("inflate_delta0_identity"); if (st.frac) rep.add("inflate_delta0_returned_unrounded_input");
    if (out) *out = in64;
    if (cx.verbose) printf("  delta==0: D returned %s\n", dstr(g).c_str());
  } else {
    Paths64 w = C2::InflatePaths(in64, q.delta * s, (C2::JoinType)q.jt, (C2::EndType)q.et, q.ml, q.at * s); rep.add("lib_calls");
    if (cx.verbose) printf("  scale=%s scaled input=%s delta*scale=%s arc_tolerance*scale=%s\n  D: %s\n  64: %s\n", dnum(s).c_str(), istr(in64).c_str(), dnum(q.delta * s).c_str(), dnum(q.at * s).c_str(), dstr(g).c_str(), istr(w).c_str());
    ok = cmp_paths(g, w, s, inv, f);
    nt = !w.empty() && !(w == in64);
    h = vf::hash_paths(vfc::from64(w), 14);
    if (out) *out = w;
  }
  judge(cx, "inflate", ok, f, [&]() { return infl_key(in, p, q); }, nt, h);
  rep.current_case = nullptr;
  return true;
}

// ------------------------------------------------------------------------------------------ value maps
// board integer v -> double coordinate. kind 0: (v - (neg ? centre : 0)) / div + off ; 1: (v+0.5)/s ; 2: -(v+0.5)/s ;
// 3: (v - centre + 0.5)/s ; 4: x = (v+0.5)/s, y = v/s ; 5: v*div
struct VMap { const char* name; int kind; double div; bool neg; double off; };
static const VMap MAPS[] = {
    {"d1", 0, 1, false, 0},      {"d4", 0, 4, false, 0},     {"d200", 0, 200, false, 0},   {"d1000", 0, 1000, false, 0},
    {"n1", 0, 1, true, 0},       {"n4", 0, 4, true, 0},      {"n200", 0, 200, true, 0},    {"n1000", 0, 1000, true, 0},
    {"tie", 1, 1, false, 0},     {"ntie", 2, 1, false, 0},   {"ctie", 3, 1, true, 0},      {"tiex", 4, 1, false, 0},
    {"m50", 5, 50, false, 0},    {"big", 0, 4, false, 3.0e7}, {"nbig", 0, 4, true, -1.0e9},
};
static const int NMAPS = sizeof(MAPS) / sizeof(MAPS[0]);
static inline double mapv(const VMap& m, i64 v, double s, i64 centre, bool is_y) {
  switch (m.kind) {
    case 0: return ((double)(m.neg ? v - centre : v)) / m.div + m.off;
    case 1: return ((double)v + 0.5) / s;
    case 2: return -((double)v + 0.5) / s;
    case 3: return ((double)(v - centre) + 0.5) / s;
    case 4: return is_y ? (double)v / s : ((double)v + 0.5) / s;
    default: return (double)v * m.div;
  }
}
static PathD mapped(const vf::Path& p, const VMap& m, double s, i64 centre) {
  PathD r; r.reserve(p.size());
  for (auto& q : p) r.push_back(PointD(mapv(m, q.x, s, centre, false), mapv(m, q.y, s, centre, true)));
  return r;
}
static PathsD mapped(const vf::Paths& pp, const VMap& m, double s, i64 centre) { PathsD r; for (auto& p : pp) r.push_back(mapped(p, m, s, centre)); return r; }

static const int PREC_BOOL[] = {-2, 0, 2, 5, 8};

// ------------------------------------------------------------------------------------------ scopes
struct Enum {
  Ctx& cx; Reporter& rep; u64 idx = 0; bool stop = false;
  explicit Enum(Ctx& c) : cx(c), rep(c.rep) {}
  // ownership + deadline for one member of the outermost index
  bool take() {
    if (stop) return false;
    bool m = rep.mine(idx++);
    if (m && rep.out_of_time()) { stop = true; return false; }
    return m;
  }

  void bool_input(const vf::Paths& S, const vf::Paths& C, const vf::Paths& O, i64 centre) {
    for (int mi = 0; mi < NMAPS; ++mi)
      for (int p : PREC_BOOL) {
        double s = scale_for(SK_POW2, p);
        BoolIn in; in.S = mapped(S, MAPS[mi], s, centre); in.C = mapped(C, MAPS[mi], s, centre); in.O = mapped(O, MAPS[mi], s, centre); in.p = p;
        BoolPrep pr;
        if (!prep_bool(in, pr)) { rep.add("skipped_out_of_range"); continue; }
        note_scaling(rep, pr.st);
        for (int ct = 1; ct <= 4; ++ct) for (int fr = 0; fr < 4; ++fr) run_bool(cx, in, pr, ct, fr);
        if (mi == 2 && p == 2) rep.sample("bool S=" + dstr(in.S) + " C=" + dstr(in.C) + " O=" + dstr(in.O) + " p=2");
      }
  }

  // G board: one subject polygon x one clip polygon (or no clip), every entry point of the boolean family
  void scope_bool_G(int k) {
    auto PS = vf::board_PS(rep.args.seed), PC = vf::board_PC(rep.args.seed);
    std::vector<vf::Path> subs = vf::polygons_over(PS, k, 3, 4), clips = vf::polygons_over(PC, k, 3, 4);
    for (auto& sp : subs) {
      if (take()) bool_input({sp}, {}, {}, 50);
      for (auto& cp : clips) if (take()) bool_input({sp}, {cp}, {}, 50);
      if (stop) return;
    }
  }
  // open subjects over board PO against clip triangles, with and without a closed subject
  void scope_open_G(int k) {
    auto PS = vf::board_PS(rep.args.seed), PC = vf::board_PC(rep.args.seed), PO = vf::board_PO(rep.args.seed);
    int ko = k <= 5 ? 4 : 5;
    std::vector<vf::Path> opens = vf::polygons_over(PO, ko, 2, 3, false), clips = vf::polygons_over(PC, k, 3, 3);
    vf::Path quad{PS[0], PS[1], PS[2], PS[3]};
    for (auto& op : opens)
      for (auto& cp : clips) {
        if (take()) bool_input({}, {cp}, {op}, 50);
        if (take()) bool_input({quad}, {cp}, {op}, 50);
        if (stop) return;
      }
  }
  // 3x3 lattice: subject polygon x axis-parallel clip rectangle; open paths of 2..3 lattice points x 2 clips
  void scope_lattice(bool quads, bool all_rects) {
    auto L = vf::lattice(3, 3);
    std::vector<vf::Path> subs = vf::polygons_over(L, 9, 3, quads ? 4 : 3);
    std::vector<vf::Path> rects;
    if (all_rects) {
      for (i64 x0 = 0; x0 < 2; ++x0) for (i64 x1 = x0 + 1; x1 <= 2; ++x1) for (i64 y0 = 0; y0 < 2; ++y0) for (i64 y1 = y0 + 1; y1 <= 2; ++y1)
        rects.push_back({{x0, y0}, {x1, y0}, {x1, y1}, {x0, y1}});
    } else rects = {{{0, 0}, {2, 0}, {2, 2}, {0, 2}}, {{0, 0}, {1, 0}, {1, 1}, {0, 1}}, {{1, 0}, {2, 0}, {2, 2}, {1, 2}}};
    for (auto& sp : subs) for (auto& r : rects) { if (take()) bool_input({sp}, {r}, {}, 1); if (stop) return; }
  }
  void scope_lattice_open(bool both_clips) {
    auto L = vf::lattice(3, 3);
    std::vector<vf::Path> opens = vf::polygons_over(L, 9, 2, 3, false);
    std::vector<vf::Path> clips = {{{0, 0}, {2, 0}, {2, 2}, {0, 2}}};
    if (both_clips) clips.push_back({{0, 0}, {1, 0}, {1, 1}, {0, 1}});
    for (auto& op : opens) for (auto& c : clips) { if (take()) bool_input({}, {c}, {op}, 1); if (stop) return; }
  }
  // nested squares (alternating orientation) against a few clips: PolyTrees of depth up to 4
  void scope_nest() {
    auto sq = [](i64 h, bool ccw) { vf::Path p{{50 - h, 50 - h}, {50 + h, 50 - h}, {50 + h, 50 + h}, {50 - h, 50 + h}}; return ccw ? p : vf::reversed(p); };
    std::vector<vf::Path> rings = {sq(40, true), sq(30, false), sq(20, true), sq(10, false)};
    std::vector<vf::Paths> clips = {{}, {sq(25, true)}, {sq(45, true)}, {{{50, 8}, {92, 20}, {85, 90}}}, {sq(35, true), sq(15, false)}};
    for (int mask = 1; mask < 16; ++mask)
      for (auto& c : clips) {
        if (!take()) { if (stop) return; continue; }
        vf::Paths S; for (int b = 0; b < 4; ++b) if (mask >> b & 1) S.push_back(rings[b]);
        bool_input(S, c, {}, 50);
      }
  }

  // ---- scaling-only entry points: precisions -8..8
  void scope_trim(int k, int nmaxG, int nmaxL) {
    auto PS = vf::board_PS(rep.args.seed); auto L = vf::lattice(3, 3);
    std::vector<vf::Path> pg = vf::polygons_over(PS, k, 3, nmaxG, false), pl = vf::polygons_over(L, 9, 3, nmaxL, false);
    // 2-point and 1-point paths exercise the short-path branch
    pg.push_back({PS[0], PS[1]}); pg.push_back({PS[0]}); pl.push_back({L[0], L[1]}); pl.push_back({L[4], L[4]});
    for (int which = 0; which < 2; ++which) {
      auto& paths = which ? pl : pg; i64 centre = which ? 1 : 50;
      for (auto& path : paths) {
        if (!take()) { if (stop) return; continue; }
        for (int mi = 0; mi < NMAPS; ++mi)
          for (int p = -8; p <= 8; ++p) {
            PathD d = mapped(path, MAPS[mi], scale_for(SK_POW10, p), centre);
            run_trim(cx, d, p, 0); run_trim(cx, d, p, 1);
          }
      }
    }
  }
  void rect_inputs(const vf::Path& ra, const std::vector<vf::Paths>& inputs, i64 centre, bool both_kinds) {
    for (auto& in : inputs) {
      if (!take()) { if (stop) return; continue; }
      for (int mi = 0; mi < NMAPS; ++mi)
        for (int p = -8; p <= 8; ++p) {
          double s = scale_for(SK_POW10, p);
          PathD rp = mapped(ra, MAPS[mi], s, centre);
          RectIn R{std::min(rp[0].x, rp[1].x), std::min(rp[0].y, rp[1].y), std::max(rp[0].x, rp[1].x), std::max(rp[0].y, rp[1].y)};
          if (!(R.l < R.r && R.t < R.b)) { rep.add("skipped_empty_rectD"); continue; }
          PathsD d = mapped(in, MAPS[mi], s, centre);
          run_rect(cx, R, d, p, false);
          if (both_kinds) run_rect(cx, R, d, p, true);
        }
    }
  }
  void scope_rect(int k, bool lattice_quads) {
    auto PS = vf::board_PS(rep.args.seed), PC = vf::board_PC(rep.args.seed); auto L = vf::lattice(3, 3);
    std::vector<vf::Path> polys = vf::polygons_over(PS, k, 3, 4), tris = vf::polygons_over(PS, k - 1, 3, 3);
    if (k <= 4) lattice_quads = false;
    std::vector<vf::Paths> inputs;
    for (auto& p : polys) inputs.push_back({p});
    for (auto& a : tris) for (auto& b : tris) inputs.push_back({a, b});
    inputs.push_back({{PS[0], PS[2]}}); inputs.push_back({{PS[1], PS[3]}, {PS[4], PS[0], PS[2]}});   // short lines
    for (int i = 0; i < k; ++i) for (int j = i + 1; j < k; ++j) { rect_inputs({PC[i], PC[j]}, inputs, 50, true); if (stop) return; }
    std::vector<vf::Paths> linputs;
    for (auto& p : vf::polygons_over(L, 9, 3, lattice_quads ? 4 : 3)) linputs.push_back({p});
    for (auto& p : vf::polygons_over(L, 9, 2, 2, false)) linputs.push_back({p});
    vf::Path corners[] = {{{0, 0}, {1, 1}}, {{0, 0}, {2, 2}}, {{1, 0}, {2, 2}}, {{0, 1}, {2, 2}}, {{1, 1}, {2, 2}}, {{0, 0}, {2, 1}}};
    int nc = 0;
    for (auto& c : corners) { if (k <= 4 && ++nc > 3) break; rect_inputs(c, linputs, 1, true); if (stop) return; }
  }
  void scope_mink(int k) {
    auto PS = vf::board_PS(rep.args.seed), PC = vf::board_PC(rep.args.seed);
    std::vector<vf::Path> pats = vf::polygons_over(PC, std::min(k - 1, 5), 3, 3);
    pats.push_back({{0, 0}, {1, 0}, {1, 1}, {0, 1}}); pats.push_back({{-1, -1}, {2, 0}, {0, 3}}); pats.push_back({{0, 0}, {3, 1}});
    std::vector<vf::Path> paths = vf::polygons_over(PS, k, 3, 4);
    paths.push_back({PS[0], PS[1]});
    for (auto& pat : pats)
      for (auto& path : paths) {
        if (!take()) { if (stop) return; continue; }
        for (int mi = 0; mi < NMAPS; ++mi)
          for (int p = -8; p <= 8; ++p) {
            double s = scale_for(SK_POW10, p);
            PathD dp = mapped(pat, MAPS[mi], s, 50), dq = mapped(path, MAPS[mi], s, 50);
            for (int closed = 0; closed < 2; ++closed) { run_mink(cx, dp, dq, p, closed, true); run_mink(cx, dp, dq, p, closed, false); }
          }
      }
  }
  void scope_inflate(int k) {
    auto PS = vf::board_PS(rep.args.seed), PC = vf::board_PC(rep.args.seed); auto L = vf::lattice(3, 3);
    std::vector<std::pair<vf::Paths, i64>> inputs;
    for (auto& p : vf::polygons_over(PS, k, 3, 4)) inputs.push_back({{p}, 50});
    { auto a = vf::polygons_over(PS, k - 1, 3, 3), b = vf::polygons_over(PC, k - 1, 3, 3); for (auto& x : a) for (auto& y : b) inputs.push_back({{x, y}, 50}); }
    inputs.push_back({{{PS[0], PS[2]}}, 50}); inputs.push_back({{{PS[1]}}, 50});   // a 2-point line and a single point
    if (k <= 4) { for (auto& p : vf::polygons_over(vf::lattice(2, 2), 4, 3, 3)) inputs.push_back({{p}, 1}); }
    else for (auto& p : vf::polygons_over(L, 9, 3, 3)) inputs.push_back({{p}, 1});
    static const double deltas[] = {0, 0.3, -2, 5};
    static const double ats[] = {0, 0.25, 1.0};
    for (auto& inp : inputs) {
      if (!take()) { if (stop) return; continue; }
      for (int mi = 0; mi < NMAPS; ++mi)
        for (int p = -8; p <= 8; ++p) {
          PathsD d = mapped(inp.first, MAPS[mi], scale_for(SK_POW10, p), inp.second);
          for (double delta : deltas)
            for (int jt = 0; jt < 4; ++jt)
              for (int et = 0; et < 5; ++et) {
                bool round = jt == 2 || et == 4;
                if (!round || delta == 0) {
                  // the arc tolerance cannot matter: one call, plus a second miter limit for Miter joins
                  run_inflate(cx, d, p, InflP{delta, jt, et, 2.0, 0.0});
                  if (jt == 3 && delta != 0) run_inflate(cx, d, p, InflP{delta, jt, et, 5.0, 0.25});
                  continue;
                }
                Paths64 r0, r;
                bool ran0 = run_inflate(cx, d, p, InflP{delta, jt, et, 2.0, ats[0]}, &r0);
                for (int ai = 1; ai < 3 && ran0; ++ai) {
                  run_inflate(cx, d, p, InflP{delta, jt, et, 2.0, ats[ai]}, &r);
                  rep.add("arc_tolerance_variations"); if (!(r == r0)) rep.add("arc_tolerance_changed_result");
                  if (p == 2 || p == 3) { rep.add("arc_tolerance_variations_p2_3"); if (!(r == r0)) rep.add("arc_tolerance_changed_result_p2_3"); }
                }
              }
        }
    }
  }

  template <class F> void timed(const char* name, F f) {
    if (stop) return;
    double t0 = rep.elapsed(); f();
    rep.add(std::string("cpu_ms.") + name, (u64)((rep.elapsed() - t0) * 1000));
  }
  // one bound: every scope at size k (fixed-size scopes run once, at the smallest stages)
  bool stage(int k) {
    timed("bool_G", [&] { scope_bool_G(k); });
    timed("open_G", [&] { scope_open_G(k); });
    if (k <= 6) timed("lattice", [&] { scope_lattice(k >= 6, k >= 5); });
    if (k <= 5) timed("lattice_open", [&] { scope_lattice_open(k >= 5); });
    if (k <= 4) timed("nest", [&] { scope_nest(); });
    if (k <= 6) timed("trim", [&] { scope_trim(k, std::min(k, 5), k <= 4 ? 3 : (k == 5 ? 4 : 5)); });
    timed("rect", [&] { scope_rect(k, k >= 6); });
    timed("mink", [&] { scope_mink(k); });
    timed("inflate", [&] { scope_inflate(k); });
    return !stop;
  }
};

// ------------------------------------------------------------------------------------------ replay
static int replay(Ctx& cx, const std::string& text) {
  Reporter& rep = cx.rep;
  Case c = Case::parse(text);
  std::string g = c.get("g"), ep = c.get("ep");
  cx.verbose = true; cx.only_ep = ep;
  int p = (int)c.geti("p", 2);
  PathsD S = parse_pathsD(c.get("S", "-")), C = parse_pathsD(c.get("C", "-")), O = parse_pathsD(c.get("O", "-"));
  printf("replay group=%s entry point=%s precision=%d  pow2 scale=%s  pow10 scale=%s (library expression for ClipperD gives %s)\n", g.c_str(), ep.c_str(), p, dnum(scale_for(SK_POW2, p)).c_str(), dnum(scale_for(SK_POW10, p)).c_str(),
         dnum(std::pow(std::numeric_limits<double>::radix, std::ilogb(std::pow(10, p)) + 1)).c_str());
  if (g == "bool") {
    BoolIn in; in.S = S; in.C = C; in.O = O; in.p = p; BoolPrep pr;
    if (!prep_bool(in, pr)) { printf("input out of the +-2^52 range: outside the property's domain\n"); return 0; }
    printf("  scaled S=%s C=%s O=%s\n", istr(pr.S64).c_str(), istr(pr.C64).c_str(), istr(pr.O64).c_str());
    run_bool(cx, in, pr, (int)c.geti("ct", 1), (int)c.geti("fr", 0), c.has("pc") ? (int)c.geti("pc") : -1);
  } else if (g == "trim") {
    run_trim(cx, S.empty() ? PathD() : S[0], p, (int)c.geti("open"));
  } else if (g == "rect") {
    PathsD r = parse_pathsD(c.get("R"));
    RectIn R{r[0][0].x, r[0][0].y, r[0][1].x, r[0][1].y};
    bool lines = ep.rfind("rectcliplines", 0) == 0;
    run_rect(cx, R, S, p, lines);
  } else if (g == "mink") {
    run_mink(cx, C.empty() ? PathD() : C[0], S.empty() ? PathD() : S[0], p, (int)c.geti("closed"), ep == "minkowskisum");
  } else if (g == "inflate") {
    run_inflate(cx, S, p, InflP{c.getd("d"), (int)c.geti("jt"), (int)c.geti("et"), c.getd("ml", 2.0), c.getd("at")});
  } else { fprintf(stderr, "unknown case group '%s'\n", g.c_str()); return 2; }
  printf("violations: %llu\n", (unsigned long long)rep.nviol);
  for (auto& v : rep.viols) printf("  %s %s: %s\n", v.prop.c_str(), v.tag.c_str(), v.detail.c_str());
  return rep.nviol ? 1 : 0;
}

int main(int argc, char** argv) {
  vf::Args a = vf::parse_args(argc, argv);
  if (a.prop.empty()) a.prop = "C16";
  Reporter rep(a);
  vf::install_crash_handler(rep);
  Ctx cx{rep};
  if (!a.replay.empty()) return replay(cx, a.replay);

  // the documented ClipperD scale (integer arithmetic) against the library's own expression
  for (int p = -8; p <= 8; ++p) {
    double lib = std::pow(std::numeric_limits<double>::radix, std::ilogb(std::pow(10, p)) + 1);
    if (lib != pow2_above_pow10(p)) rep.notes.push_back("precision " + std::to_string(p) + ": 2^(ilogb(10^p)+1) = " + dnum(lib) + " differs from the smallest power of two above 10^p = " + dnum(pow2_above_pow10(p)));
  }
  rep.notes.push_back("observation: InflatePaths(PathsD) with delta == 0 returns its argument before scaling, i.e. unrounded (counter inflate_delta0_returned_unrounded_input); mirrored, not alarmed");
  rep.notes.push_back("observation: ClipperD::Execute(paths) clears its outputs only inside BuildPathsD (after a successful ExecuteInternal), Clipper64::Execute clears them up front; Execute never failed in this scope, outputs were pre-filled and always replaced");

  Enum en(cx);
  std::vector<int> stages;
  int kmax = (int)a.opti("kmax", a.thorough() ? 7 : 4);
  for (int k = 4; k <= kmax; ++k) stages.push_back(k);
  if (a.extra.count("k")) stages = {(int)a.opti("k", 4)};
  for (int k : stages) {
    if (!en.stage(k)) break;
    rep.bounds_completed.push_back("stage k=" + std::to_string(k) + " (polygons of 3..4 vertices over " + std::to_string(k) + " board points; " + std::to_string(NMAPS) + " value maps)");
  }
  rep.write();
  return 0;
}
