// C03 (structural part, "for every input") / C11 (success part) on dense small-lattice inputs:
// every subject polygon of n vertices over a g x g integer lattice against every clip triangle
// over a coarser sub-lattice; all clip types and fill rules; PreserveCollinear on/off. Inputs on a
// tiny lattice are full of near-coincidences (T-junctions, collinear overlaps, micro
// self-intersections of the output rings), which is what exercises FixSelfIntersects/DoSplitOp and
// CleanCollinear. Only clauses that hold for all inputs are judged: Execute succeeds; every solution
// path has >= 3 vertices, no two equal neighbours (last/first included), all vertices inside the
// bounding box of the inputs; PolyTree execution returns the same paths.
#include "clipper2/clipper.h"
#include "sides/clip_api.hpp"
#include "engine/boards.hpp"
#include "checks/wellformed.hpp"

using namespace vf;

static std::string ckey(const Paths& S, const Paths& C, int ct, int fr, bool pc, const char* api) {
  Case c; c.set("S", S).set("C", C).set("ct", ct).set("fr", fr).set("pc", pc).set("api", api); return c.s();
}

static void check_input(Reporter& rep, const Paths& S, const Paths& C, bool verbose = false, int only_ct = 0, int only_fr = -1, int only_pc = -1) {
  Paths all = S; all.insert(all.end(), C.begin(), C.end());
  Box bb = bbox(all); i64 mabs = 0; for (auto& p : all) for (auto& q : p) mabs = std::max(mabs, std::max(q.x < 0 ? -q.x : q.x, q.y < 0 ? -q.y : q.y));
  WfInput wf{all, bb, mabs};
  int cct = 0, cfr = 0, cpc = 0; const char* capi = "paths";
  rep.current_case = [&]() { return ckey(S, C, cct, cfr, cpc, capi); };
  const std::string prop = rep.args.prop.empty() ? "C03" : rep.args.prop;
  for (int ct = 1; ct <= 4; ++ct) for (int fr = 0; fr < 4; ++fr) for (int pc = 1; pc >= 0; --pc) {
    if (only_ct && ct != only_ct) continue; if (only_fr >= 0 && fr != only_fr) continue; if (only_pc >= 0 && pc != only_pc) continue;
    cct = ct; cfr = fr; cpc = pc;
    capi = "paths"; BoolOut o = vfc::boolop(ct, fr, S, C, Paths(), pc, false);
    rep.add("lib_calls"); rep.add("cases"); rep.add("compared");
    if (!o.closed.empty() && canon_closed(o.closed) != canon_closed(S)) rep.add("nontrivial");
    std::string why;
    if (!o.ok) why = "execute_false: Execute returned false";
    else if (prop == "C03") why = wellformed_structural(wf, o.closed);
    if (why.empty() && pc == 1 && (fr & 1)) {   // polytree execution on half of the configurations: same paths, same structural clauses
      capi = "tree"; TreeOut t = vfc::boolop_tree(ct, fr, S, C, Paths(), pc, false); rep.add("lib_calls");
      if (!t.ok) why = "execute_false: Execute into a PolyTree returned false";
      else if (prop == "C03") { why = wellformed_structural(wf, t.flat); if (why.empty() && canon_closed(t.flat) != canon_closed(o.closed)) rep.add("tree_paths_differ_observed"); }
    }
    if (verbose) printf("ct=%d fr=%d pc=%d -> %s  [%s]\n", ct, fr, pc, pstr(o.closed).c_str(), why.empty() ? "ok" : why.c_str());
    if (!why.empty()) rep.violation(prop, ckey(S, C, ct, fr, pc, capi), why.substr(0, why.find(':')), why + " solution=" + pstr(o.closed));
  }
  rep.current_case = nullptr;
}

int main(int argc, char** argv) {
  Args a = parse_args(argc, argv);
  Reporter rep(a); install_crash_handler(rep);
  if (!a.replay.empty()) {
    Case c = Case::parse(a.replay);
    check_input(rep, c.getp("S"), c.getp("C"), true, (int)c.geti("ct"), (int)c.geti("fr", -1), (int)c.geti("pc", -1));
    printf("violations: %llu\n", (unsigned long long)rep.nviol); for (auto& v : rep.viols) printf("  %s: %s\n", v.tag.c_str(), v.detail.c_str());
    return rep.nviol ? 1 : 0;
  }
  int g = (int)a.opti("g", 5), n = (int)a.opti("n", 3), cstep = (int)a.opti("cstep", 2), cn = (int)a.opti("cn", 3);
  std::vector<P> L = lattice(g, g, 1), LC;
  for (int y = 0; y < g; y += cstep) for (int x = 0; x < g; x += cstep) LC.push_back({x, y});
  std::vector<Path> subs = polygons_over(L, (int)L.size(), n, n), clips = polygons_over(LC, (int)LC.size(), cn, cn);
  // clips are shifted by (+1, 0) on odd indices so that clip vertices also fall between the coarse lattice lines
  for (size_t i = 1; i < clips.size(); i += 2) for (auto& v : clips[i]) if (v.x + 1 < g) v.x += 1;
  u64 idx = 0; bool done = true;
  for (auto& s : subs) {
    if (!rep.mine(idx++)) continue;
    if ((idx & 15) == 0 && rep.out_of_time()) { done = false; break; }
    for (auto& c : clips) check_input(rep, Paths{s}, Paths{c});
    rep.add("inputs", clips.size());
    rep.sample("S=" + pstr(Paths{s}) + " C=" + pstr(Paths{clips[clips.size() / 2]}));
  }
  if (done) rep.bounds_completed.push_back("lattice g=" + std::to_string(g) + " subject n=" + std::to_string(n) + " x clip " + std::to_string(cn) + "-gons on the step-" + std::to_string(cstep) + " sub-lattice (" + std::to_string(subs.size()) + " x " + std::to_string(clips.size()) + ")");
  rep.write();
  return 0;
}
