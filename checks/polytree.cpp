// C04: PolyTree solutions carry the same paths as Paths solutions, with correct nesting.
// Scopes: (gp) the general-position scopes of C01; (rings) a nesting family of up to 8 concentric
// rings in every presence / orientation / subject-clip assignment; (rect) rectangle sets on a
// lattice whose lines are >= 2 units apart (horizontal joins, touching holes); (treeD) PolyTreeD.
#include "clipper2/clipper.h"
#include "sides/clip_api.hpp"
#include "engine/boards.hpp"
#include "checks/gp_scopes.hpp"
#include "checks/wellformed.hpp"
#include "checks/cells_family.hpp"

using namespace vf;

static std::string ckey(const Paths& S, const Paths& C, int ct, int fr, const char* api) {
  Case c; c.set("S", S).set("C", C).set("ct", ct).set("fr", fr).set("api", api); return c.s();
}

// nesting / orientation clauses on a tree (node polygons in integer coordinates)
static std::string judge_node(const TNode& n, const TNode* parent, unsigned level) {
  if (level >= 1) {
    if (n.poly.size() < 3) return "tree_node_degenerate: level " + std::to_string(level);
    bool positive = area2(n.poly) > 0;
    bool want_positive = (level % 2) == 1;
    if (positive != want_positive) return "tree_orientation_vs_level: polygon " + str(n.poly) + " at level " + std::to_string(level) + (positive ? " is positive" : " is negative");
    if (n.is_hole != (level >= 2 && level % 2 == 0)) return "tree_ishole_flag: level " + std::to_string(level);
    if (n.level != level) return "tree_level_accessor: reports " + std::to_string(n.level) + " at depth " + std::to_string(level);
    if (parent && level >= 2) {
      int ins = path_inside(n.poly, parent->poly);
      if (ins == 0) return "tree_child_outside_parent: child " + str(n.poly) + " parent " + str(parent->poly);
    }
  }
  for (size_t i = 0; i < n.kids.size(); ++i)
    for (size_t j = 0; j < n.kids.size(); ++j) {
      if (i == j) continue;
      int ins = path_inside(n.kids[i].poly, n.kids[j].poly);
      if (ins == 1) return "tree_child_inside_sibling: " + std::string(area2(n.kids[i].poly) < 0 ? "negatively" : "positively") + " oriented " + str(n.kids[i].poly) + " at level " + std::to_string(level + 1) + " inside sibling " + str(n.kids[j].poly);
    }
  for (auto& k : n.kids) { std::string s = judge_node(k, &n, level + 1); if (!s.empty()) return s; }
  return "";
}
static unsigned depth_of(const TNode& n) { unsigned d = 0; for (auto& k : n.kids) d = std::max(d, 1 + depth_of(k)); return d; }
static size_t count_nodes(const TNode& n) { size_t c = 0; for (auto& k : n.kids) c += 1 + count_nodes(k); return c; }

static void copy_treeD(const Clipper2Lib::PolyPathD& pp, TNode& n, double scale) {
  n.poly.clear();
  for (auto& q : pp.Polygon()) n.poly.push_back({(i64)std::llround(q.x * scale), (i64)std::llround(q.y * scale)});
  n.is_hole = pp.IsHole(); n.level = pp.Level();
  n.kids.resize(pp.Count());
  for (size_t i = 0; i < pp.Count(); ++i) copy_treeD(*pp.Child(i), n.kids[i], scale);
}

struct Ctx { Reporter& rep; bool treeD; std::string key_prefix; };   // key_prefix: compact description of a generated input (replaces S=/C= in case keys)

static void check_input(Ctx& cx, const Paths& S, const Paths& C, const Paths& O, bool verbose = false, int only_ct = 0, int only_fr = -1, const std::string& only_api = "") {
  Reporter& rep = cx.rep;
  int cur_ct = 0, cur_fr = 0; const char* cur_api = "tree64";
  auto K = [&](int ct, int fr, const char* api) {
    if (!cx.key_prefix.empty()) { Case c = Case::parse(cx.key_prefix); c.set("ct", ct).set("fr", fr).set("api", api); return c.s(); }
    Case c = Case::parse(ckey(S, C, ct, fr, api)); if (!O.empty()) c.set("O", O); return c.s(); };
  arm_watchdog(60);   // CPU-time limit per input: a library call that does not return is attributed to this case (crash_signal_26)
  rep.current_case = [&]() { return K(cur_ct, cur_fr, cur_api); };
  for (int ct = 1; ct <= 4; ++ct) for (int fr = 0; fr < 4; ++fr) {
    if (only_ct && ct != only_ct) continue;
    if (only_fr >= 0 && fr != only_fr) continue;
    cur_ct = ct; cur_fr = fr;
    if (only_api.empty() || only_api == "tree64") {
      cur_api = "tree64";
      BoolOut p = vfc::boolop(ct, fr, S, C, O, true, false);
      TreeOut t = vfc::boolop_tree(ct, fr, S, C, O, true, false);
      rep.add("lib_calls", 2); rep.add("cases"); rep.add("compared");
      std::string why;
      if (!p.ok || !t.ok) why = "execute_false: paths ok=" + std::to_string(p.ok) + " tree ok=" + std::to_string(t.ok);
      else if (canon_closed(t.flat) != canon_closed(p.closed)) why = "tree_paths_differ: tree " + pstr(t.flat) + " paths " + pstr(p.closed);
      else if (canon_open(t.open, false) != canon_open(p.open, false)) why = "tree_open_paths_differ: tree " + pstr(t.open) + " paths " + pstr(p.open);
      else {
        why = judge_node(t.root, nullptr, 0);
        if (why.empty()) {
          long double ap = (long double)area2(p.closed) / 2;
          if (fabsl((long double)t.area - ap) > 1e-9L * (1 + fabsl(ap))) why = "tree_area: tree.Area()=" + std::to_string(t.area) + " paths area=" + std::to_string((double)ap);
        }
      }
      unsigned d = depth_of(t.root);
      rep.maxi("max_tree_depth", d);
      if (d >= 2) rep.add("nontrivial");          // at least one hole somewhere
      if (d >= 3) rep.add("cases_with_island_in_hole");
      rep.outcome(hash_paths(canon_closed(t.flat), d));
      if (verbose) printf("ct=%d fr=%d tree64: nodes=%zu depth=%u paths=%s verdict=%s\n", ct, fr, count_nodes(t.root), d, pstr(p.closed).c_str(), why.empty() ? "ok" : why.c_str());
      if (!why.empty()) rep.violation("C04", K(ct, fr, "tree64"), why.substr(0, why.find(':')), why);
    }
    if (cx.treeD && (only_api.empty() || only_api == "treeD0" || only_api == "treeD2")) {
      for (int prec : {0, 2}) {
        std::string api = "treeD" + std::to_string(prec);
        if (!only_api.empty() && only_api != api) continue;
        cur_api = prec ? "treeD2" : "treeD0";
        namespace CL = Clipper2Lib;
        // inputs as doubles: integer coordinates divided by 4 (exactly representable; scaled back by the power-of-two scale)
        auto toD4 = [](const Paths& pp) { CL::PathsD r; for (auto& p : pp) { CL::PathD q; for (auto& v : p) q.emplace_back((double)v.x / 4.0, (double)v.y / 4.0); r.push_back(q); } return r; };
        CL::ClipperD c1(prec), c2(prec);
        for (CL::ClipperD* c : {&c1, &c2}) { if (!S.empty()) c->AddSubject(toD4(S)); if (!O.empty()) c->AddOpenSubject(toD4(O)); if (!C.empty()) c->AddClip(toD4(C)); }
        CL::PathsD pc, po, to; CL::PolyTreeD tree;
        bool ok1 = c1.Execute((CL::ClipType)ct, (CL::FillRule)fr, pc, po);
        bool ok2 = c2.Execute((CL::ClipType)ct, (CL::FillRule)fr, tree, to);
        rep.add("lib_calls", 2); rep.add("cases"); rep.add("compared");
        double scale = std::pow(2.0, std::ilogb(std::pow(10, prec)) + 1);
        auto back = [&](const CL::PathsD& pp) { Paths r; for (auto& p : pp) { Path q; for (auto& v : p) q.push_back({(i64)std::llround(v.x * scale), (i64)std::llround(v.y * scale)}); r.push_back(q); } return r; };
        TNode root; copy_treeD(tree, root, scale);
        Paths flat = back(CL::PolyTreeToPathsD(tree));
        std::string why;
        if (!ok1 || !ok2) why = "execute_false: treeD";
        else if (canon_closed(flat) != canon_closed(back(pc))) why = "tree_paths_differ: treeD " + pstr(flat) + " pathsD " + pstr(back(pc));
        else if (canon_open(back(to), false) != canon_open(back(po), false)) why = "tree_open_paths_differ: treeD";
        else {
          why = judge_node(root, nullptr, 0);
          if (why.empty()) { double ap = CL::Area(pc); if (std::fabs(tree.Area() - ap) > 1e-9 * (1 + std::fabs(ap))) why = "tree_area: treeD.Area()=" + std::to_string(tree.Area()) + " pathsD area=" + std::to_string(ap); }
        }
        if (depth_of(root) >= 2) rep.add("nontrivial");
        if (verbose) printf("ct=%d fr=%d %s verdict=%s\n", ct, fr, api.c_str(), why.empty() ? "ok" : why.c_str());
        if (!why.empty()) rep.violation("C04", K(ct, fr, prec ? "treeD2" : "treeD0"), why.substr(0, why.find(':')), why);
      }
    }
  }
  arm_watchdog(0); rep.current_case = nullptr;
}

// ---------------------------------------------------------------- ring family
static std::vector<Path> ring_shapes(int n) {
  // alternating squares (half side a) and diamonds (radius d); each strictly contains the previous with clearance >= 3
  std::vector<Path> v; i64 a = 10;
  for (int i = 0; i < n; ++i) {
    if (i % 2 == 0) { v.push_back({{-a, -a}, {a, -a}, {a, a}, {-a, a}}); a = 2 * a + 8; }          // next diamond radius
    else { v.push_back({{a, 1}, {1, a}, {-a, -1}, {-1, -a}}); a = a + 5; }                           // slightly skewed diamond (generic quad); next square half side
  }
  return v;
}

static void check_input(Ctx& cx, const Paths& S, const Paths& C, const Paths& O, bool verbose, int only_ct, int only_fr, const std::string& only_api);
// variant: 0 Union/NonZero of the rectangles, 1 Xor/NonZero with the interior square as clip, 2 Difference/EvenOdd with the full square as clip
static void cells_case(Ctx& cx, int w, int h, u64 code, int decomp, int variant, bool verbose) {
  Paths S = cells_shape(w, h, code, decomp);
  Case k; k.set("scope", "cells").set("w", w).set("h", h).set("code", (long long)code).set("decomp", decomp).set("variant", variant);
  cx.key_prefix = k.s();
  if (variant == 0) check_input(cx, S, Paths(), Paths(), verbose, 2, 1, "");
  else if (variant == 1) check_input(cx, S, Paths{cell_rect(1, 1, w - 1, h - 1)}, Paths(), verbose, 4, 1, "");
  else check_input(cx, S, Paths{cell_rect(0, 0, w, h)}, Paths(), verbose, 3, 0, "");
  cx.key_prefix.clear();
}
static void cells_scope(Ctx& cx, const Args& a, Reporter& rep) {
  int w = (int)a.opti("w", 6), h = (int)a.opti("h", 6); int nin = (w - 2) * (h - 2), iw = w - 2; bool frames = a.opti("frames", 0) != 0;
  u64 total = (u64)1 << nin; bool done = true;
  for (u64 code = 0; code < total; ++code) {
    if (!rep.mine(code)) continue;
    if ((code & 255) == 0 && rep.out_of_time()) { done = false; break; }
    if (frames) { for (int cc = 0; cc < 81; ++cc) { cells_case(cx, w, h, code, 10 + cc, 0, false); if (code & (code >> iw)) cells_case(cx, w, h, code, 100 + cc, 0, false); } }   // column runs differ from unit cells only when two interior cells are stacked
    else for (int decomp = 0; decomp < 10; ++decomp) {
      cells_case(cx, w, h, code, decomp, 0, false);
      if (decomp == 1) cells_case(cx, w, h, code, decomp, 1, false);
      if (decomp == 0) cells_case(cx, w, h, code, decomp, 2, false);
    }
    rep.add("inputs", 4);
    if (code % 4099 == 1) rep.sample("cells " + std::to_string(w) + "x" + std::to_string(h) + " interior code " + std::to_string(code) + ": " + pstr(cells_shape(w, h, code, 1)));
  }
  if (done) rep.bounds_completed.push_back("cells " + std::to_string(w) + "x" + std::to_string(h) + ": all 2^" + std::to_string(nin) + " interior subsets x " + (frames ? "81 four-bar frames (each corner owned by both bars / the horizontal / the vertical one) x interior as unit cells and as column runs" : "10 decompositions"));
}

int main(int argc, char** argv) {
  Args a = parse_args(argc, argv);
  Reporter rep(a); install_crash_handler(rep);
  Ctx cx{rep, a.opti("treeD", 0) != 0};
  if (!a.replay.empty()) {
    Case c = Case::parse(a.replay);
    std::string api = c.get("api"); cx.treeD = api.rfind("treeD", 0) == 0;
    if (c.get("scope") == "cells") { printf("shape: %s\n", pstr(cells_shape((int)c.geti("w"), (int)c.geti("h"), (u64)c.geti("code"), (int)c.geti("decomp"))).c_str());
      cells_case(cx, (int)c.geti("w"), (int)c.geti("h"), (u64)c.geti("code"), (int)c.geti("decomp"), (int)c.geti("variant"), true);
      printf("violations: %llu\n", (unsigned long long)rep.nviol); for (auto& x : rep.viols) printf("  %s %s: %s\n", x.prop.c_str(), x.tag.c_str(), x.detail.c_str()); return rep.nviol ? 1 : 0; }
    check_input(cx, c.getp("S"), c.getp("C"), c.getp("O"), true, (int)c.geti("ct"), (int)c.geti("fr", -1), api);
    printf("violations: %llu\n", (unsigned long long)rep.nviol);
    for (auto& x : rep.viols) printf("  %s %s: %s\n", x.prop.c_str(), x.tag.c_str(), x.detail.c_str());
    return rep.nviol ? 1 : 0;
  }
  std::string scope = a.opt("scope", "S1");
  if (scope == "S0" || scope == "S1" || scope == "S2") {
    auto PO = board_PO(a.seed);
    Paths open1 = {{PO[0], PO[1], PO[2]}};
    for_each_gp(a, rep, [&](const GpInput& in) { check_input(cx, in.subj, in.clip, Paths()); rep.sample("S=" + pstr(in.subj) + " C=" + pstr(in.clip)); });
  } else if (scope == "rings") {
    int n = (int)a.opti("rings", 6);
    std::vector<Path> shapes = ring_shapes(n);
    if (!general_position(Paths(shapes.begin(), shapes.end()))) { fprintf(stderr, "internal: ring family not in general position\n"); return 2; }
    bool with_open = a.opti("open", 0) != 0;
    Paths OL = {{{-17, -400}, {-14, 400}}, {{-45, -400}, {-50, 60}, {-40, 400}}};
    if (with_open) { Paths all(shapes.begin(), shapes.end()); std::vector<char> cl(all.size(), 1); for (auto& l : OL) { all.push_back(l); cl.push_back(0); }
      if (!general_position_mixed(all, cl)) { fprintf(stderr, "internal: ring family with open paths not in general position\n"); return 2; } }
    // each ring: 0 absent, 1 subject ccw, 2 subject cw, 3 clip ccw, 4 clip cw
    u64 total = 1; for (int i = 0; i < n; ++i) total *= 5;
    bool done = true;
    for (u64 code = 0; code < total; ++code) {
      if (!rep.mine(code)) continue;
      if ((code & 255) == 0 && rep.out_of_time()) { done = false; break; }
      Paths S, C; u64 x = code;
      for (int i = 0; i < n; ++i) { int d = (int)(x % 5); x /= 5; if (!d) continue; Path p = shapes[i]; if (d == 2 || d == 4) p = reversed(p); (d <= 2 ? S : C).push_back(p); }
      check_input(cx, S, C, Paths());
      // the same assignment together with open subject paths that run steeply through the gaps between the rings, left of the inner rings and past
      // their tops: while a nested ring is closed, its nearest contributing neighbour on the left may be an open path, which owns nothing
      if (with_open && !S.empty() + !C.empty() > 0) { check_input(cx, S, C, OL); rep.add("inputs_with_open_paths"); }
      rep.sample("S=" + pstr(S) + " C=" + pstr(C));
    }
    if (done) rep.bounds_completed.push_back("rings n=" + std::to_string(n) + (with_open ? " (each assignment also with 2 open subject paths crossing the rings)" : ""));
  } else if (scope == "rect") {
    // rectangles on a g-line lattice with spacing 4 (features >= 2 apart); nsub subject rectangles + 1 clip rectangle
    int g = (int)a.opti("g", 4), nsub = (int)a.opti("nsub", 2); i64 step = 4;
    std::vector<Path> rects;
    for (int x0 = 0; x0 < g; ++x0) for (int x1 = x0 + 1; x1 < g; ++x1) for (int y0 = 0; y0 < g; ++y0) for (int y1 = y0 + 1; y1 < g; ++y1) {
      Path r = {{x0 * step, y0 * step}, {x1 * step, y0 * step}, {x1 * step, y1 * step}, {x0 * step, y1 * step}};
      rects.push_back(r); rects.push_back(reversed(r)); }
    size_t R = rects.size(); bool done = true; u64 idx = 0;
    std::vector<size_t> sel(nsub, 0);
    std::function<void(int)> rec = [&](int k) {
      if (!done) return;
      if (k == nsub) {
        Paths S; for (int i = 0; i < nsub; ++i) S.push_back(rects[sel[i]]);
        for (auto& c : rects) check_input(cx, S, Paths{c}, Paths());
        rep.add("inputs", R); rep.sample("S=" + pstr(S) + " C=" + pstr(Paths{rects[0]}));
        return;
      }
      for (size_t i = 0; i < R; ++i) {
        sel[k] = i;
        if (k == 0) { if (!rep.mine(idx++)) continue; if (rep.out_of_time()) { done = false; return; } }
        rec(k + 1);
      }
    };
    rec(0);
    if (done) rep.bounds_completed.push_back("rect g=" + std::to_string(g) + " nsub=" + std::to_string(nsub));
  } else if (scope == "subsets") {
    // every non-empty subset (list order kept) of a fixed list of rectangles as subjects, no clip: the neighbourhood of an input found
    // outside the enumerated families (see known finding D8-residual)
    Paths R = parse_paths(a.opt("rects", "")); if (R.empty()) { fprintf(stderr, "--rects missing\n"); return 2; }
    u64 total = (u64)1 << R.size(); bool done = true;
    for (u64 m = 1; m < total; ++m) { if (!rep.mine(m)) continue; if (rep.out_of_time()) { done = false; break; }
      Paths S; for (size_t i = 0; i < R.size(); ++i) if (m >> i & 1) S.push_back(R[i]);
      check_input(cx, S, Paths(), Paths()); if (m % 16 == 1) rep.sample("S=" + pstr(S)); }
    if (done) rep.bounds_completed.push_back("all " + std::to_string(total - 1) + " non-empty subsets of " + std::to_string(R.size()) + " rectangles");
  } else if (scope == "cells") {
    cells_scope(cx, a, rep);
  } else { fprintf(stderr, "unknown scope\n"); return 2; }
  rep.write();
  return 0;
}
