// C10 (inputs clause): no input can crash, hang or corrupt memory. Also serves the structural part
// of C03 and the success part of C11 on degenerate inputs.
// Scope D: every path of 0..n points WITH repeats over the 3x3 lattice {-M,0,M}^2, crossed as
// subject / clip / open subject / offset group / rect-clip input / Minkowski operand / utility
// argument, plus the C export functions with null and empty arrays. The oracle is the process:
// built with ASan + UBSan (+ _GLIBCXX_SANITIZE_VECTOR), cases run in forked batches, the failing
// case is identified through shared memory (engine/forkbatch.hpp); a per-case allocation ledger
// detects leaks; a stall watchdog detects hangs.
#include "clipper2/clipper.h"
#include "clipper2/clipper.export.h"
#include "sides/clip_api.hpp"
#include "engine/boards.hpp"
#include "engine/forkbatch.hpp"
#include "checks/wellformed.hpp"
#if defined(__SANITIZE_ADDRESS__)
extern "C" size_t __sanitizer_get_current_allocated_bytes();   // exported by libasan (gcc ships no allocator_interface.h)
#define HAVE_ASAN 1
#else
#define HAVE_ASAN 0
#endif

using namespace vf;
namespace CL = Clipper2Lib;

static std::vector<Path> all_paths(int nmax, i64 M) {
  std::vector<P> L; for (int y = -1; y <= 1; ++y) for (int x = -1; x <= 1; ++x) L.push_back({x * M, y * M});
  std::vector<Path> out;
  for (int n = 0; n <= nmax; ++n) { std::vector<std::vector<int>> seqs; enum_seqs(9, n, seqs); for (auto& s : seqs) { Path p; for (int i : s) p.push_back(L[i]); out.push_back(p); } }
  return out;
}

struct Family { std::string name; u64 count; std::function<void(u64, bool)> exec; std::function<std::string(u64)> key; };

enum { C_CASES, C_LIB, C_NONTRIVIAL, C_EXEC_FALSE, C_NCTR };
static FbShared* g_sh = nullptr;
static std::string g_prop;
static void bump(int c, u64 n = 1) { g_sh->ctr[c] = g_sh->ctr[c] + n; }
static void fail_case(int code, const std::string& note) { strncpy((char*)g_sh->note, note.c_str(), sizeof g_sh->note - 1); g_sh->note_set = 1; _exit(code); }

// C03 structural clauses + C11 success, evaluated inside the child on every boolean result
static void judge_bool(bool ok, int ct, const Paths& S, const Paths& C, const Paths& O, const Paths& closed, const Paths& open) {
  if (!ok) { bump(C_EXEC_FALSE); if (g_prop == "C11" || g_prop == "C10") fail_case(80, "Execute returned false"); }
  if (g_prop == "C11" && ct == 0 && (!closed.empty() || !open.empty())) fail_case(82, "ClipType::NoClip returned a non-empty solution");
  if (g_prop == "C03") {
    Paths all = S; all.insert(all.end(), C.begin(), C.end()); all.insert(all.end(), O.begin(), O.end());
    Box bb = bbox(all); i64 mabs = 0; for (auto& p : all) for (auto& q : p) mabs = std::max(mabs, std::max(q.x < 0 ? -q.x : q.x, q.y < 0 ? -q.y : q.y));
    WfInput wf{all, bb, mabs};
    std::string why = wellformed_structural(wf, closed);
    if (!why.empty()) fail_case(81, why + " solution=" + pstr(closed));
  }
  if (!closed.empty() || !open.empty()) bump(C_NONTRIVIAL);
}

int main(int argc, char** argv) {
  Args a = parse_args(argc, argv);
  Reporter rep(a); install_crash_handler(rep);
  g_prop = a.prop.empty() ? "C10" : a.prop;
  int n = (int)a.opti("n", 3), n2 = (int)a.opti("n2", 2), nc = (int)a.opti("nc", n);
  int magclass = (int)a.opti("mag", 0);
  i64 M = magclass == 0 ? 1 : magclass == 1 ? ((i64)1 << 29) : magclass == 2 ? ((i64)1 << 40) : ((i64)1 << 62);
  std::string only = a.opt("families", "all");
  std::vector<Path> PA = all_paths(n, M), PC = all_paths(nc, M), P2 = all_paths(n2, M);
  u64 NA = PA.size(), NC = PC.size(), N2 = P2.size();
  std::vector<Family> fam;
  auto want = [&](const std::string& f) { return only == "all" || ("," + only + ",").find("," + f + ",") != std::string::npos; };

  // ---- F1: boolean, closed subject x closed clip, all clip types (incl. NoClip) x fill rules, paths execution
  if (want("bool_paths")) fam.push_back({"bool_paths", NA * NC * 20, [&](u64 i, bool) {
      int fr = i % 4; i /= 4; int ct = i % 5; i /= 5; const Path& c = PC[i % NC]; const Path& s = PA[i / NC];
      BoolOut o = VFC_NS::boolop(ct, fr, Paths{s}, Paths{c}, Paths(), true, false); bump(C_LIB);
      judge_bool(o.ok, ct, Paths{s}, Paths{c}, Paths(), o.closed, o.open); },
    [&](u64 i) { int fr = i % 4; i /= 4; int ct = i % 5; i /= 5; Case k; k.set("f", "bool_paths").set("S", Paths{PA[i / NC]}).set("C", Paths{PC[i % NC]}).set("ct", ct).set("fr", fr).set("mag", magclass); return k.s(); }});
  // ---- F2: boolean into a PolyTree, PreserveCollinear off, ReverseSolution on
  if (want("bool_tree")) fam.push_back({"bool_tree", NA * NC * 10, [&](u64 i, bool) {
      int fr = i % 2; i /= 2; int ct = i % 5; i /= 5; const Path& c = PC[i % NC]; const Path& s = PA[i / NC];
      TreeOut o = VFC_NS::boolop_tree(ct, fr, Paths{s}, Paths{c}, Paths(), false, true); bump(C_LIB);
      judge_bool(o.ok, ct, Paths{s}, Paths{c}, Paths(), reversed(o.flat), o.open); },
    [&](u64 i) { int fr = i % 2; i /= 2; int ct = i % 5; i /= 5; Case k; k.set("f", "bool_tree").set("S", Paths{PA[i / NC]}).set("C", Paths{PC[i % NC]}).set("ct", ct).set("fr", fr).set("mag", magclass); return k.s(); }});
  // ---- F3: open subject x clip (+ a fixed closed subject), paths and tree
  static const Path fixedS = {{-M, -M}, {M, -M}, {M, 0}, {0, 0}, {0, M}, {-M, M}};
  if (want("bool_open")) fam.push_back({"bool_open", NA * NC * 8, [&](u64 i, bool) {
      int fr = i % 2 ? 1 : 0; i /= 2; int ct = 1 + i % 4; i /= 4; const Path& c = PC[i % NC]; const Path& o = PA[i / NC];
      BoolOut r = VFC_NS::boolop(ct, fr, Paths{fixedS}, Paths{c}, Paths{o}, true, false);
      TreeOut t = VFC_NS::boolop_tree(ct, fr, Paths{fixedS}, Paths{c}, Paths{o}, true, false); bump(C_LIB, 2);
      judge_bool(r.ok && t.ok, ct, Paths{fixedS}, Paths{c}, Paths{o}, r.closed, r.open); },
    [&](u64 i) { int fr = i % 2 ? 1 : 0; i /= 2; int ct = 1 + i % 4; i /= 4; Case k; k.set("f", "bool_open").set("S", Paths{fixedS}).set("O", Paths{PA[i / NC]}).set("C", Paths{PC[i % NC]}).set("ct", ct).set("fr", fr).set("mag", magclass); return k.s(); }});
  // ---- F4/F5: offsetting (only for magnitudes <= 2^40)
  static const double deltas[] = {0.0, 0.4, -0.4, 1.0, -1.0, 3.0, -3.0};
  auto do_offset = [&](const Paths& g1, const Paths& g2, int jt, int et, double dl, bool tree) {
    double d = dl * (M > 1 ? (double)M / 4 : 1.0);
    CL::ClipperOffset co(2.0, M > 1 ? (double)M / 64 : 0.25);   // arc tolerance kept proportionate so that arcs stay small
    co.AddPaths(VFC_NS::to64(g1), (CL::JoinType)jt, (CL::EndType)et);
    if (!g2.empty()) co.AddPaths(VFC_NS::to64(g2), (CL::JoinType)((jt + 1) % 4), (CL::EndType)et);
    if (tree) { CL::PolyTree64 t; co.Execute(d, t); if (t.Count()) bump(C_NONTRIVIAL); }
    else { CL::Paths64 s; co.Execute(d, s); if (!s.empty()) bump(C_NONTRIVIAL); }
    bump(C_LIB);
  };
  if (magclass <= 2 && want("offset_single")) fam.push_back({"offset_single", NA * 4 * 5 * 7, [&](u64 i, bool) {
      int di = i % 7; i /= 7; int et = i % 5; i /= 5; int jt = i % 4; i /= 4; do_offset(Paths{PA[i]}, Paths(), jt, et, deltas[di], (di & 1) != 0); },
    [&](u64 i) { int di = i % 7; i /= 7; int et = i % 5; i /= 5; int jt = i % 4; i /= 4; Case k; k.set("f", "offset_single").set("P", Paths{PA[i]}).set("jt", jt).set("et", et).setd("delta", deltas[di]).set("mag", magclass); return k.s(); }});
  if (magclass <= 2 && want("offset_pair")) fam.push_back({"offset_pair", N2 * N2 * 4 * 5 * 3 * 2, [&](u64 i, bool) {
      int two = i % 2; i /= 2; int di = 1 + 2 * (i % 3); i /= 3; int et = i % 5; i /= 5; int jt = i % 4; i /= 4; const Path& q = P2[i % N2]; const Path& p = P2[i / N2];
      if (two) do_offset(Paths{p}, Paths{q}, jt, et, deltas[di], false); else do_offset(Paths{p, q}, Paths(), jt, et, deltas[di], false); },
    [&](u64 i) { int two = i % 2; i /= 2; int di = 1 + 2 * (i % 3); i /= 3; int et = i % 5; i /= 5; int jt = i % 4; i /= 4; Case k;
      k.set("f", "offset_pair").set("P", Paths{P2[i / N2], P2[i % N2]}).set("groups", two + 1).set("jt", jt).set("et", et).setd("delta", deltas[di]).set("mag", magclass); return k.s(); }});
  // ---- F6: RectClip / RectClipLines with ordinary, empty and inverted rectangles
  static const i64 RC[][4] = {{-1, -1, 1, 1}, {0, 0, 1, 1}, {-1, -1, 0, 0}, {0, 0, 0, 0}, {1, 1, -1, -1}, {-5, -5, 5, 5}, {-1, 0, 1, 0}};
  if (magclass <= 2 && want("rectclip")) fam.push_back({"rectclip", NA * 7 * 2, [&](u64 i, bool) {
      int two = i % 2; i /= 2; int r = i % 7; i /= 7; CL::Rect64 rc(RC[r][0] * M, RC[r][1] * M, RC[r][2] * M, RC[r][3] * M);
      CL::Paths64 in{VFC_NS::to64(PA[i])}; if (two) in.push_back(VFC_NS::to64(PA[(i * 7 + 3) % NA]));
      CL::Paths64 a1 = CL::RectClip(rc, in), a2 = CL::RectClipLines(rc, in); bump(C_LIB, 2);
      if (!rc.IsEmpty()) { class CL::RectClip64 o1(rc); CL::Paths64 b1 = o1.Execute(in); class CL::RectClipLines64 o2(rc); CL::Paths64 b2 = o2.Execute(in); bump(C_LIB, 2); }
      if (!a1.empty() || !a2.empty()) bump(C_NONTRIVIAL); },
    [&](u64 i) { int two = i % 2; i /= 2; int r = i % 7; i /= 7; Case k; Paths in{PA[i]}; if (two) in.push_back(PA[(i * 7 + 3) % NA]);
      k.set("f", "rectclip").set("P", in).set("rect", std::to_string(RC[r][0]) + "," + std::to_string(RC[r][1]) + "," + std::to_string(RC[r][2]) + "," + std::to_string(RC[r][3])).set("mag", magclass); return k.s(); }});
  // ---- F7: Minkowski
  if (magclass <= 2 && want("minkowski")) fam.push_back({"minkowski", N2 * NA * 4, [&](u64 i, bool) {
      int closed = i % 2; i /= 2; int diff = i % 2; i /= 2; const Path& pa = PA[i % NA]; const Path& pat = P2[i / NA];
      CL::Paths64 r = diff ? CL::MinkowskiDiff(VFC_NS::to64(pat), VFC_NS::to64(pa), closed != 0) : CL::MinkowskiSum(VFC_NS::to64(pat), VFC_NS::to64(pa), closed != 0); bump(C_LIB);
      if (!r.empty()) bump(C_NONTRIVIAL); },
    [&](u64 i) { int closed = i % 2; i /= 2; int diff = i % 2; i /= 2; Case k; k.set("f", "minkowski").set("pattern", Paths{P2[i / NA]}).set("path", Paths{PA[i % NA]}).set("diff", diff).set("closed", closed).set("mag", magclass); return k.s(); }});
  // ---- F8: utilities
  if (magclass <= 2 && want("utils")) fam.push_back({"utils", NA * 2, [&](u64 i, bool) {
      bool open = i % 2; i /= 2; CL::Path64 p = VFC_NS::to64(PA[i]); double eps = M > 1 ? (double)M / 2 : 0.5;
      CL::Path64 t = CL::TrimCollinear(p, open); CL::Path64 s = CL::SimplifyPath(p, eps, !open); CL::Path64 r = CL::RamerDouglasPeucker(p, eps);
      CL::Paths64 pp{p, t}; CL::Paths64 s2 = CL::SimplifyPaths(pp, eps, !open), r2 = CL::RamerDouglasPeucker(pp, eps);
      double ar = CL::Area(p), ln = CL::Length(p, !open); CL::Rect64 b = CL::GetBounds(p); CL::Rect64 b2 = CL::GetBounds(pp);
      CL::Path64 q = p; CL::StripDuplicates(q, !open); CL::Path64 ne = CL::StripNearEqual(p, eps * eps, !open); CL::Path64 tr = CL::TranslatePath(p, (i64)3, (i64)-4);
      for (auto& pt : PA[i < 100 ? i : 99]) { auto res = CL::PointInPolygon(CL::Point64(pt.x, pt.y), p); (void)res; }
      CL::Path64 el = CL::Ellipse(CL::Point64(0, 0), (double)(i % 7), (double)(i % 5), i % 11);
      bool pos = CL::IsPositive(p); (void)pos; (void)ar; (void)ln; (void)b; (void)b2;
      bump(C_LIB, 14); if (t != p || s != p) bump(C_NONTRIVIAL); },
    [&](u64 i) { bool open = i % 2; i /= 2; Case k; k.set("f", "utils").set("P", Paths{PA[i]}).set("open", open).set("mag", magclass); return k.s(); }});
  // ---- F8b: multiply wound paths: L laps round a base polygon (accumulating arithmetic: areas, winding counts, offsets of coincident paths)
  static const int LAPS[] = {1, 2, 3, 4, 5, 8};
  std::vector<Path> bases = {{{-M, -M}, {M, -M}, {M, M}, {-M, M}}, {{-M, -M}, {M, 0}, {-M, M}}, {{-M, -M}, {M, M}, {M, -M}, {-M, M}}, {{-M, M}, {M, M}, {M, -M}, {-M, -M}}};
  if (magclass <= 2 && want("laps")) fam.push_back({"laps", bases.size() * 6 * 2, [&, bases](u64 i, bool) {
      bool open = i % 2; i /= 2; int L = LAPS[i % 6]; i /= 6; Path p; for (int l = 0; l < L; ++l) for (auto& v : bases[i]) p.push_back(v);
      CL::Path64 q = VFC_NS::to64(p); double eps = M > 1 ? (double)M / 2 : 0.5;
      double ar = CL::Area(q); bool pos = CL::IsPositive(q); double ln = CL::Length(q, !open); (void)ar; (void)pos; (void)ln;
      CL::Path64 t = CL::TrimCollinear(q, open), sp = CL::SimplifyPath(q, eps, !open), rd = CL::RamerDouglasPeucker(q, eps);
      auto pip = CL::PointInPolygon(CL::Point64((int64_t)0, (int64_t)0), q); (void)pip;
      for (int fr = 0; fr < 4; ++fr) { BoolOut o = VFC_NS::boolop(2, fr, Paths{p}, Paths(), Paths(), true, false); if (!o.closed.empty()) bump(C_NONTRIVIAL); }
      BoolOut x = VFC_NS::boolop(4, 1, Paths{p}, Paths{bases[(i + 1) % bases.size()]}, open ? Paths{p} : Paths(), true, false); (void)x;
      for (int jt = 0; jt < 4; ++jt) { CL::ClipperOffset co(2.0, M > 1 ? (double)M / 64 : 0.25); co.AddPaths(CL::Paths64{q}, (CL::JoinType)jt, open ? CL::EndType::Butt : CL::EndType::Polygon); CL::Paths64 s2; co.Execute(M > 1 ? (double)M / 4 : 1.0, s2); co.Execute(M > 1 ? -(double)M / 4 : -1.0, s2); }
      CL::Paths64 mk = CL::MinkowskiSum(CL::Path64{CL::Point64((int64_t)0, (int64_t)0), CL::Point64((int64_t)1, (int64_t)0), CL::Point64((int64_t)0, (int64_t)1)}, q, !open); (void)mk;
      CL::Paths64 rc = CL::RectClip(CL::Rect64(-M / 2 - 1, -M / 2 - 1, M / 2 + 1, M / 2 + 1), CL::Paths64{q}); (void)rc;
      bump(C_LIB, 20); },
    [&, bases](u64 i) { bool open = i % 2; i /= 2; int L = LAPS[i % 6]; i /= 6; Case k; k.set("f", "laps").set("base", Paths{bases[i]}).set("laps", L).set("open", open).set("mag", magclass); return k.s(); }});
  // ---- F8d: dense small-lattice triangles (micro self-intersections of output rings: FixSelfIntersects / DoSplitOp run and append
  // to the outrec list while the solution is being built) through ClipperD (PathsD and PolyTreeD) and Clipper64
  if (magclass == 0 && want("bool_dense")) fam.push_back({"bool_dense", (u64)25 * 25 * 25 * 27, [&](u64 i, bool) {
      u64 ci = i % 27; i /= 27; int a0 = (int)(i % 25), a1 = (int)(i / 25 % 25), a2 = (int)(i / 625);
      if (!(a0 < a1 && a0 < a2 && a1 != a2)) return;   // rotation-normalised distinct triples only
      int c0 = (int)(ci % 3), c1 = (int)(ci / 3 % 3), c2 = (int)(ci / 9);   // clip: one point from each row of the coarse lattice {0,2,4}^2
      auto L = [](int k) { return CL::PointD((double)(k % 5), (double)(k / 5)); };
      CL::PathsD S{{L(a0), L(a1), L(a2)}}, C{{CL::PointD(2.0 * c0, 0.0), CL::PointD(2.0 * c1, 2.0), CL::PointD(2.0 * c2, 4.0)}};
      // 0..3 separate far squares, listed BEFORE and AFTER the triangle: the outrec list then holds 1..5 records when a ring is split,
      // i.e. also exactly as many as its capacity, and the split ring is not the last one
      for (int extra = 0; extra < 4; ++extra) {
        CL::PathsD S2; for (int j = 0; j < extra; ++j) if (j % 2 == 0) S2.push_back({CL::PointD(20.0 + 3 * j, 20.0), CL::PointD(22.0 + 3 * j, 20.0), CL::PointD(22.0 + 3 * j, 22.0), CL::PointD(20.0 + 3 * j, 22.0)});
        S2.push_back(S[0]); for (int j = 0; j < extra; ++j) if (j % 2 == 1) S2.push_back({CL::PointD(20.0 + 3 * j, 20.0), CL::PointD(22.0 + 3 * j, 20.0), CL::PointD(22.0 + 3 * j, 22.0), CL::PointD(20.0 + 3 * j, 22.0)});
        for (int ct = 2; ct <= 4; ct += 2) {
          CL::ClipperD cd(0); cd.AddSubject(S2); cd.AddClip(C); CL::PathsD sol; cd.Execute((CL::ClipType)ct, CL::FillRule::NonZero, sol);
          CL::ClipperD ct2(0); ct2.AddSubject(S2); ct2.AddClip(C); CL::PolyTreeD tr; ct2.Execute((CL::ClipType)ct, CL::FillRule::EvenOdd, tr);
          if (!sol.empty()) bump(C_NONTRIVIAL);
        }
      }
      bump(C_LIB, 16); },
    [&](u64 i) { u64 ci = i % 27; i /= 27; Case k; k.set("f", "bool_dense").set("s", (long long)i).set("c", (long long)ci); return k.s(); }});
  // ---- F8c: paths whose vertex counts sit on and around machine-word multiples (bit vectors, block-wise buffers): zigzags and sampled ellipses
  static const int LENS[] = {31, 32, 33, 63, 64, 65, 127, 128, 129, 191, 192, 193, 256};
  if (magclass <= 1 && want("longpaths")) fam.push_back({"longpaths", 13 * 2 * 2, [&](u64 i, bool) {
      bool open = i % 2; i /= 2; bool ell = i % 2; i /= 2; int n = LENS[i];
      CL::Path64 q;
      if (ell) q = CL::Ellipse(CL::Point64((int64_t)0, (int64_t)0), 300.0 * (double)M, 200.0 * (double)M, (size_t)n);
      else for (int k = 0; k < n; ++k) q.emplace_back((int64_t)(k * 7) * M, (int64_t)((k % 2) * 3 + (k % 5)) * M);
      double eps = (double)M * 1.5;
      CL::Path64 t = CL::TrimCollinear(q, open), sp = CL::SimplifyPath(q, eps, !open), rd = CL::RamerDouglasPeucker(q, eps), ne = CL::StripNearEqual(q, eps * eps, !open);
      CL::Paths64 pp{q, sp}; CL::Paths64 s2 = CL::SimplifyPaths(pp, eps, !open), r2 = CL::RamerDouglasPeucker(pp, eps);
      CL::PathD qd; for (auto& v : q) qd.emplace_back((double)v.x / 4, (double)v.y / 4);
      CL::PathD spd = CL::SimplifyPath(qd, eps / 4, !open), rdd = CL::RamerDouglasPeucker(qd, eps / 4), td = CL::TrimCollinear(qd, 2, open);
      BoolOut o = VFC_NS::boolop(2, 1, VFC_NS::from64(CL::Paths64{q}), Paths(), Paths(), true, false);
      CL::ClipperOffset co; co.AddPath(q, CL::JoinType::Round, open ? CL::EndType::Round : CL::EndType::Polygon); CL::Paths64 os; co.Execute(5.0 * (double)M, os);
      bump(C_LIB, 13); if (sp.size() != q.size()) bump(C_NONTRIVIAL); },
    [&](u64 i) { bool open = i % 2; i /= 2; bool ell = i % 2; i /= 2; Case k; k.set("f", "longpaths").set("n", LENS[i]).set("shape", ell ? "ellipse" : "zigzag").set("open", open).set("mag", magclass); return k.s(); }});
  // ---- F8d: star polygons {n/k} (every edge passes right through a central rectangle; the vertices sit round it in every direction): RectClip /
  // RectClipLines produce about 2.5 output points per input vertex, the sweep meets n*(k-1) crossings and winding numbers up to k
  static std::vector<std::pair<int, int>> STARS; if (STARS.empty()) for (int n = 5; n <= 41; ++n) for (int k = 2; 2 * k < n; ++k) { int x = n, y = k; while (y) { int t = x % y; x = y; y = t; } if (x == 1) STARS.push_back({n, k}); }
  if (magclass <= 1 && want("stars")) fam.push_back({"stars", (u64)STARS.size() * 3, [&](u64 i, bool) {
      int ri = i % 3; i /= 3; int n = STARS[i].first, k = STARS[i].second; static const i64 RR[3] = {100, 300, 600};
      CL::Path64 q; for (int j = 0; j < n; ++j) { double t = 2 * 3.14159265358979323846 * (double)((j * k) % n) / n; q.emplace_back((int64_t)llround(1000.0 * std::cos(t)) * M, (int64_t)llround(1000.0 * std::sin(t)) * M); }
      CL::Rect64 rc(-RR[ri] * M, -RR[ri] * M, RR[ri] * M, (RR[ri] + 37) * M);
      CL::Paths64 in{q}; CL::Paths64 a1 = CL::RectClip(rc, in), a2 = CL::RectClipLines(rc, in);
      { class CL::RectClip64 o1(rc); CL::Paths64 b1 = o1.Execute(in), b1b = o1.Execute(in); class CL::RectClipLines64 o2(rc); CL::Paths64 b2 = o2.Execute(in); }
      BoolOut o = VFC_NS::boolop(2, ri % 2, VFC_NS::from64(in), Paths(), Paths(), true, false);
      CL::ClipperOffset co; co.AddPath(q, CL::JoinType::Miter, CL::EndType::Polygon); CL::Paths64 os; co.Execute((ri - 1) * 20.0 * (double)M, os);
      bump(C_LIB, 8); if (a1.size() + a2.size() > 1) bump(C_NONTRIVIAL); },
    [&](u64 i) { int ri = i % 3; i /= 3; Case k; k.set("f", "stars").set("n", STARS[i].first).set("k", STARS[i].second).set("rect", ri).set("mag", magclass); return k.s(); }});
  // ---- F9: C export functions with null pointers, empty arrays and small paths
  if (magclass == 0 && want("exports")) fam.push_back({"exports", N2 * 5 * 3, [&](u64 i, bool) {
      int variant = i % 3; i /= 3; int ct = i % 5; i /= 5; const Path& p = P2[i];
      // variant 0: path as subject, null clip; 1: empty-array subject (A=2,C=0); 2: path as subject and clip
      const size_t DIM = (size_t)CL::EXPORT_VERTEX_DIMENSIONALITY;   // 3 values per vertex in USINGZ builds
      auto mkc = [DIM](const Paths& pp) { size_t len = 2; size_t cnt = 0; for (auto& q : pp) if (!q.empty()) { len += 2 + DIM * q.size(); ++cnt; } int64_t* v = new int64_t[len]; size_t k = 0; v[k++] = (int64_t)len; v[k++] = (int64_t)cnt;
        for (auto& q : pp) { if (q.empty()) continue; v[k++] = (int64_t)q.size(); v[k++] = 0; for (auto& pt : q) { v[k++] = pt.x; v[k++] = pt.y; if (DIM == 3) v[k++] = 7; } } return v; };
      int64_t* subj = variant == 1 ? mkc(Paths()) : mkc(Paths{p}); int64_t* clip = variant == 2 ? mkc(Paths{p}) : nullptr;
      int64_t *sol = nullptr, *solo = nullptr, *tree = nullptr;
      int rc1 = CL::BooleanOp64((uint8_t)ct, 1, subj, nullptr, clip, sol, solo, true, false);
      if (sol) CL::DisposeArray64(sol); if (solo) CL::DisposeArray64(solo); sol = solo = nullptr;
      int rc2 = CL::BooleanOp_PolyTree64((uint8_t)ct, 0, subj, subj, clip, tree, solo, false, true);
      if (tree) CL::DisposeArray64(tree); if (solo) CL::DisposeArray64(solo);
      int64_t* inf = CL::InflatePaths64(subj, 1.5, (uint8_t)(ct % 4), (uint8_t)ct, 2.0, 0.25, false); if (inf) CL::DisposeArray64(inf);
      CL::CRect64 r{-1, -1, 1, 1}; int64_t* rc = CL::RectClip64(r, subj); if (rc) CL::DisposeArray64(rc); rc = CL::RectClipLines64(r, subj); if (rc) CL::DisposeArray64(rc);
      rc = CL::RectClip64(r, nullptr); if (rc) CL::DisposeArray64(rc);
      (void)rc1; (void)rc2; bump(C_LIB, 6); bump(C_NONTRIVIAL);
      delete[] subj; delete[] clip; },
    [&](u64 i) { int variant = i % 3; i /= 3; int ct = i % 5; i /= 5; Case k; k.set("f", "exports").set("P", Paths{P2[i]}).set("ct", ct).set("variant", variant); return k.s(); }});

  u64 total = 0; std::vector<u64> base; for (auto& f : fam) { base.push_back(total); total += f.count; }
  auto locate = [&](u64 g, size_t& fi, u64& li) { fi = fam.size() - 1; for (size_t k = 0; k + 1 < fam.size(); ++k) if (g < base[k + 1]) { fi = k; break; } li = g - base[fi]; };
  auto exec_case = [&](u64 g) {
    size_t fi; u64 li; locate(g, fi, li);
#if HAVE_ASAN
    size_t b0 = __sanitizer_get_current_allocated_bytes();
#endif
    fam[fi].exec(li, false);
    bump(C_CASES);
#if HAVE_ASAN
    size_t b1 = __sanitizer_get_current_allocated_bytes();
    if (b1 > b0) {  // confirm on a second and third execution: a genuine leak grows every time
      fam[fi].exec(li, false); size_t b2 = __sanitizer_get_current_allocated_bytes();
      fam[fi].exec(li, false); size_t b3 = __sanitizer_get_current_allocated_bytes();
      if (b2 > b1 && b3 > b2) fail_case(79, "allocation ledger: live heap bytes grow by " + std::to_string(b3 - b2) + " on every execution of this case (leak)");
    }
#endif
  };
  auto describe = [&](u64 g) { size_t fi; u64 li; locate(g, fi, li); return fam[fi].key(li); };
  auto tagfix = [&](u64, const std::string& tag) -> std::string {
    if (tag == "exit_79") return "leak"; if (tag == "exit_80") return "execute_false"; if (tag == "exit_81") return "c03_structural"; if (tag == "exit_82") return "noclip_nonempty"; return tag; };

  if (!a.replay.empty()) {
    // replay: find the case by key (linear scan over keys of its family) and run it in this process
    Case c = Case::parse(a.replay); std::string f = c.get("f");
    for (size_t fi = 0; fi < fam.size(); ++fi) if (fam[fi].name == f)
      for (u64 li = 0; li < fam[fi].count; ++li) if (fam[fi].key(li) == a.replay) {
        ForkBatch fb; g_sh = fb.sh; printf("replaying %s (family index %llu) in-process; a sanitizer report or crash below is the violation\n", a.replay.c_str(), (unsigned long long)li);
        fflush(stdout); exec_case(base[fi] + li); printf("completed without report\n"); return 0; }
    printf("case not found in this configuration (check --n/--mag arguments)\n"); return 2;
  }

  ForkBatch fb; g_sh = fb.sh; fb.ctr_names = {"cases", "lib_calls", "nontrivial", "execute_false"};
  fb.stall_seconds = 30;
  const u64 B = 8192; u64 nb = (total + B - 1) / B; bool done = true;
  for (u64 b = 0; b < nb; ++b) {
    if (!rep.mine(b)) continue;
    u64 lo = b * B, hi = std::min(total, lo + B);
    if (!fb.run(rep, g_prop, lo, hi, exec_case, describe, tagfix)) { done = false; break; }
  }
  rep.ctr["compared"] = rep.ctr["cases"];
  for (auto& f : fam) if (rep.args.shard == 0) rep.add("family_size_" + f.name, f.count);
  if (done) rep.bounds_completed.push_back("scope D n=" + std::to_string(n) + " nc=" + std::to_string(nc) + " n2=" + std::to_string(n2) + " mag=" + std::to_string(magclass) + " families=" + only);
  if (!fam.empty()) { rep.sample(fam[0].key(fam[0].count / 3)); rep.sample(fam.back().key(fam.back().count / 2)); }
  rep.write();
  return 0;
}
