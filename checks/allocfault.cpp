// C10 (fault clause, E-FAULT): an allocation failure at every single allocation point of every
// driver operation. operator new / delete (all forms) are replaced; a counting run measures the
// N allocations of an operation, then for k = 1..N the k-th allocation fails (throwing forms throw
// std::bad_alloc, nothrow forms return null). Oracle: either std::bad_alloc - and nothing else -
// reaches the caller, or the call completes with the reference result; afterwards every object is
// destroyed under AddressSanitizer without a report. Each (operation, k) runs in a forked batch so
// that a crash is attributed to one case.
#include <cstdlib>
#include <new>
static bool g_armed = false;
static long g_count = 0, g_fail_at = -1, g_failed = 0;
static inline bool should_fail() { if (!g_armed) return false; if (++g_count == g_fail_at) { ++g_failed; return true; } return false; }
void* operator new(std::size_t n) { if (should_fail()) throw std::bad_alloc(); void* p = std::malloc(n ? n : 1); if (!p) throw std::bad_alloc(); return p; }
void* operator new[](std::size_t n) { if (should_fail()) throw std::bad_alloc(); void* p = std::malloc(n ? n : 1); if (!p) throw std::bad_alloc(); return p; }
void* operator new(std::size_t n, const std::nothrow_t&) noexcept { if (should_fail()) return nullptr; return std::malloc(n ? n : 1); }
void* operator new[](std::size_t n, const std::nothrow_t&) noexcept { if (should_fail()) return nullptr; return std::malloc(n ? n : 1); }
void* operator new(std::size_t n, std::align_val_t a) { if (should_fail()) throw std::bad_alloc(); void* p = std::aligned_alloc((std::size_t)a, (n + (std::size_t)a - 1) / (std::size_t)a * (std::size_t)a); if (!p) throw std::bad_alloc(); return p; }
void* operator new[](std::size_t n, std::align_val_t a) { return operator new(n, a); }
void* operator new(std::size_t n, std::align_val_t a, const std::nothrow_t&) noexcept { if (should_fail()) return nullptr; return std::aligned_alloc((std::size_t)a, (n + (std::size_t)a - 1) / (std::size_t)a * (std::size_t)a); }
void* operator new[](std::size_t n, std::align_val_t a, const std::nothrow_t& t) noexcept { return operator new(n, a, t); }
void operator delete(void* p) noexcept { std::free(p); }
void operator delete[](void* p) noexcept { std::free(p); }
void operator delete(void* p, std::size_t) noexcept { std::free(p); }
void operator delete[](void* p, std::size_t) noexcept { std::free(p); }
void operator delete(void* p, const std::nothrow_t&) noexcept { std::free(p); }
void operator delete[](void* p, const std::nothrow_t&) noexcept { std::free(p); }
void operator delete(void* p, std::align_val_t) noexcept { std::free(p); }
void operator delete[](void* p, std::align_val_t) noexcept { std::free(p); }
void operator delete(void* p, std::size_t, std::align_val_t) noexcept { std::free(p); }
void operator delete[](void* p, std::size_t, std::align_val_t) noexcept { std::free(p); }
void operator delete(void* p, std::align_val_t, const std::nothrow_t&) noexcept { std::free(p); }
void operator delete[](void* p, std::align_val_t, const std::nothrow_t&) noexcept { std::free(p); }

#include "clipper2/clipper.h"
#include "clipper2/clipper.export.h"
#include "sides/clip_api.hpp"
#include "engine/forkbatch.hpp"

using namespace vf;
namespace CL = Clipper2Lib;

static void ser(std::string& s, const CL::Paths64& pp) { for (auto& p : pp) { s += "("; for (auto& q : p) s += std::to_string(q.x) + "," + std::to_string(q.y) + " "; s += ")"; } }
static void serD(std::string& s, const CL::PathsD& pp) { char b[64]; for (auto& p : pp) { s += "("; for (auto& q : p) { snprintf(b, sizeof b, "%a,%a ", q.x, q.y); s += b; } s += ")"; } }
static void serT(std::string& s, const CL::PolyPath64& n) { s += "{"; CL::Paths64 one{n.Polygon()}; ser(s, one); for (auto& c : n) serT(s, *c); s += "}"; }
static void serTD(std::string& s, const CL::PolyPathD& n) { s += "{"; CL::PathsD one{n.Polygon()}; serD(s, one); for (auto& c : n) serTD(s, *c); s += "}"; }
static CL::Path64 mk(std::initializer_list<int64_t> v) { CL::Path64 p; auto it = v.begin(); while (it != v.end()) { int64_t x = *it++; int64_t y = *it++; p.emplace_back(x, y); } return p; }

struct Op { std::string name; std::function<void(std::string&)> run; };   // run appends the serialised result to its argument (pre-reserved)

// inputs (built once, outside any armed region)
static CL::Paths64 SUBJ, CLIP, OPEN, NEST, DEG;
static CL::PathsD SUBJD, CLIPD;
static CL::Path64 PATTERN, LONGPATH;
static int64_t* mkc(const CL::Paths64& pp) {
  const size_t DIM = (size_t)CL::EXPORT_VERTEX_DIMENSIONALITY; size_t len = 2, cnt = 0; for (auto& q : pp) if (!q.empty()) { len += 2 + DIM * q.size(); ++cnt; }
  int64_t* v = (int64_t*)std::malloc(len * 8); size_t k = 0; v[k++] = (int64_t)len; v[k++] = (int64_t)cnt;
  for (auto& q : pp) { if (q.empty()) continue; v[k++] = (int64_t)q.size(); v[k++] = 0; for (auto& pt : q) { v[k++] = pt.x; v[k++] = pt.y; if (DIM == 3) v[k++] = 0; } }
  return v;
}
static int64_t *CSUBJ, *CCLIP, *COPEN;

static std::vector<Op> build_ops() {
  std::vector<Op> ops;
  for (int ct = 1; ct <= 4; ++ct) ops.push_back({"Clipper64 paths+open ct=" + std::to_string(ct), [ct](std::string& out) {
    CL::Clipper64 c; c.AddSubject(SUBJ); c.AddOpenSubject(OPEN); c.AddClip(CLIP); CL::Paths64 s, o; bool ok = c.Execute((CL::ClipType)ct, CL::FillRule::NonZero, s, o); out += ok ? "T" : "F"; ser(out, s); ser(out, o); }});
  ops.push_back({"Clipper64 tree (nested rings, EvenOdd union)", [](std::string& out) {
    CL::Clipper64 c; c.AddSubject(NEST); c.AddClip(CLIP); CL::PolyTree64 t; CL::Paths64 o; bool ok = c.Execute(CL::ClipType::Union, CL::FillRule::EvenOdd, t, o); out += ok ? "T" : "F"; serT(out, t); }});
  ops.push_back({"Clipper64 tree xor with open", [](std::string& out) {
    CL::Clipper64 c; c.AddSubject(SUBJ); c.AddOpenSubject(OPEN); c.AddClip(NEST); CL::PolyTree64 t; CL::Paths64 o; bool ok = c.Execute(CL::ClipType::Xor, CL::FillRule::EvenOdd, t, o); out += ok ? "T" : "F"; serT(out, t); ser(out, o); }});
  ops.push_back({"Clipper64 reused: execute twice + ReuseableDataContainer64", [](std::string& out) {
    CL::ReuseableDataContainer64 r; r.AddPaths(SUBJ, CL::PathType::Subject, false); r.AddPaths(CLIP, CL::PathType::Clip, false);
    CL::Clipper64 c; c.AddReuseableData(r); CL::Paths64 s; c.Execute(CL::ClipType::Intersection, CL::FillRule::NonZero, s); ser(out, s); c.Execute(CL::ClipType::Difference, CL::FillRule::EvenOdd, s); ser(out, s); }});
  ops.push_back({"Clipper64 degenerate rectilinear input (horizontal joins)", [](std::string& out) {
    CL::Clipper64 c; c.AddSubject(DEG); c.AddClip(CL::Paths64{mk({4, 4, 8, 4, 8, 8, 4, 8})}); CL::PolyTree64 t; CL::Paths64 o; c.Execute(CL::ClipType::Xor, CL::FillRule::NonZero, t, o); serT(out, t); }});
  ops.push_back({"ClipperD tree precision 2", [](std::string& out) {
    CL::ClipperD c(2); c.AddSubject(SUBJD); c.AddClip(CLIPD); CL::PolyTreeD t; CL::PathsD o; bool ok = c.Execute(CL::ClipType::Xor, CL::FillRule::NonZero, t, o); out += ok ? "T" : "F"; serTD(out, t); }});
  ops.push_back({"BooleanOp PathsD free function", [](std::string& out) { CL::PathsD r = CL::BooleanOp(CL::ClipType::Union, CL::FillRule::NonZero, SUBJD, CLIPD, 3); serD(out, r); }});
  for (int et = 0; et <= 4; ++et) for (int jt = 0; jt < 4; ++jt) ops.push_back({"ClipperOffset paths et=" + std::to_string(et) + " jt=" + std::to_string(jt), [et, jt](std::string& out) {
    CL::ClipperOffset co(2.0, 0.5); co.AddPaths(et == 0 ? SUBJ : OPEN, (CL::JoinType)jt, (CL::EndType)et); CL::Paths64 s; co.Execute(et == 0 ? -4.0 : 6.0, s); ser(out, s); }});
  ops.push_back({"ClipperOffset tree, two groups", [](std::string& out) {
    CL::ClipperOffset co; co.AddPaths(NEST, CL::JoinType::Round, CL::EndType::Polygon); co.AddPaths(OPEN, CL::JoinType::Miter, CL::EndType::Joined); CL::PolyTree64 t; co.Execute(3.0, t); serT(out, t); }});
  ops.push_back({"InflatePaths PathsD", [](std::string& out) { CL::PathsD r = CL::InflatePaths(SUBJD, 1.5, CL::JoinType::Round, CL::EndType::Polygon, 2.0, 2, 0.1); serD(out, r); }});
  ops.push_back({"RectClip (function + reused object)", [](std::string& out) {
    CL::Rect64 r(20, 20, 70, 70); CL::Paths64 a = CL::RectClip(r, SUBJ); ser(out, a); class CL::RectClip64 rc(r); CL::Paths64 b = rc.Execute(NEST); ser(out, b); CL::Paths64 c = rc.Execute(SUBJ); ser(out, c); }});
  ops.push_back({"RectClipLines", [](std::string& out) { CL::Rect64 r(20, 20, 70, 70); CL::Paths64 a = CL::RectClipLines(r, OPEN); ser(out, a); CL::Paths64 b = CL::RectClipLines(r, CL::Paths64{LONGPATH}); ser(out, b); }});
  ops.push_back({"MinkowskiSum closed", [](std::string& out) { CL::Paths64 r = CL::MinkowskiSum(PATTERN, SUBJ[0], true); ser(out, r); }});
  ops.push_back({"MinkowskiDiff open", [](std::string& out) { CL::Paths64 r = CL::MinkowskiDiff(PATTERN, OPEN[0], false); ser(out, r); }});
  ops.push_back({"utilities", [](std::string& out) {
    CL::Path64 a = CL::TrimCollinear(LONGPATH, false), b = CL::SimplifyPath(LONGPATH, 2.0, true), c = CL::RamerDouglasPeucker(LONGPATH, 2.0), e = CL::Ellipse(CL::Point64(0, 0), 20.0, 10.0, 0);
    CL::Paths64 all{a, b, c, e}; ser(out, all); CL::Paths64 s2 = CL::SimplifyPaths(all, 1.0, true); ser(out, s2); CL::Path64 t = CL::TranslatePath(LONGPATH, (int64_t)3, (int64_t)4); CL::Path64 sn = CL::StripNearEqual(LONGPATH, 4.0, true); CL::Paths64 two{t, sn}; ser(out, two); }});
  ops.push_back({"export BooleanOp64", [](std::string& out) {
    int64_t *sol = nullptr, *solo = nullptr; int rc = CL::BooleanOp64(1, 1, CSUBJ, COPEN, CCLIP, sol, solo, true, false); out += std::to_string(rc);
    if (sol) { for (int64_t i = 0; i < sol[0]; ++i) out += "," + std::to_string(sol[i]); CL::DisposeArray64(sol); } if (solo) CL::DisposeArray64(solo); }});
  ops.push_back({"export BooleanOp_PolyTree64", [](std::string& out) {
    int64_t *sol = nullptr, *solo = nullptr; int rc = CL::BooleanOp_PolyTree64(4, 0, CSUBJ, nullptr, CCLIP, sol, solo, true, false); out += std::to_string(rc);
    if (sol) { for (int64_t i = 0; i < sol[0]; ++i) out += "," + std::to_string(sol[i]); CL::DisposeArray64(sol); } if (solo) CL::DisposeArray64(solo); }});
  ops.push_back({"export InflatePaths64 + RectClip64 + MinkowskiSum64", [](std::string& out) {
    int64_t* a = CL::InflatePaths64(CSUBJ, 2.0, 2, 0, 2.0, 0.25, false); if (a) { out += std::to_string(a[0]); CL::DisposeArray64(a); }
    CL::CRect64 r{20, 20, 70, 70}; int64_t* b = CL::RectClip64(r, CSUBJ); if (b) { out += "," + std::to_string(b[0]); CL::DisposeArray64(b); } }});
  return ops;
}

int main(int argc, char** argv) {
  Args a = parse_args(argc, argv);
  Reporter rep(a); install_crash_handler(rep);
  SUBJ = {mk({10, 10, 60, 12, 55, 62, 8, 58}), mk({30, 30, 90, 35, 85, 80, 28, 85})};
  CLIP = {mk({40, 5, 75, 45, 35, 95, 5, 50}), mk({20, 50, 40, 30, 60, 50, 40, 50})};
  OPEN = {mk({0, 40, 100, 45, 50, 100}), mk({15, 5, 15, 95}), mk({50, 50})};
  NEST = {mk({0, 0, 100, 0, 100, 100, 0, 100}), mk({10, 10, 10, 90, 90, 90, 90, 10}), mk({20, 20, 80, 20, 80, 80, 20, 80}), mk({30, 30, 30, 70, 70, 70, 70, 30})};
  DEG = {mk({0, 4, 12, 4, 12, 12, 0, 12}), mk({0, 12, 12, 12, 12, 0, 0, 0}), mk({0, 12, 12, 12, 12, 4, 0, 4}), mk({0, 0, 4, 0, 4, 0, 0, 0}), CL::Path64(), mk({5, 5})};
  for (auto& p : SUBJ) { CL::PathD q; for (auto& v : p) q.emplace_back(v.x / 8.0, v.y / 8.0); SUBJD.push_back(q); }
  for (auto& p : CLIP) { CL::PathD q; for (auto& v : p) q.emplace_back(v.x / 8.0, v.y / 8.0); CLIPD.push_back(q); }
  PATTERN = mk({-3, -2, 4, -1, 1, 5}); for (int i = 0; i < 40; ++i) LONGPATH.emplace_back((int64_t)(i * 5), (int64_t)((i % 7) * (i % 3) + (i % 2)));
  CSUBJ = mkc(SUBJ); CCLIP = mkc(CLIP); COPEN = mkc(OPEN);
  std::vector<Op> ops = build_ops();
  const u64 MAXK = 8192;
  // counting runs (and reference results)
  std::vector<long> N(ops.size()); std::vector<std::string> ref(ops.size());
  for (size_t i = 0; i < ops.size(); ++i) {
    std::string out; out.reserve(1 << 16);
    g_count = 0; g_fail_at = -1; g_armed = true; ops[i].run(out); g_armed = false; N[i] = g_count; ref[i] = out;
    if ((u64)N[i] >= MAXK) { fprintf(stderr, "operation %s needs %ld allocations (> MAXK)\n", ops[i].name.c_str(), N[i]); return 2; }
    // determinism of the allocation sequence: a second counting run must give the same N and result
    std::string out2; out2.reserve(1 << 16); g_count = 0; g_armed = true; ops[i].run(out2); g_armed = false;
    if (g_count != N[i] || out2 != out) { fprintf(stderr, "non-deterministic allocation count for %s\n", ops[i].name.c_str()); return 2; }
  }
  ForkBatch fb; fb.ctr_names = {"cases", "lib_calls", "bad_alloc_reached_caller", "completed_normally_same_result", "nontrivial"}; fb.stall_seconds = 30;
  FbShared* sh = fb.sh;
  auto exec_case = [&](u64 g) {
    size_t oi = g / MAXK; long k = (long)(g % MAXK) + 1;
    if (k > N[oi]) return;
    std::string out; out.reserve(1 << 16);
    int outcome = 0;  // 1 bad_alloc, 2 completed, 3 other exception
    g_count = 0; g_failed = 0; g_fail_at = k; g_armed = true;
    try { ops[oi].run(out); outcome = 2; }
    catch (const std::bad_alloc&) { outcome = 1; }
    catch (...) { outcome = 3; }
    g_armed = false;
    sh->ctr[0] = sh->ctr[0] + 1; sh->ctr[1] = sh->ctr[1] + 1;
    if (outcome == 1) { sh->ctr[2] = sh->ctr[2] + 1; sh->ctr[4] = sh->ctr[4] + 1; }
    else if (outcome == 2) {
      if (out == ref[oi]) sh->ctr[3] = sh->ctr[3] + 1;
      else { strncpy((char*)sh->note, ("the call completed without reporting the allocation failure but returned a different result: " + out.substr(0, 300)).c_str(), sizeof sh->note - 1); sh->note_set = 1; _exit(83); }
    } else { strncpy((char*)sh->note, "an exception other than std::bad_alloc reached the caller", sizeof sh->note - 1); sh->note_set = 1; _exit(84); }
  };
  auto describe = [&](u64 g) { Case c; c.set("op", ops[g / MAXK].name).set("fail_allocation", (long long)(g % MAXK) + 1).set("of", N[g / MAXK]); return c.s(); };
  auto tagfix = [&](u64, const std::string& tag) -> std::string { if (tag == "exit_83") return "allocation_failure_swallowed_wrong_result"; if (tag == "exit_84") return "foreign_exception"; return "alloc_fault_" + tag; };
  if (!a.replay.empty()) {
    Case c = Case::parse(a.replay);
    for (size_t i = 0; i < ops.size(); ++i) if (ops[i].name == c.get("op")) { printf("replaying in-process: %s, failing allocation %lld of %ld\n", ops[i].name.c_str(), c.geti("fail_allocation"), N[i]); fflush(stdout);
      exec_case(i * MAXK + (u64)c.geti("fail_allocation") - 1); printf("completed: bad_alloc reached the caller or the result was unchanged\n"); return 0; }
    return 2;
  }
  // one batch per operation
  bool done = true;
  for (size_t i = 0; i < ops.size(); ++i) {
    if (!rep.mine(i)) continue;
    if (!fb.run(rep, a.prop.empty() ? "C10" : a.prop, i * MAXK, i * MAXK + (u64)N[i], exec_case, describe, tagfix)) { done = false; break; }
    rep.add("operations"); rep.add("allocation_points", (u64)N[i]);
    rep.sample(ops[i].name + ": " + std::to_string(N[i]) + " allocation points");
  }
  rep.ctr["compared"] = rep.ctr["cases"];
  if (done) rep.bounds_completed.push_back("every single allocation point of " + std::to_string(ops.size()) + " driver operations");
  rep.write();
  return 0;
}
